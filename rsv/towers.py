"""Power-cone towers: the real IPCone.to_soc() output read as rotated-cone triples.

IPCone(y, x, beta) is meant to denote   |y|^N <= prod_i x_i^beta_i ,  x >= 0 ,  N = sum(beta).
to_soc() returns CvxConstr objects of type 'E' (from Affine.rsocone: w^2 <= u*v, u,v >= 0) and
'A' (|left| <= s padding rows).  On the open positive orthant the tower is LINEAR IN LOGARITHMS:
   w^2 <= u v   <=>   2 W <= U + V ,      |y|^N <= prod x^beta   <=>   N Y <= sum beta_i X_i
so soundness is QF_LRA and exactness exists-forall-LRA for ANY beta (degree independent).
The boundary (some factor zero) is covered by real-arithmetic pinned queries.
"""
from fractions import Fraction
import itertools
import numpy as np
import scipy.sparse as sp

from .poly import frac, z3mod
from .smt import HarnessError


def form_rows(aff):
    """Linear forms (dict col->Fraction, const Fraction) of an Affine's flattened entries."""
    lin = sp.csr_matrix(aff.linear)
    const = np.asarray(aff.const, dtype=float).reshape(-1)
    out = []
    for i in range(lin.shape[0]):
        r = lin.getrow(i)
        d = {}
        for j, c in zip(r.indices, r.data):
            if c != 0:
                d[int(j)] = d.get(int(j), Fraction(0)) + frac(c)
        d = {j: c for j, c in d.items() if c != 0}
        out.append((d, frac(const[i])))
    return out


def fadd(a, b, sb=1):
    d = dict(a[0])
    for j, c in b[0].items():
        d[j] = d.get(j, Fraction(0)) + sb * c
    return ({j: c for j, c in d.items() if c != 0}, a[1] + sb * b[1])


def fneg(a):
    return ({j: -c for j, c in a[0].items()}, -a[1])


class Tower:
    def __init__(self, beta):
        from rsome.gcp import Model as GM
        from rsome.lp import IPCone, Affine
        self.beta = list(beta)
        self.N = sum(beta)
        m = GM(mtype='R')
        y = m.dvar()
        x = m.dvar(len(beta))
        self.ycol = y.first
        self.xcols = list(range(x.first, x.first + x.size))
        cone = IPCone(y, x, list(beta))
        cons = cone.to_soc()
        self.ncols = m.last
        self.triples = []      # (w, u, v) forms:  w^2 <= u v, u >= 0, v >= 0
        self.absrows = []      # (arg, bound) forms: |arg| <= bound
        self.other = []
        for c in cons:
            xt = getattr(c, 'xtype', None)
            if xt == 'E':
                fin = form_rows(c.affine_in)
                out = c.affine_out
                fout = form_rows(out) if isinstance(out, Affine) else [({}, frac(float(np.asarray(out).reshape(-1)[0])))]
                if len(fin) != 2 or len(fout) != 1 or frac(c.multiplier) != 1:
                    self.other.append(('E-shape', c))
                    continue
                h = fneg(fout[0])
                u = fadd(h, fin[0])
                v = fadd(h, fin[0], -1)
                self.triples.append((fin[1], u, v))
            elif xt == 'A':
                fin = form_rows(c.affine_in)
                out = c.affine_out
                fout = form_rows(out) if isinstance(out, Affine) else \
                    [({}, frac(float(t))) for t in np.asarray(out, dtype=float).reshape(-1)]
                k = frac(c.multiplier)
                for a, o in zip(fin, fout):
                    self.absrows.append((({j: cc * k for j, cc in a[0].items()}, a[1] * k), fneg(o)))
            else:
                self.other.append((type(c).__name__, c))

    # ---- real-arithmetic meaning of what to_soc() returned
    def real_cons(self, vs):
        z3 = z3mod()

        def t(f):
            s = z3.RealVal(str(f[1]))
            for j, c in sorted(f[0].items()):
                s = s + z3.RealVal(str(c)) * vs[j]
            return s
        cs = []
        for w, u, v in self.triples:
            cs += [t(w) * t(w) <= t(u) * t(v), t(u) >= 0, t(v) >= 0]
        for a, b in self.absrows:
            cs += [t(a) <= t(b), -t(a) <= t(b)]
        return cs

    def real_target(self, vs):
        """|y|^N <= prod x^beta, x >= 0  (as polynomial conditions)."""
        z3 = z3mod()
        y = vs[self.ycol]
        ay = z3.If(y >= 0, y, -y)
        lhs = _pw(ay, self.N)
        rhs = None
        for c, b in zip(self.xcols, self.beta):
            f = _pw(vs[c], b)
            rhs = f if rhs is None else rhs * f
        return [vs[c] >= 0 for c in self.xcols] + [lhs <= rhs]

    # ---- logarithmic abstraction
    def log_form(self, f, L, L2):
        """log of a form that is (2^k) * column, else None."""
        if f[1] != 0 or len(f[0]) != 1:
            return None
        (j, c), = f[0].items()
        if c <= 0:
            return None
        k = 0
        cc = c
        while cc > 1:
            cc /= 2
            k += 1
        while cc < 1:
            cc *= 2
            k -= 1
        if cc != 1:
            return None
        return L[j] + k * L2

    def log_system(self):
        """Returns (L vars, L2, rows, supported).  rows: z3 booleans of the tower in log space."""
        z3 = z3mod()
        L = [z3.Real('L%d' % j) for j in range(self.ncols)]
        L2 = z3.Real('Llog2')
        rows = []
        ok = not self.other
        for w, u, v in self.triples:
            W, U, V = (self.log_form(f, L, L2) for f in (w, u, v))
            if W is None or U is None or V is None:
                ok = False
                continue
            rows.append(2 * W <= U + V)
        for a, b in self.absrows:
            A, B = self.log_form(a, L, L2), self.log_form(b, L, L2)
            if A is None or B is None:
                ok = False
                continue
            rows.append(A <= B)
        return L, L2, rows, ok

    def log_target(self, L):
        z3 = z3mod()
        return self.N * L[self.ycol] <= z3.Sum([b * L[c] for c, b in zip(self.xcols, self.beta)])

    def aux_cols(self):
        used = set()
        for tr in self.triples:
            for f in tr:
                used |= set(f[0])
        for ar in self.absrows:
            for f in ar:
                used |= set(f[0])
        return sorted(j for j in used if j != self.ycol and j not in self.xcols)

    # ---- numeric falsification (used when the log abstraction does not apply or reports sat)
    def numeric_cex(self, rnd, tries=4000):
        """Search a real point satisfying the returned constraints but not the target (or the
        reverse direction: target holds strictly but no completion exists is not searched here)."""
        import math
        best = None
        for _ in range(tries):
            vals = [0.0] * self.ncols
            for c in self.xcols:
                vals[c] = rnd.choice([0.0, 0.25, 0.5, 1.0, 2.0, 3.0]) if rnd.random() < 0.5 else rnd.uniform(0, 3)
            # greedy completion: propagate the largest admissible w through the triples
            if not self._complete(vals):
                continue
            tgt = 1.0
            for c, b in zip(self.xcols, self.beta):
                tgt *= vals[c] ** b
            yv = abs(vals[self.ycol])
            if yv ** self.N > tgt * (1 + 1e-6) + 1e-9:
                return vals
        return best

    def _complete(self, vals):
        """Set aux columns by repeatedly taking w = sqrt(u v) where w is a single aux/y column."""
        known = set(self.xcols)
        progress = True

        def ev(f):
            return float(f[1]) + sum(float(c) * vals[j] for j, c in f[0].items())
        pend = list(self.triples)
        absr = list(self.absrows)
        for _ in range(len(pend) + len(absr) + 2):
            for tr in list(pend):
                w, u, v = tr
                if set(u[0]) <= known and set(v[0]) <= known and len(w[0]) == 1:
                    (j, c), = w[0].items()
                    uu, vv = ev(u), ev(v)
                    if uu < 0 or vv < 0:
                        return False
                    vals[j] = (max(uu * vv, 0.0) ** 0.5 - float(w[1])) / float(c)
                    known.add(j)
                    pend.remove(tr)
            for ar in list(absr):
                a, b = ar
                if set(b[0]) <= known and len(a[0]) == 1:
                    (j, c), = a[0].items()
                    vals[j] = (ev(b) - float(a[1])) / float(c)
                    known.add(j)
                    absr.remove(ar)
        return not pend


def _pw(t, n):
    r = None
    for _ in range(int(n)):
        r = t if r is None else r * t
    return r if r is not None else z3mod().RealVal(1)


def all_betas(max_len, max_sum):
    out = []
    for n in range(2, max_len + 1):
        for b in itertools.product(range(1, max_sum), repeat=n):
            if sum(b) <= max_sum:
                out.append(list(b))
    return out


# ------------------------------------------------------------------ the tower theorem T(beta)
_DONE = {}


def tower_theorem(ses, beta, direction='both', rnd=None):
    """Discharge, for the REAL IPCone(y, x, beta).to_soc() output R(y, x, aux):

      soundness  R => x >= 0 and |y|^N <= prod x^beta       (i) x>=0  (ii) x_i=0 => y=0
                                                              (iii) y!=0 => aux>0  (iv) log rows => log target
      exactness  x > 0, y != 0, |y|^N <= prod x^beta => exists aux: R   (v) exists-forall LRA in logs
                 boundary samples (vi): pinned points with a zero factor are completable (QF_NRA sat)

    Returns True if every obligation of the requested direction was discharged; a reproduced
    counterexample is returned as ('cex', values)."""
    z3 = z3mod()
    key = (tuple(beta), direction)
    if key in _DONE:
        return _DONE[key]
    T = Tower(beta)
    name = 'tower%s' % (list(beta),)
    ses.stats.functions.add('rsome.lp.IPCone.to_pot/split/to_soc')
    vs = [z3.Real('c%d' % j) for j in range(T.ncols)]
    R = T.real_cons(vs)
    aux = T.aux_cols()
    L, L2, rows, ok = T.log_system()
    result = True
    import random as _r
    rnd = rnd or _r.Random(0)

    def fail(vals, what):
        return ('cex', dict(beta=list(beta), values=vals, what=what))

    if not ok:
        # forms are not single positive columns: the abstraction does not apply -> numeric search
        vals = T.numeric_cex(rnd)
        if vals is not None:
            _DONE[key] = fail(vals, 'returned constraints admit a point outside the power cone')
            return _DONE[key]
        raise HarnessError('tower %s: unsupported constraint forms and no numeric counterexample' % (beta,))
    if direction in ('both', 'sound'):
        r, m = ses.oblige(name + '/x>=0', R, [z3.Or([vs[c] < 0 for c in T.xcols])], kind='tower-boundary')
        if r == 'sat':
            return _cex(T, m, vs, key, 'a factor can be negative')
        for c in T.xcols:
            r, m = ses.oblige(name + '/x%d=0=>y=0' % c, R + [vs[c] == 0], [vs[T.ycol] != 0], kind='tower-boundary',
                              twin=False)
            if r == 'sat':
                return _cex(T, m, vs, key, 'zero factor but y != 0')
            result = result and r == 'unsat'
        if aux:
            r, m = ses.oblige(name + '/y!=0=>aux>0', R + [vs[T.ycol] != 0], [z3.Or([vs[j] <= 0 for j in aux])],
                              kind='tower-boundary', twin=False)
            result = result and r == 'unsat'
            if r == 'sat':
                # not a violation by itself (only the completeness of the log argument); fall back to numeric
                vals = T.numeric_cex(rnd)
                if vals is not None:
                    _DONE[key] = fail(vals, 'returned constraints admit a point outside the power cone')
                    return _DONE[key]
                result = False
        r, m = ses.oblige(name + '/log-sound', rows + [L2 > 0], [z3.Not(T.log_target(L))], kind='tower-log-sound',
                          sample=dict(beta=list(beta), triples=len(T.triples), cols=T.ncols))
        if r == 'sat':
            # build a real point from the log model: value = exp(log)
            import math
            from .smt import fval
            l2 = float(fval(m, L2))
            scale = math.log(2.0) / l2 if l2 > 0 else 1.0
            vals = [math.exp(max(min(float(fval(m, L[j])) * scale, 40), -40)) for j in range(T.ncols)]
            if _violates(T, vals):
                _DONE[key] = fail(vals, 'tower admits |y|^N > prod x^beta')
                return _DONE[key]
            vals = T.numeric_cex(rnd)
            if vals is not None:
                _DONE[key] = fail(vals, 'tower admits |y|^N > prod x^beta')
                return _DONE[key]
            raise HarnessError('log counterexample for tower %s does not reproduce' % (beta,))
        result = result and r == 'unsat'
    if direction in ('both', 'exact'):
        auxL = [L[j] for j in aux]
        body = z3.Not(z3.And(rows)) if rows else z3.BoolVal(False)
        q = z3.ForAll(auxL, body) if auxL else body
        r, m = ses.oblige(name + '/log-exact', [T.log_target(L), L2 > 0], [q], kind='tower-log-exact',
                          sample=dict(beta=list(beta), aux=len(aux)))
        if r == 'sat':
            import math
            from .smt import fval
            l2 = float(fval(m, L2))
            scale = math.log(2.0) / l2 if l2 > 0 else 1.0
            pt = {j: math.exp(max(min(float(fval(m, L[j])) * scale, 30), -30)) for j in [T.ycol] + T.xcols}
            # reproduce with real arithmetic: pinned x, y admits no completion
            pins = [vs[j] == z3.RealVal(str(Fraction(pt[j]).limit_denominator(10 ** 6))) for j in pt]
            r2, _ = ses.solve(R + pins, label=name + '/exact-replay')
            if r2 == 'unsat':
                _DONE[key] = fail([pt.get(j, 0.0) for j in range(T.ncols)],
                                  'a point of the power cone has no completion in the returned constraints')
                return _DONE[key]
            raise HarnessError('log exactness counterexample for tower %s does not reproduce (%s)' % (beta, r2))
        result = result and r == 'unsat'
        # boundary samples: one zero factor, y = 0 ; and an interior rational point
        for c in T.xcols:
            pins = [vs[j] == (0 if j == c else 1) for j in T.xcols] + [vs[T.ycol] == 0]
            r, _ = ses.expect_sat(name + '/boundary-completable', R + pins, kind='tower-boundary-sat')
            if r == 'unsat':
                _DONE[key] = fail([0.0] * T.ncols, 'boundary point x_%d=0,y=0 not completable' % c)
                return _DONE[key]
        pins = [vs[j] == 1 for j in T.xcols] + [vs[T.ycol] == 1]
        r, _ = ses.expect_sat(name + '/unit-point-completable', R + pins, kind='tower-boundary-sat')
        if r == 'unsat':
            _DONE[key] = fail([1.0] * T.ncols, 'the point y=1, x=1 is cut off')
            return _DONE[key]
    _DONE[key] = result
    return result


def _violates(T, vals):
    def ev(f):
        return float(f[1]) + sum(float(c) * vals[j] for j, c in f[0].items())
    for w, u, v in T.triples:
        if ev(u) < -1e-9 or ev(v) < -1e-9 or ev(w) ** 2 > ev(u) * ev(v) * (1 + 1e-9) + 1e-12:
            return False
    for a, b in T.absrows:
        if abs(ev(a)) > ev(b) * (1 + 1e-9) + 1e-12:
            return False
    tgt = 1.0
    for c, b in zip(T.xcols, T.beta):
        tgt *= vals[c] ** b
    return abs(vals[T.ycol]) ** T.N > tgt * (1 + 1e-6) + 1e-9


def _cex(T, m, vs, key, what):
    from .smt import fval
    vals = [float(fval(m, v)) for v in vs]
    _DONE[key] = ('cex', dict(beta=list(T.beta), values=vals, what=what))
    return _DONE[key]


def replay_tower(data, verbose=False):
    """Re-run the real IPCone(...).to_soc() and evaluate its constraints at the stored point."""
    T = Tower(data['beta'])
    vals = data['values']
    ok = _violates(T, vals)
    if not ok and 'no completion' in data.get('what', '') or 'cut off' in data.get('what', '') \
            or 'not completable' in data.get('what', ''):
        z3 = z3mod()
        vs = [z3.Real('c%d' % j) for j in range(T.ncols)]
        s = z3.Solver()
        s.add(T.real_cons(vs))
        for j in [T.ycol] + T.xcols:
            s.add(vs[j] == z3.RealVal(str(Fraction(vals[j]).limit_denominator(10 ** 6))))
        ok = str(s.check()) == 'unsat'
    if verbose:
        print('IPCone beta=%s: %s -> %s' % (data['beta'], data.get('what'), 'reproduced' if ok else 'not reproduced'))
    return ok
