"""Check driver: case fan-out over processes, merge, replay files, evidence, exit codes.

exit 0  property held on everything explored (known findings are printed, not failed)
exit 1  VIOLATION property=<id> replay=<path>   (reproduced against the real code)
exit 2  harness error / inconclusive core obligation / non-reproducing counterexample
"""
import importlib
import json
import os
import sys
import time
import traceback
import random
import concurrent.futures as cf

from .smt import Session, HarnessError, short_hash

ROOT = os.path.dirname(os.path.dirname(os.path.abspath(__file__)))
# RSV_EVIDENCE_DIR redirects evidence and replay files (used when the checks are run against a seeded
# change of /repo, so that the committed evidence of the unchanged tree is not overwritten)
EVID = os.environ.get('RSV_EVIDENCE_DIR') or os.path.join(ROOT, 'evidence')
REPLAYS = os.path.join(os.environ['RSV_EVIDENCE_DIR'], 'replays') if os.environ.get('RSV_EVIDENCE_DIR') \
    else os.path.join(ROOT, 'replays')
KNOWN = os.path.join(ROOT, 'known_findings.json')


def load_known():
    if not os.path.exists(KNOWN):
        return []
    with open(KNOWN) as f:
        return json.load(f).get('findings', [])


def jsonable(o):
    from fractions import Fraction
    import numpy as np
    if isinstance(o, dict):
        return {str(k): jsonable(v) for k, v in o.items()}
    if isinstance(o, (list, tuple, set)):
        return [jsonable(v) for v in o]
    if isinstance(o, Fraction):
        return str(o) if o.denominator != 1 else int(o)
    if isinstance(o, (np.integer,)):
        return int(o)
    if isinstance(o, (np.floating,)):
        return float(o)
    if isinstance(o, np.ndarray):
        return jsonable(o.tolist())
    if isinstance(o, (str, int, float, bool)) or o is None:
        return o
    return repr(o)


class CaseOut:
    """What a worker sends back."""

    def __init__(self):
        self.stats = None
        self.findings = []     # dict(key, what, data, replayer)
        self.error = None
        self.harness_error = None
        self.wall = 0.0
        self.spec = None


def _watchdog(marker, budget):
    """z3 does not always honour its own time limit (exact simplex pivoting does not poll the timer): a case that exceeds
    its wall-clock budget is ended with its worker process; the parent records it as undecided and goes on."""
    import threading

    def kill():
        try:
            open(marker, 'w').write('killed')
        finally:
            os._exit(99)
    t = threading.Timer(budget, kill)
    t.daemon = True
    t.start()
    return t


def _worker(modname, spec, prop, tier, seed, timeout_ms, marker=None, budget=None):
    out = CaseOut()
    out.spec = spec
    t0 = time.time()
    wd = _watchdog(marker, budget) if marker and budget else None
    if os.environ.get('RSV_FAULT'):
        import faulthandler
        faulthandler.dump_traceback_later(int(os.environ['RSV_FAULT']), exit=True,
                                          file=open(os.path.join(ROOT, '.scratch', 'fault-%d.txt' % os.getpid()), 'w'))
    try:
        mod = importlib.import_module(modname)
        ses = Session(prop, tier, seed, timeout_ms=timeout_ms)
        ses.findings = []
        mod.run_case(spec, ses)
        left = getattr(ses.stats, 'sat_labels', [])
        if left and not ses.findings:
            raise HarnessError('obligation(s) answered `sat` but neither reported nor dismissed: %s' % left[:3])
        out.stats = ses.stats
        out.findings = ses.findings
    except HarnessError as e:
        out.harness_error = '%s\n%s' % (e, traceback.format_exc())
    except Exception as e:  # noqa
        out.error = '%s: %s\n%s' % (type(e).__name__, e, traceback.format_exc())
    out.wall = time.time() - t0
    if wd is not None:
        wd.cancel()
    return out


def finding(ses, key, what, data, replayer):
    """Record a reproduced violation (called by property modules after replay)."""
    ses.findings.append(dict(key=key, what=what, data=jsonable(data), replayer=replayer))


def run_check(prop, tier, seed, jobs=None, only=None):
    modname = 'rsv.props.%s' % prop.lower()
    mod = importlib.import_module(modname)
    t0 = time.time()
    rnd = random.Random(seed)
    specs = mod.cases(tier, seed, rnd)
    if only:
        specs = [s for s in specs if only in repr(s)]
    jobs = jobs or int(os.environ.get('RSV_JOBS', '0')) or min(16, os.cpu_count() or 4)
    timeout_ms = getattr(mod, 'TIMEOUT_MS', 20000)
    outs = []
    if jobs == 1 or len(specs) <= 1:
        for s in specs:
            outs.append(_worker(modname, s, prop, tier, seed, timeout_ms))
    else:
        from concurrent.futures.process import BrokenProcessPool
        budget = int(os.environ.get('RSV_CASE_BUDGET', '0')) or (900 if tier == 'quick' else 2700)
        scratch = os.path.join(ROOT, '.scratch')
        os.makedirs(scratch, exist_ok=True)
        tag = 'wd-%d-%d' % (os.getpid(), int(t0))
        results = {}
        pending = list(range(len(specs)))
        rounds = 0
        while pending and rounds < 6:
            rounds += 1
            with cf.ProcessPoolExecutor(max_workers=jobs) as ex:
                futs = {ex.submit(_worker, modname, specs[i], prop, tier, seed, timeout_ms,
                                  os.path.join(scratch, '%s-%d' % (tag, i)), budget): i for i in pending}
                for f in cf.as_completed(futs):
                    try:
                        results[futs[f]] = f.result()
                    except BrokenProcessPool:
                        break
                    except Exception as e:  # noqa
                        o = CaseOut()
                        o.spec = specs[futs[f]]
                        o.error = '%s: %s' % (type(e).__name__, e)
                        results[futs[f]] = o
            for i in list(pending):
                mk = os.path.join(scratch, '%s-%d' % (tag, i))
                if i not in results and os.path.exists(mk):
                    os.unlink(mk)
                    o = CaseOut()
                    o.spec = specs[i]
                    o.wall = float(budget)
                    from .smt import Stats
                    o.stats = Stats()
                    o.stats.obligations = 1
                    o.stats.undecided = 1
                    o.stats.kinds['watchdog'] = 1
                    o.stats.notes.append('undecided: case exceeded its wall-clock budget of %d s and was ended (solver ignored its '
                                         'time limit): %s' % (budget, repr(specs[i])[:160]))
                    results[i] = o
            pending = [i for i in pending if i not in results]
        for i in pending:
            o = CaseOut()
            o.spec = specs[i]
            o.harness_error = 'case could not be run (worker pool broke repeatedly)'
            results[i] = o
        outs = [results[i] for i in range(len(specs))]
    return finish(mod, prop, tier, seed, specs, outs, time.time() - t0)


def finish(mod, prop, tier, seed, specs, outs, wall):
    from .smt import Stats
    agg = Stats()
    errors, herrors, findings = [], [], []
    case_walls = []
    for o in outs:
        case_walls.append((round(o.wall, 2), repr(o.spec)[:80]))
        if o.error:
            errors.append((o.spec, o.error))
        if o.harness_error:
            herrors.append((o.spec, o.harness_error))
        findings.extend(o.findings)
        s = o.stats
        if s is None:
            continue
        for k in ('obligations', 'discharged', 'undecided', 'core_undecided', 'twins', 'twins_ok',
                  'sat_expected', 'queries', 'diffed', 'diffed_cvc5', 'cvc5_errors', 'programs'):
            setattr(agg, k, getattr(agg, k) + getattr(s, k))
        for k, v in s.solver_time.items():
            agg.solver_time[k] = agg.solver_time.get(k, 0.0) + v
        for k, v in s.kinds.items():
            agg.kinds[k] = agg.kinds.get(k, 0) + v
        agg.functions |= s.functions
        agg.nontrivial |= s.nontrivial
        agg.max_query_s = max(agg.max_query_s, s.max_query_s)
        if len(agg.samples) < 10:
            agg.samples.extend(s.samples[:2])
        agg.notes.extend(s.notes[:20])

    known = [k for k in load_known() if k.get('property') == prop and k.get('status') == 'known']
    known_keys = {k['key']: k for k in known}
    viol_lines, known_lines = [], []
    os.makedirs(REPLAYS, exist_ok=True)
    seen = set()
    for f in findings:
        if f['key'] in seen:
            continue
        seen.add(f['key'])
        if f['key'] in known_keys:
            known_lines.append('KNOWN-FINDING: property=%s %s [%s]' % (prop, f['what'], f['key']))
            continue
        path = os.path.join(REPLAYS, '%s-%s.json' % (prop, short_hash(f['key'])))
        with open(path, 'w') as fh:
            json.dump(dict(property=prop, key=f['key'], what=f['what'], replayer=f['replayer'],
                           data=f['data']), fh, indent=1)
        viol_lines.append('VIOLATION property=%s replay=%s' % (prop, path))
        print('  detail: %s [%s]' % (f['what'], f['key']))

    meta = getattr(mod, 'META', {})
    level = getattr(mod, 'LEVEL', 'translation_validation')
    cov = dict(
        programs=max(agg.programs, 1) if agg.programs else len(specs),
        disagreements_checked=len(findings),
        samples=jsonable(agg.samples[:10]) or [dict(note='no sample recorded')],
        obligations=agg.obligations,
        discharged=agg.discharged,
        undecided=agg.undecided,
        core_undecided=agg.core_undecided,
        sat_expected_obligations=agg.sat_expected,
        reachability_twins=agg.twins,
        reachability_twins_sat=agg.twins_ok,
        solver_queries=agg.queries,
        second_solver_diffs=agg.diffed,
        third_solver_diffs_cvc5=agg.diffed_cvc5,
        third_solver_inconclusive_cvc5=agg.cvc5_errors,
        solver_time_s={k: round(v, 3) for k, v in agg.solver_time.items()},
        max_query_s=round(agg.max_query_s, 3),
        obligation_kinds=agg.kinds,
        evaluations=len(specs),
        distinct_nontrivial=len(agg.nontrivial),
        rule=meta.get('rule', ''),
        functions_encoded=sorted(agg.functions | set(meta.get('functions', []))),
        bounds=meta.get('bounds', ''),
        outside_claim=meta.get('outside', ''),
        cases=len(specs),
        slowest_cases=sorted(case_walls, reverse=True)[:5],
        notes=agg.notes[:30],
        exhaustive=False,
        checker_cmd='./rsv-check %s --tier %s' % (prop, tier),
        trusted_base=meta.get('trusted', ['z3 5.1 (decides every obligation)', 'numpy (reference array algebra)',
                                          'harness oracle semantics']),
        explanation=meta.get('explanation', ''),
        known_findings_reported=len(known_lines),
    )
    ev = dict(property_id=prop, tier=tier, seed=int(seed), level=level, coverage=cov,
              assumptions=meta.get('assumptions', []), wall_s=round(wall, 2),
              violations=len(viol_lines))
    os.makedirs(EVID, exist_ok=True)
    with open(os.path.join(EVID, '%s.json' % prop), 'w') as fh:
        json.dump(ev, fh, indent=1)

    for l in known_lines:
        print(l)
    print('[%s %s] cases=%d obligations=%d discharged=%d undecided=%d (core %d) twins=%d/%d '
          'queries=%d solver=%.1fs wall=%.1fs' % (prop, tier, len(specs), agg.obligations, agg.discharged,
                                                  agg.undecided, agg.core_undecided, agg.twins_ok, agg.twins,
                                                  agg.queries, sum(agg.solver_time.values()), wall))
    if errors or herrors:
        for spec, e in (errors + herrors)[:5]:
            print('HARNESS-ERROR in case %s:\n%s' % (repr(spec)[:300], e[-1500:]), file=sys.stderr)
    if viol_lines:
        for l in viol_lines:
            print(l)
        return 1
    if errors or herrors:
        return 2
    if agg.core_undecided:
        print('INCONCLUSIVE: %d core obligations undecided' % agg.core_undecided, file=sys.stderr)
        for n in agg.notes[:10]:
            print('  ' + n, file=sys.stderr)
        return 2
    if agg.obligations == 0:
        print('HARNESS-ERROR: no obligation was generated', file=sys.stderr)
        return 2
    return 0


def replay(path):
    with open(path) as f:
        d = json.load(f)
    modname, fn = d['replayer'].split(':')
    mod = importlib.import_module(modname)
    ok = getattr(mod, fn)(d['data'], verbose=True)
    print('replay: %s' % ('violation reproduced' if ok else 'NOT reproduced'))
    return 1 if ok else 0


def main(argv=None):
    import argparse
    ap = argparse.ArgumentParser(prog='rsv')
    sub = ap.add_subparsers(dest='cmd')
    c = sub.add_parser('check')
    c.add_argument('prop')
    c.add_argument('--tier', default=os.environ.get('VERIF_TIER', 'quick'))
    c.add_argument('--jobs', type=int, default=None)
    c.add_argument('--only', default=None)
    r = sub.add_parser('replay')
    r.add_argument('path')
    a = ap.parse_args(argv)
    if a.cmd == 'check':
        seed = int(os.environ.get('VERIF_SEED', '0') or 0)
        try:
            return run_check(a.prop.upper(), a.tier, seed, a.jobs, a.only)
        except HarnessError as e:
            print('HARNESS-ERROR: %s' % e, file=sys.stderr)
            return 2
    if a.cmd == 'replay':
        return replay(a.path)
    ap.print_help()
    return 2
