"""Uncertainty sets in z-space: H-representation, exact vertex enumeration, support functions.

Lemma V (stated, cross-validated by direct QF_NRA queries on dim<=2 members): for a
constraint affine in z and a polytope U, `forall z in U` <=> `for every vertex of U`.
Lemma S: sup_{|L z + c|_2 <= r} a'z = r |L^-T a|_2 - a' L^-1 c   (L invertible).
"""
from fractions import Fraction
import itertools
import numpy as np

from .poly import Poly, parr, frac, z3mod
from .oracle import OCons, OAtom, cons_z3, Z3Env
from .smt import HarnessError


# ------------------------------------------------------------------ exact linear algebra
def solve_exact(A, b):
    """Solve square system A x = b over Fractions; return None if singular."""
    n = len(A)
    M = [list(map(Fraction, A[i])) + [Fraction(b[i])] for i in range(n)]
    for c in range(n):
        piv = None
        for r in range(c, n):
            if M[r][c] != 0:
                piv = r
                break
        if piv is None:
            return None
        M[c], M[piv] = M[piv], M[c]
        pv = M[c][c]
        M[c] = [v / pv for v in M[c]]
        for r in range(n):
            if r != c and M[r][c] != 0:
                f = M[r][c]
                M[r] = [a - f * bb for a, bb in zip(M[r], M[c])]
    return [M[i][n] for i in range(n)]


def inverse_exact(A):
    n = len(A)
    cols = []
    for j in range(n):
        e = [Fraction(1 if i == j else 0) for i in range(n)]
        x = solve_exact(A, e)
        if x is None:
            return None
        cols.append(x)
    return [[cols[j][i] for j in range(n)] for i in range(n)]


def rank_exact(rows):
    M = [list(map(Fraction, r)) for r in rows]
    rk = 0
    ncol = len(M[0]) if M else 0
    for c in range(ncol):
        piv = None
        for r in range(rk, len(M)):
            if M[r][c] != 0:
                piv = r
                break
        if piv is None:
            continue
        M[rk], M[piv] = M[piv], M[rk]
        pv = M[rk][c]
        M[rk] = [v / pv for v in M[rk]]
        for r in range(len(M)):
            if r != rk and M[r][c] != 0:
                f = M[r][c]
                M[r] = [a - f * b for a, b in zip(M[r], M[rk])]
        rk += 1
    return rk


def enumerate_vertices(names, ineq, eq):
    """Vertices of {x : coef.x <= rhs (ineq), coef.x == rhs (eq)} by exact basis enumeration.
    ineq/eq: lists of (dict name->Fraction, rhs).  The polyhedron is assumed bounded."""
    d = len(names)
    rows_eq = [[coef.get(n, Fraction(0)) for n in names] for coef, _ in eq]
    rhs_eq = [r for _, r in eq]
    rows_in = [[coef.get(n, Fraction(0)) for n in names] for coef, _ in ineq]
    rhs_in = [r for _, r in ineq]
    eq_sel, cur = [], []
    for i, r in enumerate(rows_eq):
        if rank_exact(cur + [r]) > len(cur):
            cur.append(r)
            eq_sel.append(i)
    need = d - len(eq_sel)
    verts, seen = [], set()
    if len(rows_in) < need:
        raise HarnessError('set is not bounded (too few constraints)')
    import math
    if math.comb(len(rows_in), need) > 400000:
        raise HarnessError('vertex enumeration beyond the stated bound (%d choose %d bases)' % (len(rows_in), need))
    for comb in itertools.combinations(range(len(rows_in)), need):
        A = [rows_eq[i] for i in eq_sel] + [rows_in[i] for i in comb]
        b = [rhs_eq[i] for i in eq_sel] + [rhs_in[i] for i in comb]
        x = solve_exact(A, b)
        if x is None:
            continue
        key = tuple(x)
        if key in seen:
            continue
        ok = all(sum(a * v for a, v in zip(rows_in[i], x)) <= rhs_in[i] for i in range(len(rows_in)))
        ok = ok and all(sum(a * v for a, v in zip(rows_eq[i], x)) == rhs_eq[i] for i in range(len(rows_eq)))
        if ok:
            seen.add(key)
            verts.append(dict(zip(names, x)))
    return verts


# ------------------------------------------------------------------ sets
EXP_SET_KINDS = ('exp', 'log', 'pexp', 'plog', 'softplus', 'entropy', 'sumexp', 'sumlog', 'kldiv')


class USet:
    """A set of realisations described by OCons over the z-names `names`."""

    def __init__(self, cons, names):
        self.cons = list(cons)
        self.names = list(names)
        self._verts = None
        self.kind = self._classify()

    def _classify(self):
        kinds = set()
        for c in self.cons:
            if c.is_atom():
                k = c.expr.kind
                if k in ('abs', 'norm1', 'norminf'):
                    kinds.add('poly')
                elif k in ('norm2', 'sumsqr', 'quad', 'square'):
                    kinds.add('soc')
                elif k in EXP_SET_KINDS:
                    kinds.add('exp')
                else:
                    kinds.add('other')
            else:
                kinds.add('poly')
        if kinds <= {'poly'}:
            return 'poly'
        if 'other' in kinds:
            return 'other'
        if 'exp' in kinds:
            return 'exp' if kinds <= {'poly', 'exp'} else 'other'
        return 'soc' if kinds == {'soc'} else 'mixed'

    # ---- H-representation of the polyhedral part
    def hrep(self):
        """(ineq, eq): lists of (coef dict name->Fraction, rhs) meaning coef.z <= rhs / == rhs."""
        ineq, eq = [], []
        for c in self.cons:
            if c.is_atom():
                a = c.expr
                if a.kind not in ('abs', 'norm1', 'norminf'):
                    continue
                if a.k <= 0:
                    raise HarnessError('non-convex set constraint in oracle')
                args = list(a.arg.reshape(-1))
                offs = list(a.off.reshape(-1))
                if a.kind == 'abs':
                    for e, o in zip(args, offs):
                        for s in (1, -1):
                            ineq.append(self._lin(e * (s * a.k) + o))
                elif a.kind == 'norminf':
                    for e in args:
                        for s in (1, -1):
                            ineq.append(self._lin(e * (s * a.k) + offs[0]))
                else:
                    for signs in itertools.product((1, -1), repeat=len(args)):
                        p = Poly()
                        for s, e in zip(signs, args):
                            p = p + e * (s * a.k)
                        ineq.append(self._lin(p + offs[0]))
            else:
                for p in c.polys():
                    (ineq if c.sense == 'le' else eq).append(self._lin(p))
        return ineq, eq

    def _lin(self, p):
        if p.degree() > 1:
            raise HarnessError('set constraint not linear: %s' % p)
        coef = {}
        for m, c in p.t.items():
            if m:
                if m[0] not in self.names:
                    raise HarnessError('set constraint mentions non-random variable %s' % m[0])
                coef[m[0]] = c
        return coef, -p.constant()

    def bounded_z3(self, ses):
        """Recession cone of the polyhedral part is {0} (decided by z3)."""
        z3 = z3mod()
        ineq, eq = self.hrep()
        d = {n: z3.Real('d_' + n) for n in self.names}
        cs = []
        for coef, _ in ineq:
            cs.append(z3.Sum([d[n] * z3.RealVal(str(c)) for n, c in coef.items()] or [z3.RealVal(0)]) <= 0)
        for coef, _ in eq:
            cs.append(z3.Sum([d[n] * z3.RealVal(str(c)) for n, c in coef.items()] or [z3.RealVal(0)]) == 0)
        cs.append(z3.Or([d[n] != 0 for n in self.names]))
        res, _ = ses.solve(cs, label='bounded')
        return res == 'unsat'

    def vertices(self):
        if self._verts is not None:
            return self._verts
        ineq, eq = self.hrep()
        self._verts = enumerate_vertices(self.names, ineq, eq)
        return self._verts

    # ---- ball / ellipsoid:  single constraint  k*|L z + c|_2 + off <= 0  (or sumsqr / quad forms)
    def ellipsoid(self):
        """Return (L, c, r) with U = {z : |L z + c|_2 <= r}, L square invertible, else None."""
        if len(self.cons) != 1 or not self.cons[0].is_atom():
            return None
        a = self.cons[0].expr
        if a.k <= 0:
            return None
        names = self.names
        off = a.off.reshape(-1)[0]
        if off.degree() > 0:
            return None
        if a.kind == 'norm2':
            args = list(a.arg.reshape(-1))
            r = -off.constant() / a.k
            L = [[e.coeff(n) for n in names] for e in args]
            c = [e.constant() for e in args]
            if len(args) != len(names):
                return None
            return L, c, ('lin', r)
        if a.kind == 'sumsqr':
            args = list(a.arg.reshape(-1))
            r2 = -off.constant() / a.k
            L = [[e.coeff(n) for n in names] for e in args]
            c = [e.constant() for e in args]
            if len(args) != len(names):
                return None
            return L, c, ('sq', r2)
        return None

    def quadform(self):
        """U = {z : z'Qz <= rho} with Q symmetric PD rational -> (Q, rho)."""
        if len(self.cons) != 1 or not self.cons[0].is_atom():
            return None
        a = self.cons[0].expr
        if a.kind != 'quad' or a.k <= 0:
            return None
        args = list(a.arg.reshape(-1))
        for e, n in zip(args, self.names):
            if not e.equals(Poly.var(n)):
                return None
        off = a.off.reshape(-1)[0]
        return [[frac(v) for v in row] for row in a.params], -off.constant() / a.k

    def z3(self, env):
        """Membership formula over env's z terms.  k*|e|_2 + off <= 0 (k > 0) is written without a
        square-root variable:  off <= 0  and  k^2 e'e <= off^2."""
        z3 = env.z3
        out = []
        for c in self.cons:
            if c.is_atom() and c.expr.kind == 'norm2' and c.expr.k > 0 and c.sense == 'le':
                a = c.expr
                off = env.p(a.off.reshape(-1)[0])
                ss = z3.Sum([env.p(e) * env.p(e) for e in a.arg.reshape(-1)])
                out += [off <= 0, z3.RealVal(str(a.k * a.k)) * ss <= off * off]
            else:
                out += cons_z3(c, env)
        return out

    def relaxed_poly(self):
        """(G, H, T, aux): Poly lists G (g >= 0), H (h == 0), cone triples T ((x, y, z) in K_exp) and the names of
        the existential auxiliaries, for sets with polyhedral and exponential-cone constraints."""
        from .oracle import exp_normal
        aux = []

        def fresh(tag):
            n = '_%s%d_%d' % (tag, id(self) % 9973, len(aux))
            aux.append(n)
            return Poly.var(n)
        G, H, T = [], [], []
        ineq, eq = self.hrep()
        for coef, rhs in ineq:
            G.append(Poly.const(rhs) - sum((Poly.var(n) * c for n, c in coef.items()), Poly()))
        for coef, rhs in eq:
            H.append(Poly.const(rhs) - sum((Poly.var(n) * c for n, c in coef.items()), Poly()))
        for c in self.cons:
            if c.is_atom() and c.expr.kind in EXP_SET_KINDS:
                if c.sense != 'le':
                    raise HarnessError('equality on a convex atom in a set')
                t, g = exp_normal(c.expr, fresh)
                T += t
                G += g
            elif c.is_atom() and c.expr.kind not in ('abs', 'norm1', 'norminf', 'norm2', 'sumsqr', 'square'):
                raise HarnessError('relaxed_poly: unsupported atom %s' % c.expr.kind)
        return G, H, T, aux

    def soc_polys(self):
        """Second-order-cone memberships of the set as (head, [tail...]) Poly pairs: k*|e|_2 + off <= 0 (k > 0)
        is (-off/k, e) in SOC."""
        out = []
        for c in self.cons:
            if c.is_atom() and c.expr.kind == 'norm2':
                a = c.expr
                if a.k <= 0 or c.sense != 'le':
                    raise HarnessError('non-convex norm constraint in a set')
                out.append((a.off.reshape(-1)[0] * (-1 / a.k), list(a.arg.reshape(-1))))
            elif c.is_atom() and c.expr.kind in ('sumsqr', 'square'):
                # k*sum e_i^2 + off <= 0  <=>  sum e_i^2 <= h*1 (h = -off/k)  <=>  ((h+1)/2 ; (h-1)/2, e) in SOC
                a = c.expr
                if a.k <= 0 or c.sense != 'le':
                    raise HarnessError('non-convex square constraint in a set')
                args, offs = list(a.arg.reshape(-1)), list(a.off.reshape(-1))
                groups = [(offs[0], args)] if a.kind == 'sumsqr' else [(o, [e]) for e, o in zip(args, offs)]
                for o, es in groups:
                    h = o * (-1 / a.k)
                    out.append(((h + 1) * Fraction(1, 2), [(h - 1) * Fraction(1, 2)] + es))
        return out

    def n_cones(self):
        return sum(1 for c in self.cons if c.is_atom() and c.expr.kind in ('norm2', 'sumsqr', 'square', 'quad'))

    def relaxed(self, env):
        """(constraints, triples) as z3 terms: every membership (x, y, z) in K_exp is replaced by its linear
        consequences y >= 0, z >= 0, y >= x + z (c*e^{a/c} >= c + a) and returned as a triple; the existential
        auxiliaries of the atoms are fresh free variables.  Weaker than membership: hypothesis side only."""
        G, H, T, aux = self.relaxed_poly()
        for n in aux:
            env.m[n] = env.new('a')
        out = [env.p(g) >= 0 for g in G] + [env.p(h) == 0 for h in H]
        trip = [(env.p(x), env.p(y), env.p(z)) for x, y, z in T]
        for x, y, z in trip:
            out += [y >= 0, z >= 0, y >= x + z]
        return out, trip

    def contains(self, point, tol=0):
        from .oracle import cons_eval
        return all(cons_eval(c, point) <= tol for c in self.cons)
