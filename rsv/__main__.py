import sys
from .harness import main
sys.exit(main())
