"""Reference semantics of model descriptions, independent of RSOME's expression classes.

Expressions are NumPy object arrays of Poly (exact polynomials in named variables);
convex atoms are OAtom records `k * phi(arg) + off` with phi given by its mathematical
definition; constraints are OCons `expr (<= | ==) 0`.
"""
from fractions import Fraction
import itertools
import numpy as np

from .poly import Poly, parr, pvars, frac, z3mod, is_scalar

SCALAR_OUT = {'norm1', 'norm2', 'norminf', 'sumsqr', 'quad', 'entropy', 'max', 'pnorm', 'gmean', 'kldiv', 'sumexp', 'sumlog',
              'sumpexp', 'sumplog'}
CURV = {'abs': 1, 'norm1': 1, 'norm2': 1, 'norminf': 1, 'square': 1, 'sumsqr': 1, 'quad': 1, 'exp': 1,
        'log': -1, 'entropy': -1, 'softplus': 1, 'max': 1, 'pnorm': 1, 'power': 1, 'gmean': -1,
        'pexp': 1, 'plog': -1, 'kldiv': 1, 'sumexp': 1, 'sumlog': -1, 'sumpexp': 1, 'sumplog': -1}


class OAtom:
    __array_priority__ = 2000

    def __init__(self, kind, arg, k=1, off=None, params=None):
        self.kind = kind
        self.arg = arg if isinstance(arg, list) else parr(arg)
        self.k = frac(k)
        self.params = params
        shape = () if kind in SCALAR_OUT else self.arg.shape
        if kind == 'power':
            # NumPy semantics: the argument is broadcast against the arrays of exponents
            shape = np.broadcast_shapes(shape, np.shape(params[0]), np.shape(params[1]))
            self.nat_shape = shape
        self.off = parr(np.zeros(shape)) if off is None else parr(off)

    @property
    def shape(self):
        return self.off.shape

    def _new(self, k, off):
        return OAtom(self.kind, self.arg, k, off, self.params)

    def __neg__(self):
        return self._new(-self.k, -self.off)

    def __add__(self, o):
        if isinstance(o, OAtom):
            return NotImplemented
        return self._new(self.k, self.off + parr(o))

    __radd__ = __add__

    def __sub__(self, o):
        return self._new(self.k, self.off - parr(o))

    def __rsub__(self, o):
        return self._new(-self.k, parr(o) - self.off)

    def __mul__(self, c):
        c = frac(c)
        return self._new(self.k * c, self.off * c)

    __rmul__ = __mul__

    def __repr__(self):
        return 'OAtom(%s, k=%s, arg=%s, off=%s)' % (self.kind, self.k, _short(self.arg), _short(self.off))


def _short(a):
    if isinstance(a, list):
        return '[%d pieces]' % len(a)
    return str(list(a.reshape(-1)))[:120]


class OCons:
    """expr (<= | ==) 0 ; expr is an object array of Poly or an OAtom."""

    def __init__(self, expr, sense):
        self.expr = expr if isinstance(expr, OAtom) else parr(expr)
        self.sense = sense

    def is_atom(self):
        return isinstance(self.expr, OAtom)

    def polys(self):
        return list(self.expr.reshape(-1))

    def __repr__(self):
        return 'OCons(%s %s 0)' % (self.expr if self.is_atom() else _short(self.expr), '<=' if self.sense == 'le' else '==')


class OCustom(OCons):
    """A constraint given directly by its definition: z3fn(env) -> [bool], evalfn(assign) -> violation."""

    def __init__(self, z3fn, evalfn, desc, polys):
        self.z3fn, self.evalfn, self.desc, self._polys = z3fn, evalfn, desc, polys
        self.sense = 'le'
        self.expr = None

    def is_atom(self):
        return True

    def polys(self):
        return self._polys

    def __repr__(self):
        return 'OCustom(%s)' % self.desc


def osub(l, r):
    if isinstance(l, OAtom) or isinstance(r, OAtom):
        return l - r
    return parr(l) - parr(r)


# ------------------------------------------------------------------ z3 encodings of atoms
class Z3Env:
    """name -> z3 term, plus definitional side constraints for non-polynomial atoms."""

    def __init__(self, mapping=None):
        self.z3 = z3mod()
        self.m = dict(mapping or {})
        self.defs = []
        self.fresh = 0
        self.uf = {}

    def __getitem__(self, name):
        if name not in self.m:
            self.m[name] = self.z3.Real(name)
        return self.m[name]

    def new(self, tag):
        self.fresh += 1
        return self.z3.Real('_%s%d' % (tag, self.fresh))

    def p(self, poly):
        return Poly.lift(poly).z3(self)


_PHI = [None]


def PHI():
    """Uninterpreted phi(a, c) standing for c*exp(a/c), c > 0 (cone-term abstraction)."""
    z3 = z3mod()
    if _PHI[0] is None:
        _PHI[0] = z3.Function('PHI', z3.RealSort(), z3.RealSort(), z3.RealSort())
    return _PHI[0]


def expcone(z3, a, b, c):
    """(a, b, c) in K_exp:  c > 0 and c*exp(a/c) <= b   or the closure  c = 0, a <= 0, b >= 0.
    phi > 0 is the only property of exp used besides congruence (sound for `unsat`)."""
    f = PHI()(a, c)
    return z3.Or(z3.And(c > 0, f <= b, f > 0), z3.And(c == 0, a <= 0, b >= 0))


def z_abs(z3, t):
    return z3.If(t >= 0, t, -t)


def z_max(z3, ts):
    m = ts[0]
    for t in ts[1:]:
        m = z3.If(t >= m, t, m)
    return m


def atom_phi(atom, env):
    """z3 term(s) of phi(arg): a list aligned with atom.off.reshape(-1)."""
    z3 = env.z3
    kind = atom.kind
    if kind == 'max':
        pieces = [env.p(parr(p).reshape(-1)[0]) for p in atom.arg]
        return [z_max(z3, pieces)]
    args = [env.p(p) for p in atom.arg.reshape(-1)]
    if kind == 'abs':
        return [z_abs(z3, t) for t in args]
    if kind == 'norm1':
        return [z3.Sum([z_abs(z3, t) for t in args])]
    if kind == 'norminf':
        return [z_max(z3, [z_abs(z3, t) for t in args])]
    if kind == 'norm2':
        r = env.new('r')
        env.defs += [r >= 0, r * r == z3.Sum([t * t for t in args])]
        return [r]
    if kind == 'square':
        return [t * t for t in args]
    if kind == 'sumsqr':
        return [z3.Sum([t * t for t in args])]
    if kind == 'quad':
        Q = atom.params
        n = len(args)
        return [z3.Sum([args[i] * args[j] * z3.RealVal(str(frac(Q[i][j]))) for i in range(n) for j in range(n)
                        if Q[i][j] != 0])]
    if kind == 'power':
        # |x|^(p/q) element-wise, p >= q >= 1 integers: r >= 0, r^q == |x|^p
        ps, qs = atom.params
        out = []
        args = _to_shape(args, atom.arg.shape, atom.nat_shape)
        flat_p = np.broadcast_to(np.array(ps), atom.nat_shape).reshape(-1)
        flat_q = np.broadcast_to(np.array(qs), atom.nat_shape).reshape(-1)
        for t, p, q in zip(args, flat_p, flat_q):
            r = env.new('pw')
            a = z_abs(z3, t)
            env.defs += [r == a] if int(p) == int(q) else [r >= 0, _pow(r, int(q)) == _pow(a, int(p))]
            out.append(r)
        return out
    if kind == 'pnorm':
        # (sum |x_i|^(a/b))^(b/a):  r >= 0, s_i >= 0, s_i^b == |x_i|^a, r^a == (sum s_i)^b
        a, b = atom.params
        ss = []
        for t in args:
            s = env.new('pn')
            env.defs += [s >= 0, _pow(s, int(b)) == _pow(z_abs(z3, t), int(a))]
            ss.append(s)
        r = env.new('pnr')
        env.defs += [r >= 0, _pow(r, int(a)) == _pow(z3.Sum(ss), int(b))]
        return [r]
    if kind == 'gmean':
        # prod x_i^beta_i ^ (1/sum beta), defined for x >= 0
        beta = atom.params
        r = env.new('gm')
        prod = None
        for t, b in zip(args, beta):
            f = _pow(t, int(b))
            prod = f if prod is None else prod * f
        env.defs += [r >= 0, _pow(r, int(sum(beta))) == prod]
        return [r]
    if kind in ('exp', 'log', 'softplus', 'entropy', 'pexp', 'plog'):
        raise NotImplementedError('transcendental atoms are encoded through the cone-term abstraction')
    raise NotImplementedError(kind)


def _pow(t, n):
    r = None
    for _ in range(n):
        r = t if r is None else r * t
    if r is None:
        return z3mod().RealVal(1)
    return r


def atom_domain(atom, env):
    """Domain restrictions of phi (none for the polynomial atoms)."""
    if atom.kind == 'gmean':
        return [env.p(p) >= 0 for p in atom.arg.reshape(-1)]
    return []


def _to_shape(items, src, dst):
    arr = np.empty(len(items), dtype=object)
    arr[:] = list(items)
    return list(np.broadcast_to(arr.reshape(src), dst).reshape(-1))


def _bcast_phi(a, phis):
    """Values of phi (one per argument entry, or a single scalar) broadcast to the shape of the offset, as
    NumPy broadcasts `atom(arg) + off`."""
    n = a.off.size
    src = getattr(a, 'nat_shape', None) if a.kind == 'power' else None
    if src is None and not isinstance(a.arg, list):
        src = a.arg.shape
    if len(phis) == n and (isinstance(a.arg, list) or src == a.off.shape or a.kind in SCALAR_OUT):
        return phis
    if len(phis) == 1:
        return phis * n
    arr = np.empty(len(phis), dtype=object)
    arr[:] = phis
    arr = arr.reshape(src)
    return list(np.broadcast_to(arr, a.off.shape).reshape(-1))


def cons_z3(c, env, eps=0):
    """List of z3 booleans equivalent to the constraint (definitions go to env.defs).
    eps > 0 relaxes the constraint by a margin (tolerance regime)."""
    z3 = env.z3
    out = []
    epsv = z3.RealVal(str(eps))
    if isinstance(c, OCustom):
        return c.z3fn(env) if not eps else c.z3fn(env, eps)
    if c.is_atom() and c.sense == 'le' and c.expr.kind in EXP_KINDS:
        return exp_le(c.expr, env)
    if c.is_atom() and c.sense == 'le' and not eps:
        d = direct_le(c.expr, env)
        if d is not None:
            return d
    if c.is_atom():
        a = c.expr
        phis = atom_phi(a, env)
        offs = list(a.off.reshape(-1))
        k = z3.RealVal(str(a.k))
        dom = atom_domain(a, env)
        phis = _bcast_phi(a, phis)
        for ph, of in zip(phis, offs):
            lhs = k * ph + env.p(of)
            out.append(lhs <= epsv if c.sense == 'le' else z3.And(lhs <= epsv, lhs >= -epsv))
        out += dom
    else:
        for p in c.polys():
            t = env.p(p)
            out.append(t <= epsv if c.sense == 'le' else z3.And(t <= epsv, t >= -epsv))
    return out


EXP_KINDS = ('exp', 'log', 'pexp', 'plog', 'softplus', 'entropy', 'sumexp', 'sumlog', 'kldiv', 'sumpexp', 'sumplog')


def _cone(env, a, b, c):
    """Cone membership (a, b, c) in K_exp.  With env.cones (a list) set, the membership is RELAXED to its linear
    consequences b >= 0, c >= 0, b >= a + c and the triple is recorded, so that the caller can add pairing inequalities
    (only sound where the membership is a hypothesis)."""
    z3 = env.z3
    if getattr(env, 'cones', None) is not None:
        env.cones.append((a, b, c))
        return z3.And(b >= 0, c >= 0, b >= a + c)          # c*e^{a/c} >= c*(1 + a/c)
    return expcone(z3, a, b, c)


def exp_le(a, env):
    """k*phi(arg) + off <= 0 for the exponential-cone atoms, in cone normal form (documented identities):
       exp      (k>0)  exp(e) <= -off/k                      <=>  (e, -off/k, 1) in K
       log      (k<0)  log(e) >= g, g = off/(-k)             <=>  (g, e, 1) in K
       pexp     (k>0)  s*exp(e/s) <= -off/k                  <=>  (e, -off/k, s) in K
       plog     (k<0)  s*log(e/s) >= g                       <=>  (g, e, s) in K
       softplus (k>0)  log(1+exp(u)) <= -o, o = off/k        <=>  phi(u+o,1) + phi(o,1) <= 1
       entropy  (k<0)  -sum x log x >= g                     <=>  exists w: sum w >= g, (w_i, 1, x_i) in K
       kldiv    (k>0)  sum p log(p/q) <= r, q > 0 constant   <=>  exists u (= -w/q): -sum q_i u_i <= r, (u_i, 1, p_i/q_i) in K
                       (p log(p/q) <= w  <=>  (p/q) log(p/q) <= w/q  <=>  (p/q) exp(-(w/q)/(p/q)) <= 1)
    Existential auxiliaries are fresh variables recorded in env.exist (witnesses are supplied by the caller
    when the constraint appears negated)."""
    z3 = env.z3
    kind = a.kind
    k = a.k
    args = [env.p(p) for p in a.arg.reshape(-1)]
    offs = [env.p(p) for p in a.off.reshape(-1)]
    if kind in ('exp', 'log', 'pexp', 'plog', 'softplus'):
        args = _bcast_phi(a, args)
    one = z3.RealVal(1)
    out = []
    if kind in ('exp', 'pexp', 'softplus', 'sumexp', 'kldiv', 'sumpexp') and k <= 0 or \
            kind in ('log', 'plog', 'entropy', 'sumlog', 'sumplog') and k >= 0:
        raise ValueError('non-convex use in the oracle')
    kinv = z3.RealVal(str(1 / abs(k)))
    if kind in ('sumpexp', 'sumplog'):
        # sum_i s_i*exp(e_i/s_i) <= r  <=>  exists t: (e_i, t_i, s_i) in K, sum t <= r
        # sum_i s_i*log(e_i/s_i) >= g  <=>  exists w: (w_i, e_i, s_i) in K, sum w >= g
        sc = [env.p(p) for p in parr(a.params).reshape(-1)]
        if len(sc) == 1:
            sc = sc * len(args)
        aux = [env.new('w') for _ in args]
        if kind == 'sumpexp':
            out += [_cone(env, e, t, s_) for e, t, s_ in zip(args, aux, sc)] + [z3.Sum(aux) <= -offs[0] * kinv]
        else:
            out += [_cone(env, w, e, s_) for e, w, s_ in zip(args, aux, sc)] + [z3.Sum(aux) >= offs[0] * kinv]
        env.exist = getattr(env, 'exist', []) + [(w, kind, e) for w, e in zip(aux, args)]
        return out
    if kind == 'exp':
        for e, o in zip(args, offs):
            out.append(_cone(env, e, -o * kinv, one))
    elif kind == 'log':
        for e, o in zip(args, offs):
            out.append(_cone(env, o * kinv, e, one))
    elif kind in ('pexp', 'plog'):
        sc = [env.p(p) for p in parr(a.params).reshape(-1)]
        if len(sc) == 1:
            sc = sc * len(args)
        for e, o, s_ in zip(args, offs, sc):
            out.append(_cone(env, e, -o * kinv, s_) if kind == 'pexp' else _cone(env, o * kinv, e, s_))
    elif kind == 'softplus':
        for e, o in zip(args, offs):
            oo = o * kinv
            if getattr(env, 'cones', None) is not None:
                t1, t2 = env.new('t'), env.new('t')
                out += [_cone(env, e + oo, t1, one), _cone(env, oo, t2, one), t1 + t2 <= 1]
                continue
            f1, f2 = PHI()(e + oo, one), PHI()(oo, one)
            out += [f1 + f2 <= 1, f1 > 0, f2 > 0]
    elif kind == 'sumexp':
        # sum_i exp(e_i) <= -off/k
        if getattr(env, 'cones', None) is not None:
            ts = [env.new('t') for _ in args]
            out += [_cone(env, e, t, one) for e, t in zip(args, ts)] + [z3.Sum(ts) <= -offs[0] * kinv]
            return out
        fs = [PHI()(e, one) for e in args]
        out += [z3.Sum(fs) <= -offs[0] * kinv] + [f > 0 for f in fs]
    elif kind == 'sumlog':
        # sum_i log(e_i) >= g  <=>  exists w: sum w >= g, exp(w_i) <= e_i
        g = offs[0] * kinv
        ws = []
        for e in args:
            w = env.new('w')
            ws.append(w)
            out.append(_cone(env, w, e, one))
        out.append(z3.Sum(ws) >= g)
        env.exist = getattr(env, 'exist', []) + [(w, 'sumlog', e) for w, e in zip(ws, args)]
    elif kind == 'kldiv':
        r = -offs[0] * kinv
        qs = [frac(v) for v in np.array(a.params, dtype=object).reshape(-1)]
        if len(qs) == 1:
            qs = qs * len(args)
        ws = []
        for e, q in zip(args, qs):
            w = env.new('w')
            ws.append(w)
            qi = z3.RealVal(str(1 / q))
            out.append(_cone(env, w, one, e * qi))          # w stands for -w_i/q_i (keeps the bound variable bare)
        out.append(z3.Sum([-z3.RealVal(str(q)) * w for w, q in zip(ws, qs)]) <= r)
        env.exist = getattr(env, 'exist', []) + [(w, 'kldiv', e) for w, e in zip(ws, args)]
    elif kind == 'entropy':
        g = offs[0] * kinv
        ws = []
        for i, e in enumerate(args):
            w = env.new('w')
            ws.append(w)
            out.append(_cone(env, w, one, e))
        out.append(z3.Sum(ws) >= g)
        env.exist = getattr(env, 'exist', []) + [(w, 'entropy', e) for w, e in zip(ws, args)]
    return out


def exp_normal(a, fresh):
    """Poly-level cone normal form of  k*phi(arg) + off <= 0  for the exponential-cone atoms (same identities as
    exp_le).  Returns (triples, ineqs): triples of Poly (x, y, z) meaning (x, y, z) in K_exp, ineqs of Poly g
    meaning g >= 0; existential auxiliaries are Poly variables obtained from fresh(tag)."""
    kind, k = a.kind, a.k
    args = list(a.arg.reshape(-1))
    offs = list(a.off.reshape(-1))
    if kind in ('exp', 'log', 'pexp', 'plog', 'softplus'):
        args = _bcast_phi(a, args)
    if kind in ('exp', 'pexp', 'softplus', 'sumexp', 'kldiv') and k <= 0 or \
            kind in ('log', 'plog', 'entropy', 'sumlog') and k >= 0:
        raise ValueError('non-convex use in the oracle')
    kinv = 1 / abs(k)
    one = Poly.const(1)
    T, G = [], []
    if kind == 'exp':
        T = [(e, -o * kinv, one) for e, o in zip(args, offs)]
    elif kind == 'log':
        T = [(o * kinv, e, one) for e, o in zip(args, offs)]
    elif kind in ('pexp', 'plog'):
        sc = list(parr(a.params).reshape(-1))
        if len(sc) == 1:
            sc = sc * len(args)
        T = [((e, -o * kinv, s_) if kind == 'pexp' else (o * kinv, e, s_)) for e, o, s_ in zip(args, offs, sc)]
    elif kind == 'softplus':
        for e, o in zip(args, offs):
            oo = o * kinv
            t1, t2 = fresh('t'), fresh('t')
            T += [(e + oo, t1, one), (oo, t2, one)]
            G.append(one - t1 - t2)
    elif kind == 'sumexp':
        ts = [fresh('t') for _ in args]
        T = [(e, t, one) for e, t in zip(args, ts)]
        G.append(-offs[0] * kinv - sum(ts, Poly()))
    elif kind == 'sumlog':
        ws = [fresh('w') for _ in args]
        T = [(w, e, one) for e, w in zip(args, ws)]
        G.append(sum(ws, Poly()) - offs[0] * kinv)
    elif kind == 'entropy':
        ws = [fresh('w') for _ in args]
        T = [(w, one, e) for e, w in zip(args, ws)]
        G.append(sum(ws, Poly()) - offs[0] * kinv)
    elif kind == 'kldiv':
        qs = [frac(v) for v in np.array(a.params, dtype=object).reshape(-1)]
        if len(qs) == 1:
            qs = qs * len(args)
        us = [fresh('w') for _ in args]
        T = [(u, one, e * (1 / q)) for e, u, q in zip(args, us, qs)]
        G.append(-offs[0] * kinv + sum((u * q for u, q in zip(us, qs)), Poly()))
    else:
        raise NotImplementedError(kind)
    return T, G


def direct_le(a, env):
    """Root-free equivalents of  k*phi(arg) + off <= 0  for the rational-power atoms.

    power   (k>0):  off <= 0  and  k^q |x|^p <= (-off)^q            (element-wise)
    pnorm b=1 (k>0): off <= 0 and  k^a sum |x_i|^a <= (-off)^a
    gmean   (k<0):  x >= 0 and ( g <= 0  or  g^N <= prod x_i^beta_i ),  g = off/(-k)
    """
    z3 = env.z3
    if a.kind == 'power' and a.k > 0:
        ps, qs = a.params
        args = [env.p(p) for p in a.arg.reshape(-1)]
        offs = [env.p(p) for p in a.off.reshape(-1)]
        n = len(offs)
        args = _to_shape(args, a.arg.shape, a.off.shape)
        fp = np.broadcast_to(np.array(ps), a.off.shape).reshape(-1)
        fq = np.broadcast_to(np.array(qs), a.off.shape).reshape(-1)
        out = []
        for t, of, p, q in zip(args, offs, fp, fq):
            kq = z3.RealVal(str(a.k ** int(q)))
            if int(p) == int(q):
                out += [z3.RealVal(str(a.k)) * z_abs(z3, t) <= -of]
                continue
            out += [of <= 0, kq * _pow(z_abs(z3, t), int(p)) <= _pow(-of, int(q))]
        return out
    if a.kind == 'pnorm' and a.k > 0 and a.params[1] == 1:
        aa = int(a.params[0])
        args = [env.p(p) for p in a.arg.reshape(-1)]
        of = env.p(a.off.reshape(-1)[0])
        ka = z3.RealVal(str(a.k ** aa))
        return [of <= 0, ka * z3.Sum([_pow(z_abs(z3, t), aa) for t in args]) <= _pow(-of, aa)]
    if a.kind == 'gmean' and a.k < 0:
        beta = a.params
        args = [env.p(p) for p in a.arg.reshape(-1)]
        g = env.p(a.off.reshape(-1)[0]) * z3.RealVal(str(1 / (-a.k)))
        prod = None
        for t, b in zip(args, beta):
            f = _pow(t, int(b))
            prod = f if prod is None else prod * f
        return [t >= 0 for t in args] + [z3.Or(g <= 0, _pow(g, int(sum(beta))) <= prod)]
    return None


def cons_eval(c, assign, tol=1e-7):
    """Float evaluation of the violation of a constraint at a numeric assignment."""
    import math
    worst = -1e300
    if isinstance(c, OCustom):
        return c.evalfn(assign)
    if c.is_atom():
        a = c.expr
        if a.kind == 'max':
            args = None
            phi = [max(parr(p).reshape(-1)[0].evalf(assign) for p in a.arg)]
        else:
            args = np.array([p.evalf(assign) for p in a.arg.reshape(-1)], dtype=float)
            if a.kind in ('sumpexp', 'sumplog'):
                sc = [p.evalf(assign) for p in parr(a.params).reshape(-1)]
                sc = sc * len(args) if len(sc) == 1 else sc
                if a.kind == 'sumpexp':
                    phi = [sum(s_ * _exp(v / s_) if s_ > 0 else (0.0 if v <= 0 else 1e300) for v, s_ in zip(args, sc))]
                else:
                    phi = [sum(s_ * math.log(v / s_) if s_ > 0 and v > 0 else -1e300 for v, s_ in zip(args, sc))]
            elif a.kind in ('pexp', 'plog'):
                sc = [p.evalf(assign) for p in parr(a.params).reshape(-1)]
                sc = sc * len(args) if len(sc) == 1 else sc
                if a.kind == 'pexp':
                    phi = [s_ * math.exp(v / s_) if s_ > 0 else (0.0 if v <= 0 else 1e300) for v, s_ in zip(args, sc)]
                else:
                    phi = [s_ * math.log(v / s_) if s_ > 0 and v > 0 else -1e300 for v, s_ in zip(args, sc)]
            else:
                phi = atom_eval(a, args)
        offs = [p.evalf(assign) for p in a.off.reshape(-1)]
        phi = _bcast_phi(a, list(phi))
        for ph, of in zip(phi, offs):
            v = float(a.k) * ph + of
            worst = max(worst, v if c.sense == 'le' else abs(v))
    else:
        for p in c.polys():
            v = p.evalf(assign)
            worst = max(worst, v if c.sense == 'le' else abs(v))
    return worst


def _exp(v):
    import math
    return math.exp(v) if v < 700 else 1e304


def atom_eval(a, args):
    import math
    k = a.kind
    if k == 'abs':
        return list(np.abs(args))
    if k == 'norm1':
        return [float(np.abs(args).sum())]
    if k == 'norminf':
        return [float(np.abs(args).max())]
    if k == 'norm2':
        return [float(np.sqrt((args ** 2).sum()))]
    if k == 'square':
        return list(args ** 2)
    if k == 'sumsqr':
        return [float((args ** 2).sum())]
    if k == 'quad':
        Q = np.array([[float(frac(v)) for v in row] for row in a.params])
        return [float(args @ Q @ args)]
    if k in ('pexp', 'plog') and np.ndim(a.params) == 0:
        sc = float(a.params)
        return [sc * _exp(v / sc) for v in args] if k == 'pexp' else [sc * math.log(v / sc) if v > 0 else -1e300 for v in args]
    if k == 'exp':
        return [_exp(v) for v in args]
    if k == 'log':
        return [math.log(v) if v > 0 else -1e300 for v in args]
    if k == 'softplus':
        return [math.log1p(_exp(v)) if v < 700 else v for v in args]
    if k == 'entropy':
        return [float(-sum(v * math.log(v) for v in args if v > 0))] if all(v >= 0 for v in args) else [-1e300]
    if k == 'kldiv':
        qs = [float(frac(v)) for v in np.array(a.params, dtype=object).reshape(-1)]
        qs = qs * len(args) if len(qs) == 1 else qs
        return [float(sum(v * math.log(v / q) for v, q in zip(args, qs) if v > 0))] if all(v >= 0 for v in args) else [1e300]
    if k == 'sumexp':
        return [float(sum(_exp(v) for v in args))]
    if k == 'sumlog':
        return [float(sum(math.log(v) for v in args))] if all(v > 0 for v in args) else [-1e300]
    if k == 'power':
        ps, qs = a.params
        nat = getattr(a, 'nat_shape', a.arg.shape)
        fp = np.broadcast_to(np.array(ps, dtype=float), nat).reshape(-1)
        fq = np.broadcast_to(np.array(qs, dtype=float), nat).reshape(-1)
        return [abs(v) ** (p / q) for v, p, q in zip(_to_shape(list(args), a.arg.shape, nat), fp, fq)]
    if k == 'pnorm':
        p = a.params[0] / a.params[1]
        return [float((np.abs(args) ** p).sum() ** (1 / p))]
    if k == 'gmean':
        beta = np.array(a.params, dtype=float)
        if (args < 0).any():
            return [-1e300]
        return [float(np.prod(args ** beta) ** (1 / beta.sum()))]
    raise NotImplementedError(k)
