"""Exact-rational view of a compiled RSOME program (LinProg / SOCProg / GCProg).

    min obj'v  s.t.  rows (<= | ==),  lb <= v <= ub,  v_q in SOC,  v_e in K_exp, vtype

Every float is converted to the exact rational it denotes; +-inf is "no bound".
"""
from fractions import Fraction
import numpy as np
import scipy.sparse as sp
from .poly import Poly, frac, z3mod


class MalformedProgram(Exception):
    """The arrays of the real standard form do not fit together (a defect of the code under test, not of the harness)."""


class CProg:
    def __init__(self, formula, name='v'):
        lin = sp.csr_matrix(formula.linear)
        self.m, self.n = lin.shape
        self.name = name
        if not (np.all(np.isfinite(lin.data)) and np.all(np.isfinite(np.asarray(formula.const, dtype=float)))
                and np.all(np.isfinite(np.asarray(formula.obj, dtype=float)))):
            raise MalformedProgram('the standard form has non-finite (inf / nan) coefficients')
        self.rows = []
        const = np.asarray(formula.const).reshape(-1)
        sense = np.asarray(formula.sense).reshape(-1)
        for i in range(self.m):
            r = lin.getrow(i)
            d = {}
            for j, c in zip(r.indices, r.data):
                if c != 0:
                    d[int(j)] = d.get(int(j), Fraction(0)) + frac(c)
            self.rows.append((d, frac(const[i]), int(sense[i])))
        self.obj = [frac(c) for c in np.asarray(formula.obj).reshape(-1)]
        self.lb = [None if c == -np.inf else frac(c) for c in formula.lb]
        self.ub = [None if c == np.inf else frac(c) for c in formula.ub]
        self.vtype = [str(t) for t in formula.vtype]
        self.qmat = [list(int(k) for k in q) for q in getattr(formula, 'qmat', [])]
        self.xmat = [list(int(k) for k in x) for x in getattr(formula, 'xmat', [])]
        self.lmi = list(getattr(formula, 'lmi', []))
        self.pcones = []     # abstracted IPCone calls: (left form, [right forms], beta)
        if len(self.obj) != self.n or len(self.lb) != self.n or len(self.vtype) != self.n:
            raise MalformedProgram('the standard form has %d columns but obj/lb/vtype have %d/%d/%d entries'
                                   % (self.n, len(self.obj), len(self.lb), len(self.vtype)))

    # ---- z3 encoding
    def z3vars(self, prefix=None, relax=False):
        z3 = z3mod()
        p = prefix or self.name
        vs = []
        for j in range(self.n):
            if self.vtype[j] in 'BI' and not relax:
                vs.append(z3.Int('%s%d' % (p, j)))
            else:
                vs.append(z3.Real('%s%d' % (p, j)))
        return vs

    def int_vars(self, vs):
        return [vs[j] for j in range(self.n) if self.vtype[j] in 'BI']

    def row_term(self, i, vs):
        z3 = z3mod()
        d, c, s = self.rows[i]
        ts = [vs[j] * z3.RealVal(str(k)) for j, k in sorted(d.items())]
        lhs = z3.Sum(ts) if ts else z3.RealVal(0)
        return lhs, z3.RealVal(str(c)), s

    def row_cons(self, vs, rows=None):
        out = []
        for i in (range(self.m) if rows is None else rows):
            lhs, c, s = self.row_term(i, vs)
            out.append(lhs == c if s == 1 else lhs <= c)
        return out

    def bound_cons(self, vs, cols=None):
        z3 = z3mod()
        out = []
        for j in (range(self.n) if cols is None else cols):
            if self.lb[j] is not None:
                out.append(vs[j] >= z3.RealVal(str(self.lb[j])))
            if self.ub[j] is not None:
                out.append(vs[j] <= z3.RealVal(str(self.ub[j])))
            if self.vtype[j] == 'B':
                out.append(vs[j] >= 0)
                out.append(vs[j] <= 1)
        return out

    def soc_cons(self, vs, cones=None):
        out = []
        for q in (self.qmat if cones is None else cones):
            head = vs[q[0]]
            out.append(head >= 0)
            out.append(sum(vs[k] * vs[k] for k in q[1:]) <= head * head)
        return out

    def exp_cons(self, vs, expfun):
        """xmat triple (a, b, c) means  c*exp(a/c) <= b , c>0 (closure: c=0,a<=0,b>=0).

        expfun(a, c) -> z3 term standing for c*exp(a/c) (uninterpreted or abstraction).
        """
        out = []
        for (a, b, c) in self.xmat:
            out.append(expfun(vs[a], vs[b], vs[c]))
        return out

    def form_term(self, f, vs):
        z3 = z3mod()
        t = z3.RealVal(str(f[1]))
        for j, c in sorted(f[0].items()):
            t = t + z3.RealVal(str(c)) * vs[j]
        return t

    def pcone_cons(self, vs, which=None):
        """|left|^N <= prod right_i^beta_i, right >= 0 (meaning of an abstracted IPCone call)."""
        z3 = z3mod()
        out = []
        for k, (left, rights, beta) in enumerate(self.pcones):
            if which is not None and k not in which:
                continue
            l = self.form_term(left, vs)
            al = z3.If(l >= 0, l, -l)
            lhs = None
            for _ in range(sum(beta)):
                lhs = al if lhs is None else lhs * al
            rhs = None
            for f, b in zip(rights, beta):
                t = self.form_term(f, vs)
                out.append(t >= 0)
                for _ in range(b):
                    rhs = t if rhs is None else rhs * t
            out.append(lhs <= rhs)
        return out

    def constraints(self, vs, expfun=None):
        cs = self.row_cons(vs) + self.bound_cons(vs) + self.soc_cons(vs) + self.pcone_cons(vs)
        if self.xmat:
            if expfun is None:
                from .oracle import expcone
                z3 = z3mod()
                expfun = lambda a, b, c: expcone(z3, a, b, c)
            cs += self.exp_cons(vs, expfun)
        if self.lmi:
            raise ValueError('LMI programs are outside the encodable class')
        return cs

    def obj_term(self, vs):
        z3 = z3mod()
        ts = [vs[j] * z3.RealVal(str(c)) for j, c in enumerate(self.obj) if c != 0]
        return z3.Sum(ts) if ts else z3.RealVal(0)

    # ---- structure: connected components of rows over "local" columns
    def blocks(self, iface_cols):
        """Partition rows/cones/bounded local columns by connected components of the
        bipartite graph rows <-> local (non-interface) columns.

        Returns list of dict(rows=[..], cones=[..], locals=set(), iface=set()).
        Rows without any local column form singleton blocks.
        """
        iface = set(iface_cols)
        parent = {}

        def find(a):
            while parent.setdefault(a, a) != a:
                parent[a] = parent[parent[a]]
                a = parent[a]
            return a

        def union(a, b):
            ra, rb = find(a), find(b)
            if ra != rb:
                parent[ra] = rb

        items = []
        for i, (d, c, s) in enumerate(self.rows):
            items.append((('r', i), [j for j in d if j not in iface], [j for j in d if j in iface]))
        for k, q in enumerate(self.qmat):
            items.append((('q', k), [j for j in q if j not in iface], [j for j in q if j in iface]))
        for k, x in enumerate(self.xmat):
            items.append((('x', k), [j for j in x if j not in iface], [j for j in x if j in iface]))
        for k, (left, rights, beta) in enumerate(self.pcones):
            cols = set(left[0])
            for f in rights:
                cols |= set(f[0])
            items.append((('p', k), [j for j in cols if j not in iface], [j for j in cols if j in iface]))
        for key, loc, _ in items:
            find(key)
            for j in loc:
                union(key, ('c', j))
        comps = {}
        for key, loc, ifc in items:
            r = find(key)
            b = comps.setdefault(r, dict(rows=[], cones=[], xcones=[], pcones=[], locals=set(), iface=set()))
            if key[0] == 'r':
                b['rows'].append(key[1])
            elif key[0] == 'q':
                b['cones'].append(key[1])
            elif key[0] == 'p':
                b['pcones'].append(key[1])
            else:
                b['xcones'].append(key[1])
            b['locals'].update(loc)
            b['iface'].update(ifc)
        return list(comps.values())

    def block_cons(self, blk, vs, relax_exp=False):
        """relax_exp: exponential-cone memberships (a, b, c) are weakened to b >= 0, c >= 0 (hypothesis side only;
        the caller adds pairing inequalities)."""
        cs = self.row_cons(vs, blk['rows'])
        cs += self.bound_cons(vs, sorted(blk['locals'] | blk['iface']))
        cs += self.soc_cons(vs, [self.qmat[k] for k in blk['cones']])
        if blk.get('xcones') and relax_exp:
            for k in blk['xcones']:
                a, b, c = self.xmat[k]
                cs += [vs[b] >= 0, vs[c] >= 0, vs[b] >= vs[a] + vs[c]]
        elif blk.get('xcones'):
            from .oracle import expcone
            z3 = z3mod()
            for k in blk['xcones']:
                a, b, c = self.xmat[k]
                cs.append(expcone(z3, vs[a], vs[b], vs[c]))
        if blk.get('pcones'):
            cs += self.pcone_cons(vs, set(blk['pcones']))
        return cs

    def eliminated(self, blk, vs):
        """Exact Gaussian elimination of continuous local columns through the equality rows of a block.

        Returns (vs2, remaining): vs2 is vs with every eliminated local column replaced by the linear z3 term
        that its defining equality forces (over the remaining columns); block_cons(blk, vs2) is then
        equivalent to  exists eliminated columns: block_cons(blk, vs).  Integer columns are never eliminated."""
        z3 = z3mod()
        locs = set(blk['locals'])
        sub = {}                                   # col -> (dict col->Fraction, const)

        def apply(d, c):
            out, cc = {}, c
            for j, k in d.items():
                if j in sub:
                    dj, cj = sub[j]
                    cc = cc - k * cj               # row: sum d x (s) c ; x_j = cj + dj.x  ->  move k*cj to the rhs
                    for jj, kk in dj.items():
                        out[jj] = out.get(jj, 0) + k * kk
                else:
                    out[j] = out.get(j, 0) + k
            return {j: k for j, k in out.items() if k != 0}, cc

        for i in blk['rows']:
            d, c, sgn = self.rows[i]
            if sgn != 1:
                continue
            d, c = apply(d, c)
            cand = [j for j in d if j in locs and self.vtype[j] == 'C']
            if not cand:
                continue
            j = min(cand, key=lambda t: (len(d), t))
            kj = d[j]
            dj = {jj: -kk / kj for jj, kk in d.items() if jj != j}
            cj = c / kj
            for t in list(sub):
                dt, ct = sub[t]
                if j in dt:
                    k = dt.pop(j)
                    ct = ct + k * cj
                    for jj, kk in dj.items():
                        dt[jj] = dt.get(jj, 0) + k * kk
                    sub[t] = ({a: b for a, b in dt.items() if b != 0}, ct)
            sub[j] = (dj, cj)
        vs2 = list(vs)
        for j, (dj, cj) in sub.items():
            t = z3.RealVal(str(cj))
            for jj, kk in dj.items():
                t = t + z3.RealVal(str(kk)) * vs[jj]
            vs2[j] = t
        return vs2, sorted(locs - set(sub))

    def summary(self):
        return dict(rows=self.m, cols=self.n, soc=len(self.qmat), exp=len(self.xmat),
                    ints=sum(1 for t in self.vtype if t != 'C'))

    # ---- numeric evaluation of a concrete point (exact)
    def check_point(self, x, tol=Fraction(1, 10**6), relax_int=False):
        """Return list of violated items for a concrete vector x (floats ok)."""
        xv = [frac(float(t)) for t in x]
        bad = []
        for i, (d, c, s) in enumerate(self.rows):
            lhs = sum(k * xv[j] for j, k in d.items())
            scale = 1 + abs(c)
            if s == 1:
                if abs(lhs - c) > tol * scale:
                    bad.append(('row==', i, float(lhs - c)))
            elif lhs - c > tol * scale:
                bad.append(('row<=', i, float(lhs - c)))
        for j in range(self.n):
            if self.lb[j] is not None and xv[j] < self.lb[j] - tol * (1 + abs(self.lb[j])):
                bad.append(('lb', j, float(xv[j] - self.lb[j])))
            if self.ub[j] is not None and xv[j] > self.ub[j] + tol * (1 + abs(self.ub[j])):
                bad.append(('ub', j, float(xv[j] - self.ub[j])))
            if self.vtype[j] == 'B' and not relax_int:
                if min(abs(xv[j]), abs(xv[j] - 1)) > tol:
                    bad.append(('bin', j, float(xv[j])))
            if self.vtype[j] == 'I' and not relax_int:
                if abs(xv[j] - round(xv[j])) > tol:
                    bad.append(('int', j, float(xv[j])))
        for k, q in enumerate(self.qmat):
            h = xv[q[0]]
            ss = sum(xv[t] * xv[t] for t in q[1:])
            if h < -tol or ss > (h + tol * (1 + abs(h))) ** 2 and float(ss) ** 0.5 > float(h) + float(tol) * (1 + abs(float(h))):
                bad.append(('soc', k, float(ss) ** 0.5 - float(h)))
        for k, (left, rights, beta) in enumerate(self.pcones):
            def ev(f):
                return float(f[1]) + sum(float(c) * float(xv[j]) for j, c in f[0].items())
            rv = [ev(f) for f in rights]
            prod = 1.0
            for r, b in zip(rv, beta):
                prod *= max(r, 0.0) ** b
            if min(rv) < -float(tol) or abs(ev(left)) ** sum(beta) > prod * (1 + 1e-6) + float(tol):
                bad.append(('pcone', k, abs(ev(left)) ** sum(beta) - prod))
        import math
        for k, (a, b, c) in enumerate(self.xmat):
            fa, fb, fc = float(xv[a]), float(xv[b]), float(xv[c])
            ftol = float(tol)
            if fc > ftol:
                v = (fc * math.exp(fa / fc) if fa / fc < 700 else 1e300) - fb
                if v > ftol * (1 + abs(fb)):
                    bad.append(('exp', k, v))
            elif fc < -ftol:
                bad.append(('exp-c<0', k, fc))
            else:
                if fa > ftol or fb < -ftol:
                    bad.append(('exp-closure', k, max(fa, -fb)))
        return bad
