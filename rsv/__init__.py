"""rsv - solver-based verification harness for RSOME (see ../DESIGN.md)."""
