"""dro ambiguity sets with CONIC (second-order-cone) supports / expectation sets: the adversary in moment form.

Lemma M (moment form).  Let every conditional support Z_s be a closed convex set and the integrand of a row be convex
piecewise-affine in z,  f(x; s, z) = max_j [ alpha_sj(x) + beta_sj(x).z ].  Every distribution P of the event-wise ambiguity
set induces, with A_sj = {z : piece j is the maximal one at (s, z)} (ties broken by index),

    q_sj = P(s, A_sj) >= 0,        m_sj = E_P[ z ; s, A_sj ]   (a vector),

and these numbers satisfy:  sum_j q_sj = p_s,  p in the probability set,  m_sj in q_sj * Z_s  (conditional means of a
convex set stay in it: the PERSPECTIVE of every support constraint),  and for every expectation set (event E, Q):
sum_{s in E} sum_j m_sj  in  (sum_{s in E} p_s) * Q.  Moreover  E_P[f] = sum_sj ( q_sj alpha_sj(x) + beta_sj(x).m_sj ).
So  "exists P in the set with E_P[f] > 0"  implies  "exists (q, m) in the moment set M with sum_sj(...) > 0";  the check
refutes the latter over all compiled-feasible points (soundness, C03).  Conversely a (q, m) in M with all q_sj > 0 IS a
distribution of the set (atoms z = m_sj / q_sj with mass q_sj) whose expectation is at least the bilinear form - that is how
a candidate counterexample is replayed against the true set.

Perspectives (q > 0 mass, m moment, `hom` = homogenisation  c0 + c.z  ->  c0*q + c.m):
    linear      c0 + c.z <= 0 (== 0)        ->  hom <= 0 (== 0)
    abs / 1-norm / inf-norm atoms           ->  their H-representation, row by row
    k*|A z + b|_2 + off(z) <= 0             ->  ( hom(-off/k), hom(A z + b) )  in SOC
    k*(a.z + b)^2 + off(z) <= 0             ->  rotated cone  hom(a.z+b)^2 <= hom(-off/k) * q :
                                                ( (h+q)/2 ; (h-q)/2, hom(a.z+b) ) in SOC
    k*sum_i (..)_i^2 + off <= 0             ->  likewise with all squares in the tail

The bilinear system (compiled block | moments) is decided by level-1 reformulation-linearisation with the Cauchy-Schwarz
pairing of second-order cones (tv.rlt_block, DESIGN.md 3.10): QF_LRA, only `unsat` is used.
"""
from fractions import Fraction
import numpy as np

from .poly import Poly, parr, frac
from .usets import USet, EXP_SET_KINDS
from .smt import HarnessError

POLY_ATOMS = ('abs', 'norm1', 'norminf')
SOC_ATOMS = ('norm2', 'square', 'sumsqr')


def rational_sqrt(k):
    k = Fraction(k)
    from math import isqrt
    n, d = k.numerator, k.denominator
    if n > 0 and isqrt(n) ** 2 == n and isqrt(d) ** 2 == d:
        return Fraction(isqrt(n), isqrt(d))
    return None


def is_conic(cm, F):
    """True when a support or an expectation set of F carries a second-order-cone atom (and nothing beyond)."""
    A = cm.o.amb[F]
    found = False
    lists = [A['supp'][s] for s in range(cm.o.ns)] + [cons for _, cons in A['expt']]
    for cons in lists:
        for c in cons:
            if c.is_atom():
                k = c.expr.kind
                if k in SOC_ATOMS or k in EXP_SET_KINDS:
                    found = True
                elif k not in POLY_ATOMS:
                    return False
    return found


def hom(p, q, msub):
    """Homogenisation of a polynomial affine in the z-names of msub: constant -> constant*q, z_i -> m_i; coefficients may
    contain other names (interface variables)."""
    p = Poly.lift(p)
    out = Poly()
    zn = set(msub)
    for mono, c in p.t.items():
        zs = [v for v in mono if v in zn]
        rest = tuple(v for v in mono if v not in zn)
        if len(zs) > 1:
            raise HarnessError('moment form: integrand or set constraint not affine in z')
        out = out + Poly({rest: c}) * (msub[zs[0]] if zs else q)
    return out


def persp(cons, names, q, msub, G, H, Q, T=None, aux=None):
    """Append the perspective of the constraint list `cons` (over `names`) at mass q / moments msub to G (>= 0), H (== 0),
    Q (second-order cones as (head, [tails])) and T (exponential-cone triples (x, y, z): z*exp(x/z) <= y; K_exp is a cone, so the
    perspective of a membership is the membership of the homogenised triple; existential auxiliaries are scaled with it)."""
    for c in cons:
        if c.is_atom() and c.expr.kind in EXP_SET_KINDS:
            if T is None or c.sense != 'le':
                raise HarnessError('moment form: exponential-cone atom not supported here')
            from .oracle import exp_normal
            msub2 = dict(msub)

            def fresh(tag, msub2=msub2):
                n = '_e%s%d' % (tag, len(aux))
                aux.append(n)
                msub2[n] = Poly.var(n)
                return Poly.var(n)
            t, g = exp_normal(c.expr, fresh)
            for tri in t:
                T.append(tuple(hom(Poly.lift(e), q, msub2) for e in tri))
            for gg in g:
                G.append(hom(gg, q, msub2))
            continue
        if c.is_atom():
            a = c.expr
            if a.k <= 0 or c.sense != 'le':
                raise HarnessError('moment form: non-convex set constraint')
            if a.kind in POLY_ATOMS:
                pi, pe = USet([c], names).hrep()
                for coef, rhs in pi:
                    G.append(q * rhs - sum((msub[n] * cf for n, cf in coef.items()), Poly()))
                continue
            args = list(a.arg.reshape(-1))
            offs = list(a.off.reshape(-1))
            if a.kind == 'norm2':
                Q.append((hom(offs[0] * (-1 / a.k), q, msub), [hom(e, q, msub) for e in args]))
            elif a.kind in ('square', 'sumsqr'):
                groups = [(offs[0], args)] if a.kind == 'sumsqr' else [(o, [e]) for e, o in zip(args, offs)]
                for o, es in groups:
                    h = hom(o * (-1 / a.k), q, msub)
                    Q.append(((h + q) * Fraction(1, 2), [(h - q) * Fraction(1, 2)] + [hom(e, q, msub) for e in es]))
                    rk = rational_sqrt(a.k)
                    if a.k != 1 and rk is not None:
                        # the same set in the coordinates RSOME dualises: (sqrt(k) e)^2 <= -off.  Both memberships are facts;
                        # the pairing with RSOME's multipliers needs the vector RSOME's cone is stated for (a rotated cone is
                        # not invariant under rescaling one of its arguments)
                        h2 = hom(o * -1, q, msub)
                        Q.append(((h2 + q) * Fraction(1, 2), [(h2 - q) * Fraction(1, 2)] + [hom(e, q, msub) * rk for e in es]))
            else:
                raise HarnessError('moment form: unsupported atom %s' % a.kind)
        else:
            for p in c.polys():
                t = hom(p, q, msub)
                if c.sense == 'le':
                    G.append(-t)
                else:
                    H.append(t)


def moment_system(cm, F, npieces, scens=None):
    """Moment set M of the ambiguity set F with `npieces` sub-masses per scenario.

    Returns dict(vars, G, H, Q, q, m): names, Poly lists G (>= 0), H (== 0), cones Q, q[(s,j)] and m[(s,j)][zname] as Poly."""
    o = cm.o
    A = o.amb[F]
    zn = list(o.znames)
    S = list(range(o.ns))
    G, H, Q, names = [], [], [], []
    T, aux = [], []
    qv, mv = {}, {}
    for s in S:
        for j in range(npieces):
            qn = 'q%d_%d' % (s, j)
            names.append(qn)
            qv[(s, j)] = Poly.var(qn)
            G.append(Poly.var(qn))
            mv[(s, j)] = {}
            for i, z in enumerate(zn):
                mn = 'm%d_%d_%d' % (s, j, i)
                names.append(mn)
                mv[(s, j)][z] = Poly.var(mn)
            persp(A['supp'][s], zn, qv[(s, j)], mv[(s, j)], G, H, Q, T, aux)
    psub = {'p[%d]' % s: sum((qv[(s, j)] for j in range(npieces)), Poly()) for s in S}
    H.append(sum(psub.values(), Poly()) - 1)
    # probability set: polyhedral (H-representation over p)
    pi, pe = USet(A['prob'], list(psub)).hrep()
    for c in A['prob']:
        if c.is_atom() and c.expr.kind not in POLY_ATOMS:
            raise HarnessError('moment form: probability set outside the polyhedral class')
    for coef, rhs in pi:
        G.append(Poly.const(rhs) - sum((psub[n] * cf for n, cf in coef.items()), Poly()))
    for coef, rhs in pe:
        H.append(Poly.const(rhs) - sum((psub[n] * cf for n, cf in coef.items()), Poly()))
    for scn, cons in A['expt']:
        scale = sum((psub['p[%d]' % s] for s in scn), Poly())
        msub = {'E' + z: sum((mv[(s, j)][z] for s in scn for j in range(npieces)), Poly()) for z in zn}
        persp(cons, ['E' + z for z in zn], scale, msub, G, H, Q, T, aux)
    return dict(vars=names + aux, G=G, H=H, Q=Q, T=T, q=qv, m=mv)


def bilinear_value(cm, group, sysm, npieces, ren=None, assign=None):
    """sum_sj hom(piece_j instantiated at scenario s): the expectation of the row's integrand in moment form."""
    o = cm.o
    tot = Poly()
    for s in range(o.ns):
        inst = [cm.inst(p, s) for p in group]
        for j in range(npieces):
            pj = inst[j] if j < len(inst) else None
            if pj is None:
                continue
            if assign is not None:
                pj = pj.subs(assign)
            elif ren is not None:
                pj = pj.subs(ren)
            tot = tot + hom(pj, sysm['q'][(s, j)], sysm['m'][(s, j)])
    return tot


def scenario_system(cm, F, s):
    """One realisation z of the support of scenario s (plain robust rows): q = 1, m = z."""
    o = cm.o
    zn = list(o.znames)
    G, H, Q = [], [], []
    names = ['z%d_%d' % (s, i) for i in range(len(zn))]
    msub = {z: Poly.var(n) for z, n in zip(zn, names)}
    T, aux = [], []
    persp(o.amb[F]['supp'][s], zn, Poly.const(1), msub, G, H, Q, T, aux)
    return dict(vars=names + aux, G=G, H=H, Q=Q, T=T, msub=msub)


# ------------------------------------------------------------------ numeric side (candidate counterexamples, replay)
def _f(p, env):
    return float(Poly.lift(p).evalf(env))


def _lin_row(p, idx):
    """(row vector, constant) of a polynomial that is affine in the variables of idx."""
    row = np.zeros(len(idx))
    const = 0.0
    for mono, c in Poly.lift(p).t.items():
        if len(mono) == 0:
            const += float(c)
        elif len(mono) == 1 and mono[0] in idx:
            row[idx[mono[0]]] += float(c)
        else:
            raise HarnessError('moment system is not linear in its variables: %r' % (mono,))
    return row, const


def worst_moments_ecos(cm, F, group, assign, npieces, sign=1):
    """The worst moments as the conic LP they are:  max value(q, m)  s.t.  G >= 0, H == 0, (head, tails) in SOC  - solved with
    ECOS directly (numeric witness search only; the result is re-checked against the true set by the caller)."""
    import ecos
    from scipy.sparse import csc_matrix
    sysm = moment_system(cm, F, npieces)
    names = sysm['vars']
    idx = {n: i for i, n in enumerate(names)}
    val = bilinear_value(cm, group, sysm, npieces, assign=assign) * sign
    c, _ = _lin_row(val, idx)
    Gm, hv = [], []
    for g in sysm['G']:
        r, k = _lin_row(g, idx)          # r.y + k >= 0   ->   -r.y + s = k, s >= 0
        Gm.append(-r)
        hv.append(k)
    nl = len(Gm)
    qdims = []
    for hd, tl in sysm['Q']:
        for e in [hd] + list(tl):
            r, k = _lin_row(e, idx)      # s = r.y + k  in SOC
            Gm.append(-r)
            hv.append(k)
        qdims.append(1 + len(tl))
    for tri in sysm.get('T', []):
        for e in tri:                    # ECOS: (x, y, z) with z*exp(x/z) <= y, rows after the second-order cones
            r, k = _lin_row(e, idx)
            Gm.append(-r)
            hv.append(k)
    Am, bv = [], []
    for h_ in sysm['H']:
        r, k = _lin_row(h_, idx)
        Am.append(r)
        bv.append(-k)
    dims = dict(l=nl, q=qdims, e=len(sysm.get('T', [])))
    try:
        sol = ecos.solve(-c, csc_matrix(np.array(Gm)), np.array(hv, dtype=float), dims,
                         csc_matrix(np.array(Am)) if Am else None, np.array(bv, dtype=float) if Am else None, verbose=False)
    except Exception:  # noqa
        return None
    if sol['info']['exitFlag'] not in (0, 10):
        return None
    env = dict(zip(names, [float(t) for t in sol['x']]))
    return float(c @ sol['x']) + float(_lin_row(val, idx)[1]), env


def worst_moments(cm, F, group, assign, npieces, sign=1, starts=4, seed=3):
    try:
        w = worst_moments_ecos(cm, F, group, assign, npieces, sign)
        if w is not None:
            return w
    except ImportError:
        pass
    return worst_moments_slsqp(cm, F, group, assign, npieces, sign, starts, seed)


def worst_moments_slsqp(cm, F, group, assign, npieces, sign=1, starts=4, seed=3):
    """Numerically worst (q, m) of the moment set for the decisions `assign` (SLSQP); returns (value, env) or None."""
    from scipy.optimize import minimize
    sysm = moment_system(cm, F, npieces)
    names = sysm['vars']
    val = bilinear_value(cm, group, sysm, npieces, assign=assign) * sign
    cons = []
    for g in sysm['G']:
        cons.append(dict(type='ineq', fun=(lambda x, g=g: _f(g, dict(zip(names, x))))))
    for h in sysm['H']:
        cons.append(dict(type='eq', fun=(lambda x, h=h: _f(h, dict(zip(names, x))))))
    for hd, tl in sysm['Q']:
        cons.append(dict(type='ineq', fun=(lambda x, hd=hd: _f(hd, dict(zip(names, x))))))
        cons.append(dict(type='ineq', fun=(lambda x, hd=hd, tl=tl: _f(hd, dict(zip(names, x))) ** 2
                                           - sum(_f(t, dict(zip(names, x))) ** 2 for t in tl))))
    rnd = np.random.RandomState(seed)
    best = None
    for k in range(starts):
        x0 = np.zeros(len(names))
        for i, n in enumerate(names):
            if n.startswith('q'):
                x0[i] = 1.0 / (cm.o.ns * npieces)
            else:
                x0[i] = 0.0 if k == 0 else rnd.uniform(-0.2, 0.2)
        try:
            r = minimize(lambda x: -_f(val, dict(zip(names, x))), x0, constraints=cons, method='SLSQP',
                         options=dict(maxiter=400, ftol=1e-10))
        except Exception:  # noqa
            continue
        env = dict(zip(names, [float(t) for t in r.x]))
        v = _f(val, env)
        if best is None or v > best[0]:
            best = (v, env)
    return best


def distribution_from_moments(cm, F, env, npieces, shrink=1e-6):
    """Atoms (s, z = m/q, mass q) of a numeric moment point; masses below 1e-9 are dropped and the rest renormalised."""
    o = cm.o
    zn = list(o.znames)
    atoms = []
    for s in range(o.ns):
        for j in range(npieces):
            q = env['q%d_%d' % (s, j)]
            if q <= 1e-9:
                continue
            z = {n: env['m%d_%d_%d' % (s, j, i)] / q for i, n in enumerate(zn)}
            atoms.append([s, z, q])
    tot = sum(a[2] for a in atoms)
    for a in atoms:
        a[2] /= tot
    return atoms


def in_true_set(cm, F, atoms, tol=1e-7):
    """Membership of an explicit discrete distribution in the TRUE ambiguity set (oracle constraints evaluated
    numerically): supports per atom, probability set, expectation sets per event."""
    from .oracle import cons_eval
    o = cm.o
    A = o.amb[F]
    zn = list(o.znames)
    for s, z, w in atoms:
        for c in A['supp'][s]:
            if cons_eval(c, z) > tol:
                return False, 'support of scenario %d violated by %.3g' % (s, cons_eval(c, z))
    pv = {'p[%d]' % s: sum(w for s2, z, w in atoms if s2 == s) for s in range(o.ns)}
    for c in A['prob']:
        if cons_eval(c, pv) > tol:
            return False, 'probability set violated'
    for scn, cons in A['expt']:
        mass = sum(pv['p[%d]' % s] for s in scn)
        if mass <= 1e-12:
            continue
        mu = {'E' + n: sum(w * z[n] for s, z, w in atoms if s in scn) / mass for n in zn}
        for c in cons:
            if cons_eval(c, mu) > tol:
                return False, 'expectation set violated by %.3g' % cons_eval(c, mu)
    return True, ''


def expectation_under(cm, group, atoms, assign):
    """E[max_j piece_j] under an explicit discrete distribution (floats)."""
    tot = 0.0
    for s, z, w in atoms:
        inst = [cm.inst(p, s).subs(assign) for p in group]
        zz = {k: Fraction(float(v)) for k, v in z.items()}
        tot += w * max(float(q.subs(zz).constant()) for q in inst)
    return tot
