"""Deterministic model family for C06/C07/C10: atoms in every syntactic position.

A spec is dict(name, atom, form, ...) and is turned into a description function that is
run against both API sides (ro front end; the dro front end is exercised by a wrapper).
"""
import numpy as np

A2 = np.array([[1.0, 0.5], [0.0, -1.0]])
A32 = np.array([[1.0, 0.0], [0.5, 1.0], [0.0, -2.0]])
b2 = np.array([0.5, -1.0])
b3 = np.array([0.5, -1.0, 0.0])


EXP_ATOMS = ['exp', 'log', 'pexp', 'plog', 'softplus', 'entropy', 'expsum', 'sumexp', 'sumlog', 'sumpexp', 'sumplog', 'sumexpb', 'sumlogb',
             'sumexp2s', 'sumexp2sY', 'sumexpnest', 'logn', 'sumlogn', 'spsumexp', 'entsumexp']
EXP_FAMILY = EXP_ATOMS + ['kldiv', 'expcone']      # members decided under the cone-term abstraction


def exp_desc(a, atom, form):
    """Exponential-cone atoms (cone-term abstraction on the oracle side)."""
    x = a.dvar(2)
    u = a.dvar(())
    a.st(a.ge(x, -1.0))
    a.st(a.le(x, 1.0))
    a.st(a.ge(u, -20.0))
    a.st(a.le(u, 20.0))
    lin = a.sum(np.array([1.0, -0.5]) * x)
    if atom == 'exp':
        h, curv = a.exp(2.0 * x - b2), 1
    elif atom == 'expsum':
        h, curv = a.exp(x[0:1] - x[1:2] + 0.5), 1
    elif atom == 'sumexp':
        h, curv = a.sumexp(2.0 * x - b2), 1
    elif atom == 'sumlog':
        h, curv = a.sumlog(x + 2.5), -1
    elif atom in ('spsumexp', 'entsumexp'):
        # two atoms of different kinds in one model: softplus / entropy (which allocate further columns while the model is
        # formulated) declared BEFORE a summed exp
        s_ = a.dvar(())
        a.st(a.le(s_, 10.0))
        if atom == 'spsumexp':
            a.st(a.le(a.softplus(x[0:1] - 0.5), s_))
        else:
            a.st(a.ge(a.entropy(x + 1.5), -s_))
        a.st(a.ge(s_, 0.25 * x[1]))
        h, curv = a.sumexp(2.0 * x - b2), 1
    elif atom == 'sumpexp':
        h, curv = a.sumpexp(x - 0.5, 2.0), 1            # pexp(., 2).sum(): sum of perspectives
    elif atom == 'sumplog':
        h, curv = a.sumplog(x + 2.5, 2.0), -1
    elif atom == 'sumexpb':
        # (exp(x) + Y).sum() with x of shape (2,) broadcast against a (2, 2) constant: every entry of the sum counts
        h, curv = a.sumexp_bcast(x, np.array([[0.5, -1.0], [0.25, 1.5]])), 1
    elif atom == 'sumexp2s':
        # two-step sum exp(E).sum(axis=1).sum() of a 2-D argument
        h, curv = a.sumexp_2step(np.array([[1.0], [0.5], [-1.0]]) * x + np.array([[0.0, 0.5], [-0.5, 0.25], [0.0, -0.25]])), 1
    elif atom == 'sumexp2sY':
        h, curv = a.sumexp_2step(np.array([[1.0], [0.5], [-1.0]]) * x, np.array([[0.5, -1.0], [0.25, 1.5], [0.0, 1.0]])), 1
    elif atom == 'sumexpnest':
        # (exp(x).sum() + Y).sum(): may be refused; if accepted it counts the scalar sum once per entry of Y
        h, curv = a.sumexp_nested(x, np.array([0.5, -1.0])), 1
    elif atom == 'sumlogb':
        h, curv = a.sumlog_bcast(x + 2.5, np.array([[0.5, -1.0], [0.25, 1.5]])), -1
    elif atom == 'log':
        h, curv = a.log(x + 2.5), -1
    elif atom == 'logn':
        # logarithms that take NEGATIVE values on part of the box (a lost positive factor is then unsound, not conservative)
        h, curv = a.log(0.5 * x + 0.75), -1
    elif atom == 'sumlogn':
        h, curv = a.sumlog(0.5 * x + 0.75), -1
    elif atom == 'pexp':
        h, curv = a.pexp(x[0:1] - 0.5, x[1:2] + 2.0), 1
    elif atom == 'plog':
        h, curv = a.plog(x[0:1] + 2.0, x[1:2] + 1.5), -1
    elif atom == 'softplus':
        h, curv = a.softplus(x - b2), 1
    else:
        h, curv = a.entropy(x + 1.5), -1
    if curv > 0:
        if form == 'le':
            a.st(a.le(h, u))
            a.min(u + lin * 0.25)
        elif form == 'le_scaled':
            a.st(a.le(2.0 * h + lin, u))      # 1/2 is exact in binary (1/2.5 is not: the abstraction needs equal terms)
            a.min(u)
        elif form == 'obj':
            if atom in ('sumexp', 'sumpexp', 'sumexpb', 'sumexp2s', 'sumexp2sY', 'sumexpnest', 'spsumexp', 'entsumexp'):
                a.min(h - lin)
            else:
                a.st(a.le(h, u))
                a.min(u - lin)
        elif form == 'le_affine_rhs':
            a.st(a.le(h - lin, u + 1.0))
            a.min(u)
        else:
            a.st(a.ge(u, h))
            a.min(u + lin * 0.25)
    else:
        if form == 'le':
            a.st(a.ge(h, u))
            a.max(u + lin * 0.25)
        elif form == 'le_scaled':
            a.st(a.ge(2.0 * h + lin, u))
            a.max(u)
        elif form == 'obj':
            if atom in ('entropy', 'sumlog', 'sumplog', 'sumlogb', 'sumlogn'):
                a.max(h + lin)
            else:
                a.st(a.ge(h, u))
                a.max(u - lin)
        elif form == 'le_affine_rhs':
            a.st(a.ge(h - lin, u - 1.0))
            a.max(u)
        else:
            a.st(a.le(u, h))
            a.max(u + lin * 0.25)


def bcast_desc(a, base, form):
    """Element-wise atoms where BOTH the atom and the other side are expanded by broadcasting:
    atom(x) with x of shape (2,1) against y of shape (2,) / a (1,2) constant / a (2,2) variable."""
    x = a.dvar((2, 1))
    y = a.dvar(2)
    t = a.dvar((2, 2))
    a.st(a.ge(x, -1.0))
    a.st(a.le(x, 1.5))
    a.st(a.le(y, 30.0))
    a.st(a.le(t, 30.0))
    a.st(a.ge(y, -30.0))
    a.st(a.ge(t, -30.0))
    arg = x + 2.0 if base == 'log' else 2.0 * x - 0.5
    f = {'abs': a.abs, 'square': a.square, 'power3': (lambda e: a.power(e, 3)), 'exp': a.exp, 'log': a.log}[base]
    h = f(arg)
    concave = base == 'log'
    c = np.array([[0.5, -1.0]])
    if form == 'bcast_var':
        a.st(a.ge(h, y) if concave else a.le(h, y))
        (a.max if concave else a.min)(a.sum(y) + 0.25 * a.sum(x))
    elif form == 'bcast_const':
        a.st(a.ge(h + c, t) if concave else a.le(h + c, t))
        (a.max if concave else a.min)(a.sum(t))
    else:
        a.st(a.ge(2.0 * h + c, t) if concave else a.le(2.0 * h + c, t))
        (a.max if concave else a.min)(a.sum(t) - 0.5 * a.sum(x))


def vec_atoms():
    """name -> (builder(a, e) -> atom handle, curvature, arg kind, kwargs)"""
    return {
        'abs': (lambda a, e: a.abs(e), 1, 'elem'),
        'norm1': (lambda a, e: a.norm(e, 1), 1, 'vec'),
        'norminf': (lambda a, e: a.norm(e, 'inf'), 1, 'vec'),
        'norm2': (lambda a, e: a.norm(e, 2), 1, 'vec'),
        'square': (lambda a, e: a.square(e), 1, 'elem'),
        'sumsqr': (lambda a, e: a.sumsqr(e), 1, 'vec'),
        'quadpsd': (lambda a, e: a.quad(e, [[2.0, 0.5], [0.5, 1.0]]), 1, 'vec2'),
        'quadnsd': (lambda a, e: a.quad(e, [[-2.0, 0.5], [0.5, -1.0]]), -1, 'vec2'),
        'quaddiag': (lambda a, e: a.quad(e, [[4.0, 0.0], [0.0, 1.0]]), 1, 'vec2'),
        # x'Qx with a NON-symmetric Q (the quadratic form of its symmetric part)
        # exactly singular matrices (two zero eigenvalues / rank one)
        'quadsing3': (lambda a, e: a.quad(e, [[0.0, 0.0, 0.0], [0.0, 0.0, 0.0], [0.0, 0.0, 1.0]]), 1, 'vec'),
        'quadones3': (lambda a, e: a.quad(e, [[1.0, 1.0, 1.0], [1.0, 1.0, 1.0], [1.0, 1.0, 1.0]]), 1, 'vec'),
        'quadrank1': (lambda a, e: a.quad(e, [[1.0, 1.0], [1.0, 1.0]]), 1, 'vec2'),
        'quadnonsym': (lambda a, e: a.quad(e, [[1.0, 2.0], [0.0, 1.0]]), 1, 'vec2'),
        'quadnonsym2': (lambda a, e: a.quad(e, [[2.0, 2.0], [0.0, 2.0]]), 1, 'vec2'),
    }


def core_specs():
    S = []
    forms = ['le', 'le_scaled', 'ge_neg', 'obj', 'obj_scaled', 'le_affine_rhs', 'le_from_right']
    for atom in vec_atoms():
        for form in forms:
            S.append(dict(name='%s-%s' % (atom, form), atom=atom, form=form))
    for pq in [(2, 1), (3, 1), (3, 2), (4, 1), (4, 3), (5, 2)]:
        for form in ['le', 'obj', 'le_scaled']:
            S.append(dict(name='power%d_%d-%s' % (pq[0], pq[1], form), atom='power', pq=list(pq), form=form))
    # element-wise power with an ARRAY of exponents (entries with p == q are compiled as abs, the others as power cones)
    for form in ['le', 'obj', 'le_scaled']:
        S.append(dict(name='powerarr-%s' % form, atom='powerarr', form=form))
    # an element-wise atom of ONE entry (or a norm) as the objective itself, with multipliers on both sides of 1
    for base in ('abs', 'square', 'power3', 'power11', 'norm1', 'norminf', 'norm2'):
        for c in (0.25, 0.5, 2.0):
            S.append(dict(name='sobj-%s-c%g' % (base, c), atom='sobj', base=base, c=c, form='obj'))
    # the ARGUMENT is broadcast against the arrays of exponents (one entry, several exponents; a column against a row)
    for form in ['le', 'obj', 'le_scaled']:
        S.append(dict(name='powerbc-%s' % form, atom='powerbc', form=form))
        S.append(dict(name='powerbc2d-%s' % form, atom='powerbc2d', form=form))
    for ab in [(3, 1), (3, 2), (4, 1), (5, 2)]:
        for form in ['le', 'obj', 'le_scaled', 'obj_scaled']:
            if form == 'obj_scaled' and ab[1] != 1:
                continue      # fractional degree + scaling: the definitional root encoding is beyond z3 (stretch)
            S.append(dict(name='pnorm%d_%d-%s' % (ab[0], ab[1], form), atom='pnorm', ab=list(ab), form=form))
    for beta in [[1, 1], [1, 2], [2, 1, 1], [1, 3, 2], [1, 1, 1]]:
        for form in ['ge', 'obj', 'ge_scaled']:
            S.append(dict(name='gmean%s-%s' % (''.join(map(str, beta)), form), atom='gmean', beta=beta, form=form))
    for form in ['le', 'obj', 'ge_min', 'obj_min']:
        S.append(dict(name='maxof-%s' % form, atom='maxof', form=form))
    for atom in EXP_ATOMS:
        for form in ['le', 'le_scaled', 'obj', 'le_affine_rhs', 'le_from_right']:
            S.append(dict(name='%s-%s' % (atom, form), atom=atom, form=form))
            if atom in ('sumpexp', 'sumplog', 'sumexpnest'):
                # sums of perspective atoms have no compiled form: RSOME may refuse them (raise); if it accepts them
                # the compiled program must mean the sum
                S[-1]['may_raise'] = True
    for atom in ['abs', 'square', 'power3', 'exp', 'log']:
        for form in ['bcast_var', 'bcast_const', 'bcast_scaled']:
            S.append(dict(name='%s-%s' % (atom, form), atom='bcast', base=atom, form=form))
    S.append(dict(name='rsocone', atom='rsocone', form='cons'))
    for form in ['const_r', 'var_r', 'scalar_q', 'affine_p']:
        S.append(dict(name='kldiv-' + form, atom='kldiv', form=form))
    for form in ['vars', 'affine', 'const_z', 'vector_y', 'vector_y_affine']:
        S.append(dict(name='expcone-' + form, atom='expcone', form=form))
    for form in ['tight_first', 'loose_first', 'interleaved']:
        S.append(dict(name='overlap-bounds-' + form, atom='bounds', form=form))
    # variables (integer / binary / continuous) declared AFTER the model was formulated or solved once: the auxiliary
    # columns of the first formulation lie between the early and the late variables
    for form in ['int_after_formulation', 'int_after_solve', 'bin_after_solve', 'cont_after_solve']:
        S.append(dict(name='late-variable-' + form, atom='latevar', form=form))
    # the same descriptions through the dro front end (DecVar / DecAffine / DecConvex, dro.Model.do_math).  Members the
    # dro front end rejects loudly (summed exp/log, KL divergence, rsocone: TypeError / AttributeError) are not included.
    for sp in list(S):
        if sp['atom'] in ('sumexp', 'sumlog', 'sumlogn', 'spsumexp', 'entsumexp', 'kldiv', 'rsocone', 'sumpexp', 'sumplog', 'sumexpb', 'sumlogb', 'latevar', 'sumexp2s', 'sumexp2sY', 'sumexpnest') \
                or sp['form'].startswith('vector_y'):
            continue          # (expcone with an array as left argument: ValueError inside dro.ro_to_roc, loud)
        d = dict(sp)
        d['name'] = 'dro:' + sp['name']
        d['front'] = 'dro'
        S.append(d)
    # the conic model class on its own (rsome.gcp.Model: class of the compiled model of ro/dro and of the shared set models),
    # built in one go and with a formulation after every st() call (re-formulation must not leave anything behind)
    for sp in list(S):
        if sp.get('front') or sp['atom'] in ('maxof', 'latevar', 'bounds', 'kldiv', 'multi', 'intabs') or sp.get('may_raise'):
            continue
        if sp['atom'] in EXP_ATOMS or sp['atom'] in ('norm2', 'square', 'sumsqr', 'abs', 'norm1', 'expcone', 'rsocone'):
            if sp['form'] not in ('le', 'le_scaled', 'le_affine_rhs', 'cons', 'vars', 'affine'):
                continue
            for tag, style in (('gcp', None), ('gcpR', dict(reformulate_each_st=True))):
                d = dict(sp)
                d['name'] = '%s:%s' % (tag, sp['name'])
                d['front'] = 'gcp'
                if style:
                    d['style'] = style
                S.append(d)
    S.append(dict(name='multi-atom', atom='multi', form='cons'))
    S.append(dict(name='int-abs', atom='intabs', form='cons'))
    return S


CHAIN_BASES = ['abs', 'norm1', 'norminf', 'norm2', 'square', 'sumsqr', 'exp', 'log', 'entropy', 'softplus', 'maxof', 'minof',
               'gmean', 'power3', 'pexp', 'plog']
CHAIN_CURV = dict(abs=1, norm1=1, norminf=1, norm2=1, square=1, sumsqr=1, exp=1, log=-1, entropy=-1, softplus=1, maxof=1,
                  minof=-1, gmean=-1, power3=1, pexp=1, plog=-1)
# chains of scalar multiplications, negations and affine additions; multipliers and their reciprocals are exact in binary
MEANING_CHAINS = [[], ['mul', 2.0], ['neg', 'rmul', -0.5], ['mul', 0.5, 'sub_aff'], ['rsub_aff', 'neg'],
                  ['mul', -2.0, 'rsub_aff', 'rmul', -1.0], ['rsub_c', 2.0], ['mul', -4.0], ['add_c', 1.0, 'mul', -1.0]]


def chain_atom(a, base, x):
    if base == 'abs':
        return a.abs(x[0:1] - 0.5)
    if base == 'norm1':
        return a.norm(x, 1)
    if base == 'norminf':
        return a.norm(x, 'inf')
    if base == 'norm2':
        return a.norm(x, 2)
    if base == 'square':
        return a.square(x[0:1] + 1.0)
    if base == 'sumsqr':
        return a.sumsqr(x)
    if base == 'exp':
        return a.exp(x[0:1])
    if base == 'log':
        return a.log(x[0:1] + 3.0)
    if base == 'entropy':
        return a.entropy(x + 3.0)
    if base == 'softplus':
        return a.softplus(x[0:1])
    if base == 'maxof':
        return a.maxof(x[0], x[1] - 1.0, 0.5 * x[0] + 0.5 * x[1])
    if base == 'minof':
        return a.minof(x[0], x[1] - 1.0)
    if base == 'gmean':
        return a.gmean(x + 3.0)
    if base == 'power3':
        return a.power(x[0:1], 3)
    if base == 'pexp':
        return a.pexp(x[0:1], x[1:2] + 3.0)
    if base == 'plog':
        return a.plog(x[0:1] + 3.0, x[1:2] + 3.0)
    raise ValueError(base)


def chain_apply(f, chain, y):
    k = 1.0
    it = iter(chain)
    for op in it:
        if op == 'neg':
            f, k = -f, -k
        elif op == 'mul':
            c = next(it)
            f, k = f * c, k * c
        elif op == 'rmul':
            c = next(it)
            f, k = c * f, k * c
        elif op == 'add_c':
            f = f + next(it)
        elif op == 'rsub_c':
            f, k = next(it) - f, -k
        elif op == 'sub_aff':
            f = f - (2.0 * y - 1.0)
        elif op == 'rsub_aff':
            f, k = (y + 0.5) - f, -k
    return f, k


def chain_desc(a, spec):
    """k*atom(x) + affine (built by a chain of operations on the real expression) used on its convex side."""
    base, chain, form = spec['base'], spec['chain'], spec['form']
    x = a.dvar(2)
    y = a.dvar(())
    u = a.dvar(())
    a.st(a.ge(x, -1.0))
    a.st(a.le(x, 1.0))
    a.st(a.ge(y, -2.0))
    a.st(a.le(y, 2.0))
    a.st(a.ge(u, -60.0))
    a.st(a.le(u, 60.0))
    g, k = chain_apply(chain_atom(a, base, x), chain, y)
    convex = k * CHAIN_CURV[base] > 0
    if form == 'cons':
        a.st(a.le(g, u) if convex else a.ge(g, u))
        (a.min if convex else a.max)(u + 0.25 * y)
    elif form == 'rcons':
        a.st(a.ge(u, g) if convex else a.le(u, g))
        (a.min if convex else a.max)(u - 0.25 * y)
    else:
        (a.min if convex else a.max)(g)


def desc_from_spec(spec):
    atom, form = spec['atom'], spec['form']
    if atom == 'chain':
        return lambda a: chain_desc(a, spec)

    def desc(a):
        VA = vec_atoms()
        if atom == 'bcast':
            bcast_desc(a, spec['base'], form)
        elif atom in EXP_ATOMS:
            exp_desc(a, atom, form)
        elif atom in VA:
            f, curv, kind = VA[atom]
            x = a.dvar(2)
            u = a.dvar(())
            a.st(a.ge(x, -3.0))
            a.st(a.le(x, 3.0))
            a.st(a.ge(u, -20.0))
            a.st(a.le(u, 20.0))
            if kind == 'elem':
                arg = 2.0 * x - b2
            elif kind == 'vec2':
                arg = A2 @ x + b2
            else:
                arg = A32 @ x + b3
            h = f(a, arg)
            elem = kind == 'elem'
            lin = a.sum(np.array([1.0, -0.5]) * x)
            if curv < 0:
                # concave atom: mirror every form
                if form == 'le':
                    a.st(a.ge(h, u))
                    a.max(u + lin * 0.25)
                elif form == 'le_scaled':
                    a.st(a.ge(2.5 * h + lin, u))
                    a.max(u)
                elif form == 'ge_neg':
                    a.st(a.le(-h, -u))
                    a.max(u + lin * 0.25)
                elif form == 'obj':
                    a.max(h + lin)
                elif form == 'obj_scaled':
                    a.max(1.5 * h - 2.0)
                elif form == 'le_affine_rhs':
                    a.st(a.ge(h - lin, u - 1.0))
                    a.max(u)
                elif form == 'le_from_right':
                    a.st(a.le(u, h))
                    a.max(u + lin * 0.25)
                return
            if form == 'le':
                a.st(a.le(h, u))
                a.min(u + lin * 0.25)
            elif form == 'le_scaled':
                a.st(a.le(2.5 * h + lin, u))
                a.min(u)
            elif form == 'ge_neg':
                a.st(a.ge(-h, -u))
                a.min(u + lin * 0.25)
            elif form == 'obj':
                if elem:
                    a.st(a.le(h, u))
                    a.min(u)
                else:
                    a.min(h + lin)
            elif form == 'obj_scaled':
                if elem:
                    a.st(a.le(0.5 * h - 1.0, u))
                    a.min(u)
                else:
                    a.min(1.5 * h - 2.0)
            elif form == 'le_affine_rhs':
                a.st(a.le(h - lin, u + 1.0))
                a.min(u)
            elif form == 'le_from_right':
                a.st(a.ge(u, h))
                a.min(u + lin * 0.25)
        elif atom == 'power':
            p, q = spec['pq']
            x = a.dvar(2)
            u = a.dvar(2)
            a.st(a.ge(x, -2.0))
            a.st(a.le(x, 2.0))
            a.st(a.le(u, 40.0))
            h = a.power(x - np.array([0.5, -0.25]), p, q)
            if form == 'le':
                a.st(a.le(h, u))
                a.min(a.sum(u))
            elif form == 'le_scaled':
                a.st(a.le(2.0 * h - 1.0, u))
                a.min(a.sum(u))
            else:
                a.st(a.le(h, u))
                a.min(a.sum(u) + a.sum(np.array([0.5, -0.5]) * x))
        elif atom == 'powerarr':
            x = a.dvar(3)
            u = a.dvar(3)
            a.st(a.ge(x, -2.0))
            a.st(a.le(x, 1.0))
            a.st(a.le(u, 40.0))
            h = a.power(x - np.array([0.5, -0.25, 0.0]), np.array([1, 2, 3]), np.array([1, 1, 2]))
            if form == 'le':
                a.st(a.le(h, u))
                a.min(a.sum(u) + 0.5 * a.sum(x))
            elif form == 'le_scaled':
                a.st(a.le(2.0 * h - 1.0, u))
                a.min(a.sum(u) + 0.5 * a.sum(x))
            else:
                a.st(a.le(h, u))
                a.min(a.sum(u) + a.sum(np.array([0.5, -0.5, 0.25]) * x))
        elif atom == 'sobj':
            base, c = spec['base'], spec['c']
            x = a.dvar(2)
            a.st(a.ge(x, -1.0))
            a.st(a.le(x, 2.0))
            a.st(a.le(x[0] + x[1], 2.5))
            if base in ('norm1', 'norminf', 'norm2'):
                e = np.array([[1.0, 0.5], [-1.0, 2.0]]) @ x - np.array([4.0, 1.0])
                h = a.norm(e, {'norm1': 1, 'norminf': 'inf', 'norm2': 2}[base])
            else:
                e = x[0:1] * 1.0 + x[1:2] * 0.5 - 4.0
                h = {'abs': a.abs, 'square': a.square, 'power3': (lambda t: a.power(t, 3)),
                     'power11': (lambda t: a.power(t, 2, 2))}[base](e)
            a.min(c * h + a.sum(np.array([0.5, 0.25]) * x))
        elif atom in ('powerbc', 'powerbc2d'):
            if atom == 'powerbc':
                x = a.dvar(1)
                u = a.dvar(3)
                h = a.power(x - 0.5, np.array([2, 3, 1]), np.array([1, 2, 1]))
                w = np.array([1.0, 2.0, 0.5])
            else:
                x = a.dvar((2, 1))
                u = a.dvar((2, 2))
                h = a.power(x - np.array([[0.5], [-0.25]]), np.array([2, 3]), np.array([1, 1]))
                w = np.array([[1.0, 2.0], [0.5, 1.0]])
            a.st(a.ge(x, -2.0))
            a.st(a.le(x, 1.0))
            a.st(a.le(u, 40.0))
            if form == 'le':
                a.st(a.le(h, u))
                a.min(a.sum(w * u) + 0.5 * a.sum(x))
            elif form == 'le_scaled':
                a.st(a.le(2.0 * h - 1.0, u))
                a.min(a.sum(w * u) + 0.5 * a.sum(x))
            else:
                a.st(a.le(h, u))
                a.min(a.sum(w * u) - 0.75 * a.sum(x))
        elif atom == 'pnorm':
            aa, bb = spec['ab']
            x = a.dvar(2)
            u = a.dvar(())
            a.st(a.ge(x, -2.0))
            a.st(a.le(x, 2.0))
            a.st(a.le(u, 40.0))
            h = a.pnorm(x - np.array([0.5, -0.25]), aa, bb)
            if form == 'le':
                a.st(a.le(h, u))
                a.min(u)
            elif form == 'le_scaled':
                a.st(a.le(2.0 * h - 1.0, u))
                a.min(u)
            elif form == 'obj_scaled':
                a.min(0.5 * h + a.sum(np.array([0.5, -0.5]) * x))
            else:
                a.min(h + a.sum(np.array([0.5, -0.5]) * x))
        elif atom == 'gmean':
            beta = spec['beta']
            n = len(beta)
            x = a.dvar(n)
            u = a.dvar(())
            a.st(a.ge(x, 0.0))
            a.st(a.le(x, np.arange(1, n + 1) * 1.0))
            a.st(a.ge(u, -5.0))
            h = a.gmean(x, beta)
            if form == 'ge':
                a.st(a.ge(h, u))
                a.max(u - 0.25 * a.sum(x))
            elif form == 'ge_scaled':
                a.st(a.ge(2.0 * h - 0.5, u))
                a.max(u - 0.25 * a.sum(x))
            else:
                a.max(h - 0.25 * a.sum(x))
        elif atom == 'maxof':
            x = a.dvar(2)
            u = a.dvar(())
            a.st(a.ge(x, -3.0))
            a.st(a.le(x, 3.0))
            a.st(a.ge(u, -20.0))
            a.st(a.le(u, 20.0))
            p1, p2, p3 = x[0] * 1.0, 1.0 - x[0] + x[1] * 0.5, 2.0 * x[1] - 1.0
            if form == 'le':
                a.st(a.le(a.maxof(p1, p2, p3), u))
                a.min(u)
            elif form == 'obj':
                a.min(a.maxof(p1, p2, p3))
            elif form == 'ge_min':
                a.st(a.ge(a.minof(p1, p2, p3), u))
                a.max(u)
            else:
                a.max(a.minof(p1, p2, p3))
        elif atom == 'rsocone':
            x = a.dvar(2)
            y = a.dvar(())
            z = a.dvar(())
            a.st(a.le(y, 3.0))
            a.st(a.le(z, 2.0))
            a.st(a.ge(x, -3.0))
            a.st(a.le(x, 3.0))
            a.st(a.rsocone(x, y, z))
            a.min(y + z - a.sum(np.array([1.0, 0.5]) * x))
        elif atom == 'kldiv':
            p = a.dvar(3)
            r = a.dvar(())
            a.st(a.eq(a.sum(p), 1.0))
            a.st(a.ge(p, 0.0))
            a.st(a.le(r, 2.0))
            a.st(a.ge(r, 0.0))
            q = np.array([0.25, 0.25, 0.5])
            c = np.array([1.0, -0.5, 0.25])
            if form == 'const_r':
                a.st(a.kldiv(p, q, 0.125))
                a.min(a.sum(c * p))
            elif form == 'var_r':
                a.st(a.kldiv(p, q, r))
                a.min(a.sum(c * p) + 0.5 * r)
            elif form == 'scalar_q':
                a.st(a.kldiv(p, 0.5, r + 0.25))
                a.min(a.sum(c * p) + r)
            else:
                a.st(a.kldiv(2.0 * p[0:2] + 0.5 * p[2:3], q[0:2], r))
                a.min(a.sum(c * p) + 0.5 * r)
        elif atom == 'expcone':
            x = a.dvar(())
            y = a.dvar(())
            z = a.dvar(())
            for v in (x, y, z):
                a.st(a.ge(v, -2.0))
                a.st(a.le(v, 3.0))
            if form in ('vector_y', 'vector_y_affine'):
                # the left argument is an array: z*exp(x/z) <= y[i] for every i (entries need not be equal)
                w = a.dvar(3)
                a.st(a.ge(w, np.array([-4.0, 1.0, 2.5])))
                a.st(a.le(w, 8.0))
                a.st(a.ge(z, 0.5))
                a.st(a.le(x, 1.0))
                if form == 'vector_y':
                    a.st(a.expcone(w, x, z))
                else:
                    a.st(a.expcone(2.0 * w - y, x + 0.5, z))
                a.min(a.sum(np.array([1.0, 2.0, 0.5]) * w) - x + 0.25 * z + 0.125 * y)
            elif form == 'vars':
                a.st(a.expcone(y, x, z))
                a.st(a.ge(z, 0.5))
                a.min(y - x + 0.25 * z)
            elif form == 'affine':
                a.st(a.expcone(2.0 * y - x + 1.0, x + z, 0.5 * z + 1.0))
                a.min(y - 0.5 * x)
            else:
                a.st(a.expcone(y, x - z, 2.0))
                a.min(y - x + z)
        elif atom == 'bounds':
            # several bound objects on the same entries: all of them are constraints (bounds are intersected, whatever the
            # order of declaration)
            x = a.dvar(3)
            y = a.dvar(2)
            tight = [lambda: a.st(a.le(x[1], 1.0)), lambda: a.st(a.ge(x[0], 0.5)), lambda: a.st(a.le(y[0:1], -0.5)),
                     lambda: a.st(a.ge(y, np.array([-1.0, -3.0])))]
            loose = [lambda: a.st(a.le(x, 2.0)), lambda: a.st(a.ge(x, 0.0)), lambda: a.st(a.le(y, 1.0)),
                     lambda: a.st(a.ge(y, -2.0))]
            if form == 'tight_first':
                seq = tight + loose
            elif form == 'loose_first':
                seq = loose + tight
            else:
                seq = [f for pair in zip(loose, tight) for f in pair][::-1]
            for f in seq:
                f()
            a.max(a.sum(np.array([1.0, 1.0, 1.0]) * x) - a.sum(np.array([1.0, 2.0]) * y)) if form != 'loose_first' else \
                a.min(a.sum(np.array([1.0, 1.0, 1.0]) * x) - a.sum(np.array([1.0, 2.0]) * y))
        elif atom == 'latevar':
            x = a.dvar(3)
            a.st(a.ge(x, -1.0))
            a.st(a.le(x, 2.0))
            a.st(a.le(a.norm(x - np.array([0.4, 1.6, 0.5]), 1), 2.5))       # auxiliary columns
            a.max(a.sum(np.array([1.0, 1.0, 0.5]) * x))
            a.formulate(solve=form.endswith('solve'))
            vt = {'int': 'I', 'bin': 'B', 'cont': 'C'}[form.split('_')[0]]
            k = a.dvar(2, vt)
            a.st(a.ge(k, -1.0))
            a.st(a.le(k, 1.5))
            a.st(a.le(x[0:2], 0.75 * k))
            a.st(a.le(a.norm(x[1:3], 2), 1.75))                             # more auxiliary columns after the late ones
        elif atom == 'multi':
            x = a.dvar(3)
            u = a.dvar(())
            a.st(a.ge(x, -3.0))
            a.st(a.le(x, 3.0))
            a.st(a.le(a.norm(x[0:2], 2) + x[2], 2.0))
            a.st(a.le(a.abs(x - 0.5), np.array([2.0, 2.5, 3.0])))
            a.st(a.le(a.norm(x, 1), u))
            a.min(u - x[2] * 0.5)
        elif atom == 'intabs':
            x = a.dvar(2, 'I')
            u = a.dvar(())
            a.st(a.ge(x, -3.0))
            a.st(a.le(x, 3.0))
            a.st(a.le(a.norm(2.0 * x - np.array([0.5, 1.5]), 1), u))
            a.min(u)
    return desc
