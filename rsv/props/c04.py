"""C04 - the DRO reformulation is exact.

With S the semantic feasible set in the event-wise decisions and the epigraph variable (every plain
row at every scenario and support vertex, every E-row and the expected objective at every vertex
distribution of the weight polytope W, Lemma J) and P the real compiled program:
  (a) per block of P:   exists iface: S(iface) /\\ forall locals: not Block      -> unsat   (LRA)
  (b) exact optimum of P == exact optimum of  min t s.t. S  (z3 Optimize) == dro.Model.get()
which includes the two special cases named by the property: singleton supports with fixed
probabilities (sample-average problem) and a single scenario without expectation information (the
ro model of the same declaration, compiled by rsome.ro and compared as a program).
"""
from fractions import Fraction
import numpy as np

from ..poly import z3mod
from ..tv import project_block
from ..dromodels import CompiledDRO, dro_hold, piece_polys
from ..drogen import MAY_RAISE
from ..drogen import members, lookup
from ..smt import HarnessError, fval
from ..harness import finding
from ..util import quiet

PROP = 'C04'
LEVEL = 'translation_validation'
TIMEOUT_MS = 60000

META = dict(
    functions=['rsome.dro.Model.do_math/dro_to_roc/ro_to_roc/rule_var', 'rsome.dro.Ambiguity.mix_support',
               'rsome.lp.RoConstr.le_to_rc', 'rsome.dro.Model.solve/get', 'rsome.ro.Model.do_math (special case)'],
    rule='one case = one dro model; per compiled block one exists-forall projection obligation; exact-optimum '
         'equalities; special cases (SAA, single scenario = ro); non-trivial = model feasible and bounded and at least '
         'one projection obligation with local columns discharged; distinct by member name',
    bounds='as C03; blocks with > 30 local columns are stretch obligations',
    outside='as C03; expectation sets with cone constraints (mix_support forwards second-order cones only)',
    assumptions=['Lemma J, Lemma V', 'supports compact, expectation/probability sets non-empty (checked: W has vertices)'],
)


def cases(tier, seed, rnd):
    n = 12 if tier == 'quick' else 400
    from ..drogen import soc_members
    return [dict(name=n_) for n_ in members()] + [dict(name='rand%d' % rnd.randint(0, 10 ** 6)) for _ in range(n)] + \
        [dict(name=n_, conic=True) for n_ in soc_members(tier)] + \
        [dict(name='randsoc%d' % rnd.randint(0, 10 ** 6), conic=True) for _ in range(6 if tier == 'quick' else 60)]


# ------------------------------------------------------------------ conic supports / expectation sets: better-point witnesses
def conic_values(cm, rows, assign):
    """Worst-case value of every row at the decisions `assign` over the TRUE ambiguity set: by Lemma M (rsv.dromoments) the
    supremum of a convex piecewise-affine expectation over the set equals the optimum of a conic LP in the moments (solved
    with ECOS); plain rows: per scenario and piece one conic LP over the support (q = 1)."""
    from .. import dromoments as dm
    from .c03 import worst_realisation
    out = {}
    for row in rows:
        groups, sense = piece_polys(row['cons'])
        worst = None
        for g in groups:
            for sgn in ((1, -1) if sense == 'eq' else (1,)):
                gg = [q * sgn for q in g]
                if row['kind'] == 'E':
                    w = dm.worst_moments_ecos(cm, row['F'], gg, assign, len(gg))
                    if w is None:
                        return None
                    v = w[0]
                elif row['F'] is None or not any(q.subs(assign).degree() > 0 for s_ in range(cm.o.ns) for q in [cm.inst(pz, s_) for pz in gg]):
                    v = max(float(cm.inst(pz, s_).subs(assign).constant()) for s_ in range(cm.o.ns) for pz in gg)
                else:
                    v = None
                    for s_ in range(cm.o.ns):
                        for pz in gg:
                            inst = cm.inst(pz, s_).subs(assign)
                            z = worst_realisation(cm, row['F'], s_, inst)
                            if z is None:
                                return None
                            val = float(inst.evalf(z))
                            v = val if v is None or val > v else v
                worst = v if worst is None or v > worst else worst
        out[row['label']] = worst
    return out


def run_conic(case, ses):
    """Exactness probe for members with conic supports / expectation sets (no exists-forall decision procedure within reach):
    starting from the solution RSOME returns, a local search over the decisions looks for a point that is feasible for every
    row under its worst case (conic LPs over the true moment set) and whose worst-case objective is better than the reported
    optimum.  Such a point is a certificate that the reformulation is conservative (e.g. a constraint of an expectation set was
    dropped).  Numeric layer, reported separately; tolerance 1e-3 relative."""
    from scipy.optimize import minimize
    name = case['name']
    try:
        with quiet():
            cm = CompiledDRO(lookup(name))
            from rsome import eco_solver
            cm.r.m.solve(eco_solver, display=False)
            reported = float(cm.r.m.get())
    except HarnessError:
        raise
    except Exception as e:  # noqa
        ses.stats.kinds['member-rejected-or-unsolved'] = ses.stats.kinds.get('member-rejected-or-unsolved', 0) + 1
        return
    ses.stats.programs += 1
    sign = cm.o.obj[0]
    x = np.array(cm.r.m.solution.x, dtype=float)
    names = [n for n in cm.iface if n != 't']
    x0 = np.array([x[cm.iface[n]] for n in names])
    rows = cm.rows()
    objrow = [r for r in rows if r['label'] == 'obj'][0]
    others = [r for r in rows if r['label'] != 'obj']
    tval = reported * sign          # value of the epigraph variable of the internal min problem

    def asg(v):
        a = {n: Fraction(float(t)) for n, t in zip(names, v)}
        a['t'] = Fraction(0)
        return a

    def fobj(v):
        r = conic_values(cm, [objrow], asg(v))
        return 1e6 if r is None or r['obj'] is None else r['obj']

    def gcon(v):
        r = conic_values(cm, others, asg(v))
        if r is None:
            return -1e6
        return -max([t for t in r.values() if t is not None] + [-1e6])
    ses.stats.obligations += 1
    ses.stats.kinds['conic-better-point-search'] = ses.stats.kinds.get('conic-better-point-search', 0) + 1
    f0 = fobj(x0)
    margin = 1e-3 * (1 + abs(tval))
    best = None
    try:
        res = minimize(fobj, x0, method='SLSQP', constraints=[dict(type='ineq', fun=gcon)] if others else [],
                       options=dict(maxiter=40, ftol=1e-7, eps=1e-5))
        cand = res.x
        if gcon(cand) >= -1e-7 and fobj(cand) < tval - margin:
            best = cand
    except Exception as e:  # noqa
        ses.stats.notes.append('%s: local search failed: %s' % (name, str(e)[:60]))
    if best is not None:
        data = dict(name=name, conic=True, point={n: float(t) for n, t in zip(names, best)}, reported=reported)
        if replay(data):
            finding(ses, 'C04:%s:conic-conservative' % name, 'dro model %s: decisions %s are feasible for every row under its worst '
                    'case and have worst-case objective %.6g, better than the reported optimum %.6g'
                    % (name, data['point'], fobj(best) * sign, reported), data, 'rsv.props.c04:replay')
            return
    if f0 > tval + margin:
        ses.stats.notes.append('%s: worst-case objective at the returned point %.6g exceeds the reported %.6g (C03 territory)' % (name, f0, tval))
    ses.stats.discharged += 1
    ses.stats.nontrivial.add(name)
    if len(ses.stats.samples) < 8:
        ses.stats.samples.append(dict(model=name, reported=reported, worst_case_objective_at_returned_point=f0 * sign))


def semantic(cm, vs, z3):
    env = cm.env(vs)
    cache = {}
    S = []
    for row in cm.rows():
        S += dro_hold(cm, row, env, z3, cache)
    return S, env.defs, cache


def run_case(case, ses):
    z3 = z3mod()
    name = case['name']
    if case.get('conic'):
        return run_conic(case, ses)
    try:
        with quiet():
            cm = CompiledDRO(lookup(name))
    except HarnessError:
        raise
    except Exception as e:
        if name.startswith('rand') or name in MAY_RAISE:
            ses.stats.kinds['member-rejected-by-rsome'] = ses.stats.kinds.get('member-rejected-by-rsome', 0) + 1
            return
        raise
    ses.stats.programs += 1
    ses.stats.obligations += 1
    ses.stats.kinds['interface-injective'] = ses.stats.kinds.get('interface-injective', 0) + 1
    if cm.collisions:
        finding(ses, 'C04:%s:shared-column' % name, 'dro model %s: decisions / rule coefficients that the declaration leaves free to '
                'differ between events are one column of the compiled program (read back through get()): %s - the recourse is '
                'restricted, the reformulation conservative' % (name, cm.collisions[:3]), dict(name=name, collisions=cm.collisions),
                'rsv.props.c04:replay')
        return
    ses.stats.discharged += 1
    cp = cm.cp
    vs = cp.z3vars()
    P = cp.constraints(vs)
    S, Sdefs, cache = semantic(cm, vs, z3)
    iface_cols = sorted(set(cm.iface.values()))
    sign = cm.o.obj[0]
    with quiet():
        try:
            cm.r.m.solve(display=False)
            reported = cm.r.m.get()
        except Exception as e:
            reported = None
            ses.stats.notes.append('%s: solve/get failed: %s' % (name, str(e)[:60]))
    # ---- exact optima
    sp, vp = ses.optimum(P, vs[0], label=name + '/optP', ints=cp.int_vars(vs))
    so, vo = ses.optimum(S + Sdefs, vs[0], label=name + '/optS')
    ses.stats.obligations += 1
    ses.stats.kinds['exact-optimum'] = ses.stats.kinds.get('exact-optimum', 0) + 1
    if 'unknown' in (sp, so):
        ses.stats.undecided += 1
        ses.stats.core_undecided += 1
    elif (sp, vp) != (so, vo):
        data = dict(name=name, optP=str(vp), optS=str(vo), sp=sp, so=so)
        if replay(data):
            finding(ses, 'C04:%s:optimum' % name, 'dro model %s: compiled optimum %s (%s) but the worst-case-expectation '
                    'problem has %s (%s)' % (name, vp, sp, vo, so), data, 'rsv.props.c04:replay')
        else:
            raise HarnessError('C04 optimum mismatch does not reproduce: %s' % name)
    else:
        ses.stats.discharged += 1
        if sp == 'optimal':
            ses.stats.nontrivial.add(name)
        if len(ses.stats.samples) < 8:
            ses.stats.samples.append(dict(model=name, exact_optimum=str(vp), reported=reported,
                                          weight_vertices={F: len(c[2]) for F, c in cache.items()}))
    if sp == 'optimal' and reported is not None:
        ses.stats.obligations += 1
        ses.stats.kinds['reported-vs-exact'] = ses.stats.kinds.get('reported-vs-exact', 0) + 1
        if abs(float(vp) * sign - reported) > 1e-5 * (1 + abs(float(vp))):
            finding(ses, 'C04:%s:reported' % name, 'dro model %s: solve() reports %r, exact optimum %s' % (name, reported, vp * sign),
                    dict(name=name, optP=str(vp), optS=str(vo), sp=sp, so=so), 'rsv.props.c04:replay')
        else:
            ses.stats.discharged += 1
    # ---- projection per block
    blocks = cp.blocks(iface_cols)
    for bi, blk in enumerate(blocks):
        loc = sorted(blk['locals'])
        label = '%s/block%d(%dr,%dl)' % (name, bi, len(blk['rows']), len(loc))
        core = len(loc) <= (12 if name.startswith('rand') else 30)   # large blocks of seeded random members are stretch
        res, model = project_block(ses, cp, blk, vs, S + Sdefs, label, 'projection' if loc else 'projection-qf', core,
                                   twin=(bi == 0), sample=dict(model=name, rows=len(blk['rows']), locals=len(loc)))
        if res == 'sat':
            pt = {n: fval(model, vs[c]) for n, c in cm.iface.items()}
            data = dict(name=name, point={k: str(v) for k, v in pt.items()})
            if replay(data):
                finding(ses, 'C04:%s:block%d' % (name, bi), 'dro model %s: a decision that is safe for every distribution is cut '
                        'off by the compiled program' % name, data, 'rsv.props.c04:replay')
            else:
                raise HarnessError('C04 projection counterexample does not reproduce: %s' % label)
    bc = cp.bound_cons(vs, iface_cols)
    if bc:
        rb, mb = ses.oblige(name + '/iface-bounds', S + Sdefs, [z3.Not(z3.And(bc))], kind='projection-qf', twin=False)
        if rb == 'sat':
            pt = {n: fval(mb, vs[c]) for n, c in cm.iface.items()}
            data = dict(name=name, point={k: str(v) for k, v in pt.items()})
            if replay(data):
                finding(ses, 'C04:%s:iface-bounds' % name, 'dro model %s: a decision that is safe for every distribution violates the '
                        'bounds the compiled program puts on the user\'s columns' % name, data, 'rsv.props.c04:replay')
            else:
                raise HarnessError('C04 interface-bounds counterexample does not reproduce: %s' % name)
    if name == 'single_scenario_box':
        special_ro(ses, cm, vp)


def special_ro(ses, cm, vdro):
    """Single scenario without expectation information == the ro model of the same declaration."""
    from rsome import ro
    from ..cprog import CProg
    z3 = z3mod()
    A = np.array
    with quiet():
        m = ro.Model()
        x = m.dvar(2)
        z = m.rvar(2)
        m.minmax((A([-1.0, -2.0]) * x).sum() + (x * z).sum() * 0.5, z >= A([-1.0, -0.5]), z <= A([1.0, 2.0]))
        m.st(x.sum() + x @ A([[1.0, 0.0], [0.5, -1.0]]) @ z <= 6.0, x >= -4.0, x <= 4.0)
        f = m.do_math()
    P = CProg(f)
    vs = P.z3vars('r')
    st, v = ses.optimum(P.constraints(vs), vs[0], label='ro-special')
    ses.stats.obligations += 1
    ses.stats.kinds['special-case-ro'] = ses.stats.kinds.get('special-case-ro', 0) + 1
    if st == 'optimal' and v == vdro:
        ses.stats.discharged += 1
    else:
        finding(ses, 'C04:special-ro', 'single-scenario dro optimum %s differs from the ro model %s (%s)' % (vdro, v, st),
                dict(name='single_scenario_box', optP=str(vdro), optS=str(v), sp='optimal', so=st), 'rsv.props.c04:replay')


def replay(data, verbose=False):
    import scipy.optimize as opt
    name = data['name']
    with quiet():
        cm = CompiledDRO(lookup(name))
    if 'collisions' in data:
        if verbose:
            print('dro model %s: names sharing a column of the real compiled program: %s' % (name, cm.collisions))
        return bool(cm.collisions)
    if data.get('conic'):
        # the point is feasible for every row under its worst case over the TRUE set and its worst-case objective beats the
        # optimum the real solve() reports (re-solved here)
        with quiet():
            from rsome import eco_solver
            cm.r.m.solve(eco_solver, display=False)
            reported = float(cm.r.m.get())
        sign = cm.o.obj[0]
        a = {n: Fraction(float(t)) for n, t in data['point'].items()}
        a['t'] = Fraction(0)
        vals = conic_values(cm, cm.rows(), a)
        if vals is None:
            return False
        worst_other = max([v for k, v in vals.items() if k != 'obj' and v is not None] + [-1e9])
        if verbose:
            print('dro model %s: reported optimum %.6g; at the decisions %s every row holds under its worst case (max %.3g) and the '
                  'worst-case objective is %.6g' % (name, reported, data['point'], worst_other, vals['obj'] * sign))
        return worst_other <= 1e-6 and vals['obj'] < reported * sign - 1e-3 * (1 + abs(reported))
    f = cm.formula
    if 'point' in data:
        pt = {k: float(Fraction(v)) for k, v in data['point'].items()}
        lb = np.array(f.lb, dtype=float).copy()
        ub = np.array(f.ub, dtype=float).copy()
        for n, c in cm.iface.items():
            if n in pt:
                lb[c] = max(lb[c], pt[n] - 1e-9)
                ub[c] = min(ub[c], pt[n] + 1e-9)
        A = f.linear
        eq = f.sense == 1
        with quiet():
            res = opt.linprog(np.zeros(A.shape[1]), A_ub=A[~eq], b_ub=f.const[~eq], A_eq=A[eq] if eq.any() else None,
                              b_eq=f.const[eq] if eq.any() else None, bounds=list(zip(lb, ub)))
        if verbose:
            print('safe decision %s pinned into the real compiled program: status %d (2 = infeasible)' % (pt, res.status))
        return res.status == 2
    with quiet():
        cm.r.m.solve(display=False)
    try:
        rep = cm.r.m.get()
    except Exception:
        rep = None
    if verbose:
        print('dro model %s: solve() %r ; exact compiled optimum %s ; exact worst-case-expectation optimum %s (%s)'
              % (name, rep, data.get('optP'), data.get('optS'), data.get('so')))
    if data.get('so') == 'optimal':
        return rep is None or abs(rep - cm.o.obj[0] * float(Fraction(data['optS']))) > 1e-6
    return data.get('sp') != data.get('so')
