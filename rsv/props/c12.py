"""C12 - solution queries return the right numbers for the right objects.

Engine SI (symbolic solution injection): model.solution is replaced by a Solution whose vector is an
object array of symbolic entries; the REAL read-back code (`get()`, `__call__`) runs unchanged and
returns arrays of symbolic terms which z3 compares, for ALL values of the solution vector, with
  * the columns the same object denotes inside constraints (`to_affine()` / `rule_var()` one-hot rows)
    for variable read-back (arrays, slices, LDR intercepts and coefficient tables, dro per-scenario
    series with their labels, every partition and adapt() order),
  * NumPy applied to symbolic arrays for affine / bi-affine expression calls (realisations given by
    assign() on a rational grid, zero when omitted),
  * the mathematical definition of each atom for Convex.__call__ (concolic execution: every path of
    abs/max/sqrt comparisons is explored and decided separately).
"""
import itertools
from fractions import Fraction
import numpy as np
import scipy.sparse as sp

from ..poly import Poly, pvars, parr, z3mod
from ..smt import HarnessError, fval
from ..harness import finding
from ..util import quiet, sparse_object_matmul
from .. import concolic as cc
from ..oracle import OAtom, atom_phi, Z3Env
from . import c05

PROP = 'C12'
LEVEL = 'translation_validation'
TIMEOUT_MS = 20000

META = dict(
    functions=['rsome.lp.Vars.get', 'rsome.lp.VarSub (get/__call__)', 'rsome.lp.Affine.__call__', 'rsome.lp.RoAffine.__call__',
               'rsome.lp.Convex.__call__', 'rsome.lp.DecRule.get', 'rsome.lp.DecVar.get', 'rsome.lp.DecAffine.__call__',
               'rsome.lp.DecRoAffine.__call__', 'rsome.ro.Model.get', 'rsome.dro.Model.get/rule_var',
               'rsome.subroutines.event_dict'],
    rule='one case = one read-back scenario (variable/slice, expression template, atom, dro partition x adapt order); '
         'non-trivial = the real read-back returned a result and the solver decided equality of all its entries; '
         'distinct by label',
    bounds='variables of rank 0-3 (extents <= 3) with the C05 index expressions; expression templates of C05 (binary '
           'ops, matmul, indexing, unary, stacking) evaluated through __call__; atoms A,M,I,E,S,Q,X,L,F,P,T with multiplier '
           'and offset, <= 64 concolic paths each; dro: 2-4 scenarios, integer and string labels, every partition '
           'reachable by <= 3 adapt() calls in every order, static and affinely adaptive decisions',
    outside='p-norm atoms evaluated through numpy.linalg.norm on object arrays (N, G) ; DecConvex.__call__ for '
            'transcendental atoms',
    assumptions=['harness stub: scipy.sparse @ object arrays is computed densely (numeric operands use SciPy unchanged)',
                 'coefficient tables (DecRule.get(z), DecVar.get(z)) are float arrays with NaN: read back with a '
                 'sentinel solution x_k = k + 1/4 (each entry a distinct atom) instead of symbolic entries',
                 'LOG(1/u) = -LOG(u), EXP/LOG uninterpreted and shared with the oracle'],
)


def cases(tier, seed, rnd):
    cs = []
    # (a) variable and slice read-back
    for shape, idxs in c05.INDEXES.items():
        cs.append(dict(k='var', shape=shape, idxs=idxs))
    # (b) expression calls (C05 templates through __call__)
    items = [it for it in c05.gen_cases('quick', rnd) if it['t'] in ('binop', 'varvar', 'matmul', 'matmulvv', 'index', 'unary', 'tri')]
    rnd.shuffle(items)
    n = 400 if tier == 'quick' else 4000
    items = items[:n]
    for i in range(0, len(items), 40):
        cs.append(dict(k='call', items=items[i:i + 40], seed=seed))
    # (c) atoms
    for atom in ATOMS:
        # S and Q store sqrt(|c|): use a perfect square so that the float multiplier is exact
        for sign, mult, off in itertools.product((1, -1), (1, 2.25 if atom in ('S', 'Q') else 2.5), ('none', 'const', 'affine')):
            cs.append(dict(k='atom', atom=atom, sign=sign, mult=mult, off=off))
    # (d) LDR read-back
    for mask in ('all', 'first', 'slice', 'none'):
        for shape in ((), (2,), (2, 2)):
            cs.append(dict(k='ldr', mask=mask, shape=shape))
            if shape != () and mask != 'none':
                # the rule is used in a constraint first, ANOTHER random variable is declared afterwards: the tables
                # returned by get(z) are laid out for the number of random variables known at query time
                cs.append(dict(k='ldr', mask=mask, shape=shape, late=True))
    # (e) dro read-back
    for ns, labels in ((2, None), (3, None), (3, ['a', 'b', 'c']), (4, None)):
        if ns == 4 and tier == 'quick':
            continue
        cs.append(dict(k='dro', ns=ns, labels=labels))
    # (f) objective read-back
    cs.append(dict(k='objective'))
    return cs


ATOMS = ['A', 'M', 'I', 'E', 'S', 'Q', 'X', 'L', 'F', 'P', 'T2', 'T3', 'T32', 'PX', 'PL']


def run_case(case, ses):
    with sparse_object_matmul():
        {'var': run_var, 'call': run_call, 'atom': run_atom, 'ldr': run_ldr, 'dro': run_dro,
         'objective': run_objective}[case['k']](case, ses)


# ------------------------------------------------------------------ helpers
def inject(m, n, X=None, objval=0.0):
    from rsome.lp import Solution
    vec = X if X is not None else pvars('X', (n,))
    sol = Solution('symbolic', objval, vec, 0, 0.0)
    m.rc_model.solution = sol
    m.solution = sol
    return vec


def onehot_cols(aff):
    """Columns of an Affine whose rows are unit vectors (as produced by Vars/VarSub.to_affine)."""
    lin = sp.csr_matrix(aff.linear)
    cols = []
    for i in range(lin.shape[0]):
        r = lin.getrow(i)
        nz = [(j, c) for j, c in zip(r.indices, r.data) if c != 0]
        if len(nz) != 1 or nz[0][1] != 1 or np.any(np.asarray(aff.const) != 0):
            raise HarnessError('variable expression is not a unit selector')
        cols.append(int(nz[0][0]))
    return np.array(cols).reshape(np.asarray(aff.const).shape)


def decide_equal(ses, label, got, want, kind, names=None, extra=(), sample=None):
    """got / want: arrays (or scalars) of Poly; z3 decides entry-wise equality for all variable values."""
    z3 = z3mod()
    g, w = parr(got), parr(want)
    if g.shape != w.shape:
        return ('shape', 'shape %s, expected %s' % (g.shape, w.shape))
    gv, wv = list(g.reshape(-1)), list(w.reshape(-1))
    nm = set()
    for p in gv + wv:
        nm |= p.vars()
    env = {n: z3.Real(n) for n in nm}
    diffs = [a.z3(env) != b.z3(env) for a, b in zip(gv, wv)]
    if not diffs:
        return None
    res, model = ses.oblige(label, list(extra), [z3.Or(diffs)], kind=kind, twin=False, sample=sample)
    if res == 'sat':
        asg = {n: fval(model, env[n]) for n in nm}
        for i, (a, b) in enumerate(zip(gv, wv)):
            if a.eval(asg) != b.eval(asg):
                return ('value', 'entry %d is %s, expected %s' % (i, a, b))
        raise HarnessError('model does not separate: %s' % label)
    if res == 'unsat':
        ses.stats.nontrivial.add(label)
    return None


def report(ses, key, what, data):
    finding(ses, 'C12:' + key, what, data, 'rsv.props.c12:replay')


def numeric_X(n):
    return np.array([((7 * k + 3) % 11 - 5) / 4.0 for k in range(n)], dtype=float)


def checked_call(ses, label, m, n, X, fn, want, kind, sample, key, what, data, must_not_raise=False):
    """The query `fn` evaluated TWICE on the same objects with the symbolic solution injected: both results must equal
    `want` for all values of the solution vector (a query must not change what the next one returns).  If the real code
    cannot run on symbolic entries (in-place float arithmetic raises), the same two evaluations are made with a concrete
    solution vector and compared numerically with the oracle; only if the concrete run raises too is the query counted
    as a (loud) refusal."""
    try:
        inject(m, n, X)
        got1 = fn()
        got2 = fn()
    except Exception as e:
        Xn = numeric_X(n)
        try:
            inject(m, n, Xn)
            g1 = np.array(fn(), dtype=float)
            g2 = np.array(fn(), dtype=float)
        except Exception as e2:
            inject(m, n, X)
            if must_not_raise:
                # NumPy accepts the same index / query on an array: a read-back of a solved model must not raise
                ses.stats.obligations += 1
                report(ses, key, '%s raises %s: %s (with a concrete solution vector as well)' % (what, type(e2).__name__, str(e2)[:80]),
                       dict(data, numeric=True))
                return
            ses.stats.kinds['raises'] = ses.stats.kinds.get('raises', 0) + 1
            return
        finally:
            pass
        inject(m, n, X)
        asg = {'X[%d]' % k: Fraction(float(v)) for k, v in enumerate(Xn)}
        w = parr(want)
        wn = np.array([float(p.eval(asg)) for p in w.reshape(-1)]).reshape(w.shape)
        ses.stats.obligations += 1
        ses.stats.kinds[kind + '-numeric'] = ses.stats.kinds.get(kind + '-numeric', 0) + 1
        for tag, g in (('first', g1), ('second', g2)):
            if g.shape != wn.shape or not np.allclose(g, wn, atol=1e-9):
                report(ses, key, '%s (%s evaluation, concrete solution vector; symbolic injection raised %s): got %s, expected %s'
                       % (what, tag, type(e).__name__, np.round(g, 6).tolist(), np.round(wn, 6).tolist()), dict(data, numeric=True))
                return
        ses.stats.discharged += 1
        return
    for tag, got in (('', got1), ('#2', got2)):
        bad = decide_equal(ses, label + tag, got, want, kind, sample=sample)
        if bad:
            report(ses, key, '%s%s: %s' % (what, ' (second evaluation)' if tag else '', bad[1]), data)
            return


# ------------------------------------------------------------------ (a) variables and slices
def run_var(case, ses):
    from rsome import ro
    shape = tuple(case['shape'])
    with quiet():
        m = ro.Model()
        pad = m.dvar(2)
        x = m.dvar(shape)
        pad2 = m.dvar(1)
        m.min(pad.sum())
        m.st(x >= 0)
        f = m.do_math()
    ses.stats.programs += 1
    X = inject(m, f.linear.shape[1])
    want = X[onehot_cols(x.to_affine())]
    nX = f.linear.shape[1]
    for tag, fn in (('get', lambda: x.get()), ('call', lambda: x())):
        label = 'var%s.%s' % (shape, tag)
        checked_call(ses, label, m, nX, X, fn, want, 'variable-readback', dict(shape=list(shape), via=tag), label,
                     'x%s.%s()' % (shape, tag), dict(k='var', shape=list(shape), idx=None, via=tag))
    xa = x.to_affine() + 0.0
    checked_call(ses, 'var%s.affine-object' % (shape,), m, nX, X, (lambda: xa()), want, 'variable-readback',
                 dict(shape=list(shape), via='affine object called twice'), 'var%s.affine' % (shape,),
                 '(x%s + 0)() on one expression object' % (shape,), dict(k='var', shape=list(shape), idx=None, via='affine'))
    for ix in case['idxs']:
        idx = c05.parse_index(ix)
        try:
            sub = x[idx]
            wsub = want[idx]
        except Exception:
            continue
        for tag, fn in (('get', lambda: sub.get()), ('call', lambda: sub())):
            label = 'var%s[%s].%s' % (shape, ix, tag)
            checked_call(ses, label, m, nX, X, fn, wsub, 'slice-readback', dict(shape=list(shape), index=ix, via=tag),
                         'slice.%s' % tag, 'x%s[%s].%s()' % (shape, ix, tag), dict(k='var', shape=list(shape), idx=ix, via=tag),
                         must_not_raise=True)


# ------------------------------------------------------------------ (b) expression calls
def run_call(case, ses):
    from rsome.lp import RoAffine, Affine, Vars, DecRule, DecRuleSub
    for item in case['items']:
        rnd = c05.item_rnd(item, case['seed'])
        try:
            ctx, treal, tref = c05.build(item, rnd)
            real = treal()
            ref = parr(tref())
        except HarnessError:
            raise
        except Exception:
            ses.stats.kinds['raises'] = ses.stats.kinds.get('raises', 0) + 1
            continue
        ses.stats.programs += 1
        m = ctx.m
        with quiet():
            try:
                m.min(ctx.dvars[0].sum() if ctx.dvars else 0)
            except Exception:
                pass
        nX = m.rc_model.last
        inject(m, nX, ctx.X[:nX])
        # realisations: first random array assigned, others omitted (=> zero)
        zvals = {}
        assigns = []
        for k, z in enumerate(ctx.rvars):
            if k % 2 == 0:
                vals = np.array([rnd.choice([-1.5, -1, 0.5, 1, 2]) for _ in range(z.size)]).reshape(z.shape)
                if len(z.shape) == 1 and z.size >= 2 and rnd.random() < 0.5:
                    # the realisation is given for a SLICE only: the other components stay at zero
                    vals = np.array(vals, dtype=float)
                    vals[0] = 0.0
                    try:
                        assigns.append(z[1:].assign(vals[1:]))
                    except Exception:
                        assigns.append(z.assign(vals))       # slices may be refused: give the whole array instead
                else:
                    assigns.append(z.assign(vals))
                for j, v in enumerate(np.array(vals).reshape(-1)):
                    zvals['Z[%d]' % (z.first + j)] = Fraction(float(v))
        for j in range(c05.NZ):
            zvals.setdefault('Z[%d]' % j, Fraction(0))
        label = 'call:' + c05._label(item)
        if isinstance(real, (DecRule, DecRuleSub, RoAffine)):
            fn = (lambda: real(*assigns))
        elif isinstance(real, (Vars, Affine)):
            if real.model.mtype != 'R':
                continue
            fn = (lambda: real())
        else:
            continue
        want = np.empty(ref.shape, dtype=object)
        for idx in np.ndindex(*ref.shape) if ref.shape != () else [()]:
            want[idx] = ref[idx].subs(zvals)
        checked_call(ses, label, m, nX, ctx.X[:nX], fn, want, 'expression-call',
                     dict(template=c05._label(item)[:120], realisations=len(assigns)), label,
                     '%s: __call__' % c05._label(item), dict(k='call', item=item, seed=case['seed']))


# ------------------------------------------------------------------ (c) atoms through Convex.__call__
def atom_build(rso, m, x, atom):
    A = np.array([[1.0, -0.5, 0.0], [0.5, 1.0, -1.0]])
    b = np.array([0.5, -1.0])
    e = A @ x + b
    if atom == 'A':
        return abs(e), ('abs', None)
    if atom == 'M':
        return rso.norm(e, 1), ('norm1', None)
    if atom == 'I':
        return rso.norm(e, 'inf'), ('norminf', None)
    if atom == 'E':
        return rso.norm(e, 2), ('norm2', None)
    if atom == 'S':
        return rso.square(e), ('square', None)
    if atom == 'Q':
        return rso.sumsqr(e), ('sumsqr', None)
    if atom == 'X':
        return rso.exp(e), ('exp', None)
    if atom == 'L':
        return rso.log(e), ('log', None)
    if atom == 'F':
        return rso.softplus(e), ('softplus', None)
    if atom == 'P':
        return rso.entropy(e), ('entropy', None)
    if atom == 'T2':
        return rso.power(e, 2), ('power', (2, 1))
    if atom == 'T3':
        return rso.power(e, 3), ('power', (3, 1))
    if atom == 'T32':
        return rso.power(e, 3, 2), ('power', (3, 2))
    if atom == 'PX':
        return rso.pexp(e, 2.0), ('pexp', 2.0)
    if atom == 'PL':
        return rso.plog(e, 2.0), ('plog', 2.0)
    raise HarnessError(atom)


POS_ATOMS = ('L', 'P', 'PL')       # need a positive argument


def oracle_value(kind, params, args, env, z3):
    """z3 terms of phi(args) by definition (EXP/LOG uninterpreted, shared with the concolic run)."""
    if kind in ('exp', 'log', 'softplus', 'entropy', 'pexp', 'plog'):
        EXP, LOG = cc.ufun('EXP'), cc.ufun('LOG')
        if kind in ('pexp', 'plog'):
            sc = z3.RealVal(str(Fraction(float(params))))
            return [sc * (EXP if kind == 'pexp' else LOG)(t / sc) for t in args]
        if kind == 'exp':
            return [EXP(t) for t in args]
        if kind == 'log':
            return [LOG(t) for t in args]
        if kind == 'softplus':
            return [LOG(1 + EXP(t)) for t in args]
        return [-z3.Sum([t * LOG(t) for t in args])]
    a = OAtom(kind, np.array([Poly.var('a%d' % i) for i in range(len(args))], dtype=object), params=params)
    for i, t in enumerate(args):
        env.m['a%d' % i] = t
    return atom_phi(a, env)


def run_atom(case, ses):
    from rsome import ro
    import rsome as rso
    z3 = z3mod()
    atom, sign, mult, offk = case['atom'], case['sign'], case['mult'], case['off']
    label = 'atom%s sign=%s mult=%s off=%s' % (atom, sign, mult, offk)
    with quiet():
        m = ro.Model()
        x = m.dvar(3)
        y = m.dvar()
        h, (kind, params) = atom_build(rso, m, x, atom)
        coef = sign * mult
        expr = coef * h
        offc = 0.0
        if offk == 'const':
            expr = expr + 1.5
        elif offk == 'affine':
            expr = expr - 2 * y + 0.25
        m.min(y)
        m.st(x >= -1, x <= 1)
        f = m.do_math()
    ses.stats.programs += 1
    n = m.rc_model.last
    xs = [z3.Real('X%d' % j) for j in range(n)]
    A = np.array([[1.0, -0.5, 0.0], [0.5, 1.0, -1.0]])
    b = np.array([0.5, -1.0])
    xcols = list(range(x.first, x.first + 3))
    args = []
    for r in range(2):
        t = z3.RealVal(str(Fraction(float(b[r]))))
        for j in range(3):
            if A[r, j] != 0:
                t = t + z3.RealVal(str(Fraction(float(A[r, j])))) * xs[xcols[j]]
        args.append(t)
    assume = []
    for j in xcols + [y.first]:
        assume += [xs[j] >= -4, xs[j] <= 4]
    if atom in POS_ATOMS or atom == 'T32':
        assume += [t >= z3.RealVal('1/8') for t in args]

    def make_inputs(model):
        vec = np.empty(n, dtype=object)
        for j in range(n):
            vec[j] = cc.cv_from_model(model, xs[j], as_float=atom in ('E', 'X', 'L', 'F', 'P', 'T32', 'PX', 'PL'))
        return vec

    def fn(vec):
        inject(m, n, vec)
        return expr()
    paths = cc.explore(make_inputs, fn, assume, ses, max_paths=64, label=label)
    if not paths:
        raise HarnessError('no path explored: %s' % label)
    ses.stats.kinds['concolic-paths'] = ses.stats.kinds.get('concolic-paths', 0) + len(paths)
    env = Z3Env()
    phi = oracle_value(kind, params, args, env, z3)
    off = z3.RealVal(0)
    if offk == 'const':
        off = z3.RealVal('3/2')
    elif offk == 'affine':
        off = z3.RealVal('1/4') - 2 * xs[y.first]
    cf = z3.RealVal(str(Fraction(float(coef))))
    want = [cf * p + off for p in phi]
    raised = [p for p in paths if p['exc'] is not None]
    if raised and len(raised) == len(paths):
        ses.stats.kinds['call-raises'] = ses.stats.kinds.get('call-raises', 0) + 1
        ses.stats.notes.append('%s: __call__ raises %s' % (label, type(raised[0]['exc']).__name__))
        return
    for pi, p in enumerate(paths):
        if p['exc'] is not None:
            continue
        got = p['result']
        gl = list(np.array(got, dtype=object).reshape(-1)) if isinstance(got, np.ndarray) else [got]
        if len(gl) != len(want):
            report(ses, 'atom:%s:shape' % atom, '%s: __call__ returns %d entries, the atom has %d' % (label, len(gl), len(want)),
                   dict(k='atom', case=case))
            return
        diffs = [cc.z3v(g) != w for g, w in zip(gl, want)]
        res, model = ses.oblige('%s/path%d' % (label, pi), assume + p['pc'] + p['side'] + env.defs, [z3.Or(diffs)],
                                kind='atom-call', core=atom not in ('E', 'T32'), timeout_ms=15000,
                                sample=dict(atom=atom, coef=coef, offset=offk, path_conditions=len(p['pc'])))
        if res == 'sat':
            pt = [float(fval(model, t)) for t in xs]
            data = dict(k='atom', case=case, point=pt)
            if replay(data):
                report(ses, 'atom:%s:%s' % (atom, offk), '%s: Convex.__call__ differs from the definition at x=%s'
                       % (label, [round(v, 4) for v in pt]), data)
            else:
                raise HarnessError('atom counterexample does not reproduce: %s' % label)
            return
        if res == 'unsat':
            ses.stats.nontrivial.add(label)


# ------------------------------------------------------------------ (d) LDR read-back
def run_ldr(case, ses):
    from rsome import ro
    from rsome.lp import Solution
    shape, mask = tuple(case['shape']), case['mask']
    with quiet():
        m = ro.Model()
        pad = m.dvar(2)
        z1 = m.rvar(2)
        z2 = m.rvar(())
        y = m.ldr(shape)
        if mask == 'all':
            y.adapt(z1)
            y.adapt(z2)
        elif mask == 'first':
            y.adapt(z1[0])
        elif mask == 'slice':
            if shape == ():
                y.adapt(z2)
            else:
                y[0].adapt(z1[1])
                y.adapt(z2)
        late = bool(case.get('late'))
        zs = [z1, z2]
        if late:
            m.st(y >= -5)
            ya = y.to_affine()
            u = m.rvar(2)
            zs.append(u)
            m.minmax(pad.sum(), z1 >= -1, z1 <= 1, z2 >= 0, z2 <= 1, u >= 0, u <= 1)
            m.st(y <= 5, pad[0] >= u.sum())
        else:
            m.minmax(pad.sum(), z1 >= -1, z1 <= 1, z2 >= 0, z2 <= 1)
            m.st(y >= -5, y <= 5)
        f = m.do_math()
    ses.stats.programs += 1
    n = f.linear.shape[1]
    X = inject(m, n)
    label = 'ldr%s-%s%s' % (shape, mask, '-late-rvar' if late else '')
    if not late:
        ya = y.to_affine()
    from rsome.lp import RoAffine
    inter = ya.affine if isinstance(ya, RoAffine) else ya
    want = X[onehot_cols(inter)]
    bad = decide_equal(ses, label + '.get', y.get(), want, 'ldr-intercept', sample=dict(shape=list(shape), mask=mask))
    if bad:
        report(ses, 'ldr.get', '%s: y.get() %s' % (label, bad[1]), dict(k='ldr', case=case))
    if y.depend is None:
        return
    # coefficient tables: sentinel solution (float array with NaN cannot hold symbolic entries)
    sent = np.arange(n, dtype=float) + 0.25
    sol = Solution('sentinel', 0.0, sent, 0, 0.0)
    m.rc_model.solution = sol
    m.solution = sol
    R = sp.csr_matrix(ya.raffine.linear).toarray()          # rows (entry, component) -> coefficient column
    nr = ya.raffine.shape[1]
    for z in zs:
        ses.stats.obligations += 1
        ses.stats.kinds['ldr-coefficients(sentinel)'] = ses.stats.kinds.get('ldr-coefficients(sentinel)', 0) + 1
        got = np.array(y.get(z), dtype=float).reshape(y.size, -1)
        ok = True
        for e in range(y.size):
            for jj, zc in enumerate(range(z.first, z.first + z.size)):
                row = R[e * nr + zc] if zc < nr else np.zeros(R.shape[1])
                nz = np.nonzero(row)[0]
                g = got[e, jj]
                if zc < y.depend.shape[1] and y.depend[e, zc]:
                    ok = ok and len(nz) == 1 and abs(g - (nz[0] + 0.25)) < 1e-9
                else:
                    ok = ok and np.isnan(g) and len(nz) == 0
        if ok:
            ses.stats.discharged += 1
            ses.stats.nontrivial.add(label + '.coef')
        else:
            report(ses, 'ldr.get(z)', '%s: y.get(z) does not return the coefficient columns of the declared dependencies '
                   '(got %s)' % (label, got.tolist()), dict(k='ldr', case=case))


# ------------------------------------------------------------------ (e) dro read-back
def partitions_by_adapt(ns):
    """adapt() call sequences (lists of scenario-position lists) and the partition they produce."""
    out = [[]]
    pos = list(range(ns))
    for r in range(1, ns):
        for sub in itertools.combinations(pos, r):
            out.append([list(sub)])
            rest = [p for p in pos if p not in sub]
            for r2 in range(1, len(rest)):
                for sub2 in itertools.combinations(rest, r2):
                    out.append([list(sub), list(sub2)])
                    out.append([list(sub2), list(sub)])
    return out


def run_dro(case, ses):
    from rsome import dro
    from rsome import E
    import pandas as pd
    ns, labels = case['ns'], case['labels']
    seqs = partitions_by_adapt(ns)
    if ses.tier == 'quick':
        seqs = seqs[:40]
    for seq in seqs:
        for adaptive in (False, True):
            with quiet():
                m = dro.Model(labels if labels else ns)
                lab = list(m.series_scen.index)
                z = m.rvar(2)
                w = m.dvar(())
                x = m.dvar(2)
                pre_expr = 2.0 * x[1] - w + 0.5           # expression objects built BEFORE the adaptation is declared
                for ev in seq:
                    x.adapt([lab[p] for p in ev] if len(ev) > 1 else lab[ev[0]])
                if adaptive:
                    x[0].adapt(z[1])
                fset = m.ambiguity()
                for s in range(ns):
                    fset[lab[s]].suppset(z >= -1 - s, z <= 1 + s)
                fset.probset(m.p >= 0.05)
                m.minsup(E(w + x.sum()), fset)
                m.st(x >= -3, x <= 3, w >= 0)
                try:
                    f = m.do_math()
                except Exception as e:
                    raise HarnessError('dro family member failed to compile: %s' % e)
            ses.stats.programs += 1
            n = f.linear.shape[1]
            from rsome.lp import Solution, RoAffine
            X = pvars('X', (n,))
            sol = Solution('symbolic', 0.0, X, 0, 0.0)
            m.solution = sol
            m.ro_model.solution = sol
            m.ro_model.rc_model.solution = sol
            label = 'dro ns=%d labels=%s adapt=%s aff=%s' % (ns, 'str' if labels else 'int', seq, adaptive)
            rules = m.rule_var()
            got = x.get()
            nevents = len(seq) + (1 if sum(len(e) for e in seq) < ns else 0)
            # expected per scenario: the columns the decision denotes in that scenario's rule
            ok_series = isinstance(got, pd.Series)
            if nevents > 1 and not ok_series:
                report(ses, 'dro.get:type', '%s: x.get() is not a per-scenario series' % label, dict(k='dro', case=case, seq=seq))
                continue
            for s in range(ns):
                rs = rules[s]
                aff = rs.affine if isinstance(rs, RoAffine) else rs
                rows = aff[x.first:x.first + x.size]
                want = X[onehot_cols(rows)].reshape(x.shape)
                g = got.loc[lab[s]] if ok_series else got
                if ok_series and list(got.index) != lab:
                    report(ses, 'dro.get:labels', '%s: series index %s, scenarios %s' % (label, list(got.index), lab),
                           dict(k='dro', case=case, seq=seq))
                    break
                bad = decide_equal(ses, '%s/s%d' % (label, s), g, want, 'dro-variable-readback',
                                   sample=dict(scenarios=ns, adapt_calls=seq, scenario=str(lab[s])))
                if bad:
                    report(ses, 'dro.get', '%s: x.get()[%r] %s' % (label, lab[s], bad[1]), dict(k='dro', case=case, seq=seq))
                    break
            # coefficient tables per scenario (sentinel solution): labels and columns
            if adaptive:
                sent = np.arange(n, dtype=float) + 0.25
                sol2 = Solution('sentinel', 0.0, sent, 0, 0.0)
                m.solution = sol2
                m.ro_model.solution = sol2
                m.ro_model.rc_model.solution = sol2
                ses.stats.obligations += 1
                ses.stats.kinds['dro-coefficients(sentinel)'] = ses.stats.kinds.get('dro-coefficients(sentinel)', 0) + 1
                gz = x.get(z)
                okc = True
                for s in range(ns):
                    rs = rules[s]
                    val = gz.loc[lab[s]] if isinstance(gz, pd.Series) else gz
                    tab = np.array(val, dtype=float).reshape(x.size, -1)
                    R = sp.csr_matrix(rs.raffine.linear).toarray()
                    nr = rs.raffine.shape[1]
                    for e in range(x.size):
                        for j in range(z.size):
                            row = R[(x.first + e) * nr + z.first + j]
                            nz = np.nonzero(row)[0]
                            g_ = tab[e, j]
                            if len(nz) == 1:
                                okc = okc and abs(g_ - (nz[0] + 0.25)) < 1e-9
                            else:
                                okc = okc and np.isnan(g_)
                if okc:
                    ses.stats.discharged += 1
                else:
                    report(ses, 'dro.get(z)', '%s: x.get(z) does not return, per scenario label, the coefficient columns of that '
                           "scenario's rule" % label, dict(k='dro', case=case, seq=seq))
                m.solution = sol
                m.ro_model.solution = sol
                m.ro_model.rc_model.solution = sol
            # a convex function of a STATIC decision plus an event-wise one, evaluated with a concrete solution vector:
            # one value per scenario
            if not adaptive and nevents > 1:
                sent = (np.arange(n, dtype=float) % 7) - 2.5
                sol3 = Solution('concrete', 0.0, sent, 0, 0.0)
                m.solution = sol3
                m.ro_model.solution = sol3
                m.ro_model.rc_model.solution = sol3
                ses.stats.obligations += 1
                ses.stats.kinds['dro-convex-call(concrete)'] = ses.stats.kinds.get('dro-convex-call(concrete)', 0) + 1
                try:
                    cv = (abs(w - 3.0) + x[1])()
                    okv = isinstance(cv, pd.Series) and list(cv.index) == lab
                    for s in range(ns):
                        rs = rules[s]
                        col_w = onehot_cols(rs[w.first:w.first + 1])[0]
                        col_x = onehot_cols(rs[x.first + 1:x.first + 2])[0]
                        okv = okv and abs(float(cv.loc[lab[s]]) - (abs(sent[col_w] - 3.0) + sent[col_x])) < 1e-9
                except Exception:
                    okv = None
                if okv is None:
                    ses.stats.kinds['call-raises'] = ses.stats.kinds.get('call-raises', 0) + 1
                    ses.stats.obligations -= 1
                elif okv:
                    ses.stats.discharged += 1
                else:
                    report(ses, 'dro.convex-call', '%s: (abs(w - 3) + x[1])() does not return, per scenario, |w - 3| + x[1] of that '
                           'scenario (got %s)' % (label, cv), dict(k='dro', case=case, seq=seq))
                # the same expression under E(...): the values of an expectation expression of event-wise decisions are
                # per-scenario results too (labelled), never the value of the first scenario alone
                from rsome import E
                ses.stats.obligations += 1
                ses.stats.kinds['dro-expectation-call(concrete)'] = ses.stats.kinds.get('dro-expectation-call(concrete)', 0) + 1
                try:
                    ev = E(2.0 * x[1] - w + 0.5)()
                    oke = isinstance(ev, pd.Series) and list(ev.index) == lab
                    for s in range(ns):
                        rs = rules[s]
                        col_w = onehot_cols(rs[w.first:w.first + 1])[0]
                        col_x = onehot_cols(rs[x.first + 1:x.first + 2])[0]
                        oke = oke and abs(float(ev.loc[lab[s]]) - (2.0 * sent[col_x] - sent[col_w] + 0.5)) < 1e-9
                except Exception:
                    oke = None
                if oke is None:
                    ses.stats.kinds['call-raises'] = ses.stats.kinds.get('call-raises', 0) + 1
                    ses.stats.obligations -= 1
                elif oke:
                    ses.stats.discharged += 1
                else:
                    report(ses, 'dro.expectation-call', '%s: E(2*x[1] - w + 0.5)() does not return the per-scenario values of the '
                           'expression, labelled by scenario (got %r)' % (label, ev), dict(k='dro', case=case, seq=seq))
                m.solution = sol
                m.ro_model.solution = sol
                m.ro_model.rc_model.solution = sol
            # affine expression call per scenario (symbolic solution, realisation assigned)
            expr = 2.0 * x[1] - w + 0.5
            # ... and a bi-affine expression whose AFFINE part contains the adaptive entry: w*z0 + x0(z)
            expr2 = w * z[0] + x[0]
            try:
                val = expr(z.assign(np.array([0.5, -1.0])))
            except Exception as e:
                ses.stats.kinds['call-raises'] = ses.stats.kinds.get('call-raises', 0) + 1
                continue
            # the same expression (i) built before adapt() was called, (ii) through a slice of a slice
            twins = []
            for tn, tf in (('built before adapt()', lambda: pre_expr), ('slice of a slice x[1:][0]', lambda: 2.0 * x[1:][0] - w + 0.5),
                           ('slice of a slice x[::-1][0:1][0]', lambda: 2.0 * x[::-1][0:1][0] - w + 0.5)):
                try:
                    twins.append((tn, tf()(z.assign(np.array([0.5, -1.0])))))
                except Exception:
                    ses.stats.kinds['call-raises'] = ses.stats.kinds.get('call-raises', 0) + 1
            try:
                val2 = expr2(z.assign(np.array([0.5, -1.0])))
            except Exception as e:
                val2 = None
                ses.stats.kinds['call-raises'] = ses.stats.kinds.get('call-raises', 0) + 1
            # the same for entries / views of a bi-affine ARRAY w*z + x (indexing, reshape, transposition must keep the
            # expression's meaning - and its class, whose call substitutes the realisation in the affine part too)
            views = []
            try:
                e3 = w * z + x
                views = [('(w*z + x)[0]', lambda: e3[0], 0), ('(w*z + x)[1:][0]', lambda: e3[1:][0], 1),
                         ('(w*z + x).reshape((1, 2))[0, 1]', lambda: e3.reshape((1, 2))[0, 1], 1),
                         ('(w*z + x).reshape((2, 1)).T[0, 0]', lambda: e3.reshape((2, 1)).T[0, 0], 0)]
            except Exception:
                ses.stats.kinds['call-raises'] = ses.stats.kinds.get('call-raises', 0) + 1
            vals3 = []
            for vn, vf, ent in views:
                try:
                    vals3.append((vn, vf()(z.assign(np.array([0.5, -1.0]))), ent))
                except Exception:
                    ses.stats.kinds['call-raises'] = ses.stats.kinds.get('call-raises', 0) + 1
            for s in range(ns):
                rs = rules[s]
                if isinstance(rs, RoAffine):
                    Rm = parr(sp.csr_matrix(rs.raffine.linear).toarray()) @ X[:rs.raffine.linear.shape[1]]
                    Rm = Rm.reshape(rs.raffine.shape) + parr(rs.raffine.const)
                    base = parr(sp.csr_matrix(rs.affine.linear).toarray()) @ X[:rs.affine.linear.shape[1]] + parr(rs.affine.const)
                    xs_ = Rm @ np.array([0.5, -1.0][:Rm.shape[1]]) + base
                else:
                    xs_ = parr(sp.csr_matrix(rs.linear).toarray()) @ X[:rs.linear.shape[1]] + parr(rs.const)
                want = 2.0 * xs_[x.first + 1] - xs_[w.first] + 0.5
                g = val.loc[lab[s]] if isinstance(val, pd.Series) else val
                bad = decide_equal(ses, '%s/call/s%d' % (label, s), g, want, 'dro-expression-call')
                if bad:
                    report(ses, 'dro.call', '%s: expression call in scenario %r %s' % (label, lab[s], bad[1]),
                           dict(k='dro', case=case, seq=seq))
                    break
                stop = False
                for tn, tv in twins:
                    if nevents > 1 and not isinstance(tv, pd.Series):
                        report(ses, 'dro.call-twin', '%s: the expression %s, called, is not a per-scenario series' % (label, tn),
                               dict(k='dro', case=case, seq=seq))
                        stop = True
                        break
                    gt = tv.loc[lab[s]] if isinstance(tv, pd.Series) else tv
                    bad = decide_equal(ses, '%s/call-twin/%s/s%d' % (label, tn, s), gt, want, 'dro-expression-call')
                    if bad:
                        report(ses, 'dro.call-twin', '%s: expression %s called in scenario %r %s' % (label, tn, lab[s], bad[1]),
                               dict(k='dro', case=case, seq=seq))
                        stop = True
                        break
                if stop:
                    break
                if val2 is not None:
                    want2 = 0.5 * xs_[w.first] + xs_[x.first]
                    g2 = val2.loc[lab[s]] if isinstance(val2, pd.Series) else val2
                    bad = decide_equal(ses, '%s/call2/s%d' % (label, s), g2, want2, 'dro-expression-call')
                    if bad:
                        report(ses, 'dro.call-biaffine', '%s: (w*z0 + x0)(z=...) in scenario %r %s' % (label, lab[s], bad[1]),
                               dict(k='dro', case=case, seq=seq))
                        break
                stop = False
                for vn, v3, ent in vals3:
                    want3 = [0.5, -1.0][ent] * xs_[w.first] + xs_[x.first + ent]
                    g3 = v3.loc[lab[s]] if isinstance(v3, pd.Series) else v3
                    bad = decide_equal(ses, '%s/call3/%s/s%d' % (label, vn, s), g3, want3, 'dro-expression-call')
                    if bad:
                        report(ses, 'dro.call-biaffine-view', '%s: %s(z=...) in scenario %r %s' % (label, vn, lab[s], bad[1]),
                               dict(k='dro', case=case, seq=seq))
                        stop = True
                        break
                if stop:
                    break


# ------------------------------------------------------------------ (f) objective
def run_objective(case, ses):
    from rsome import ro, dro
    from rsome.lp import Solution
    z3 = z3mod()
    for front in ('ro', 'dro'):
        for sense in ('min', 'max'):
            with quiet():
                m = ro.Model() if front == 'ro' else dro.Model(2)
                x = m.dvar(2)
                (m.min if sense == 'min' else m.max)(x.sum())
                m.st(x >= -1, x <= 2)
                f = m.do_math()
            n = f.linear.shape[1]
            for objval in (2.5, -3.0, 0.0):
                sol = Solution('s', objval, np.zeros(n), 0, 0.0)
                if front == 'ro':
                    m.rc_model.solution = sol
                    m.solution = sol
                else:
                    m.solution = sol
                    m.ro_model.solution = sol
                    m.ro_model.rc_model.solution = sol
                ses.stats.obligations += 1
                ses.stats.kinds['objective-sense'] = ses.stats.kinds.get('objective-sense', 0) + 1
                want = objval if sense == 'min' else -objval
                if m.get() == want:
                    ses.stats.discharged += 1
                else:
                    report(ses, 'objective', '%s %s: get() = %r for compiled objective %r' % (front, sense, m.get(), objval),
                           dict(k='objective'))
    ses.stats.nontrivial.add('objective-ro')
    ses.stats.nontrivial.add('objective-dro')


# ------------------------------------------------------------------ replay
def replay(data, verbose=False):
    from rsome import ro
    import rsome as rso
    k = data['k']
    if k == 'var':
        shape = tuple(data['shape'])
        with quiet():
            m = ro.Model()
            x = m.dvar(shape)
            m.min(0 * (x.sum() if shape != () else x))
            f = m.do_math()
        from rsome.lp import Solution
        vals = np.arange(f.linear.shape[1], dtype=float) * 1.0
        sol = Solution('r', 0.0, vals, 0, 0.0)
        m.rc_model.solution = sol
        m.solution = sol
        full = np.array(vals[x.first:x.first + x.size]).reshape(shape)
        if data['idx'] is None:
            obj = (x.to_affine() + 0.0) if data['via'] == 'affine' else x
            want = full
        else:
            idx = c05.parse_index(data['idx'])
            obj = x[idx]
            want = full[idx]
        q = (lambda: obj.get()) if data['via'] == 'get' else (lambda: obj())
        first = np.array(q(), dtype=float)
        got = q()                                   # the second evaluation on the same object
        if np.shape(first) != np.shape(want) or not np.allclose(first, want):
            got = first
        if verbose:
            print('x%s[%s].%s() = %s ; expected %s' % (shape, data['idx'], data['via'], np.array(got).tolist(), np.array(want).tolist()))
        return np.shape(got) != np.shape(want) or not np.allclose(got, want)
    if k == 'atom':
        case = data['case']
        with quiet(), sparse_object_matmul():
            m = ro.Model()
            x = m.dvar(3)
            y = m.dvar()
            h, (kind, params) = atom_build(rso, m, x, case['atom'])
            expr = case['sign'] * case['mult'] * h
            if case['off'] == 'const':
                expr = expr + 1.5
            elif case['off'] == 'affine':
                expr = expr - 2 * y + 0.25
            m.min(y)
            f = m.do_math()
        if 'point' not in data:
            return True
        from rsome.lp import Solution
        pt = np.array(data['point'], dtype=float)
        sol = Solution('r', 0.0, pt, 0, 0.0)
        m.rc_model.solution = sol
        m.solution = sol
        got = np.array(expr(), dtype=float).reshape(-1)
        A = np.array([[1.0, -0.5, 0.0], [0.5, 1.0, -1.0]])
        b = np.array([0.5, -1.0])
        e = A @ pt[x.first:x.first + 3] + b
        from ..oracle import atom_eval
        a = OAtom(kind, np.array([Poly.var('a0'), Poly.var('a1')], dtype=object), params=params)
        phi = np.array(atom_eval(a, e), dtype=float)
        off = 1.5 if case['off'] == 'const' else ((0.25 - 2 * pt[y.first]) if case['off'] == 'affine' else 0.0)
        want = case['sign'] * case['mult'] * phi + off
        if verbose:
            print('atom %s at x=%s: __call__ = %s ; definition = %s' % (case['atom'], pt[x.first:x.first + 3].tolist(), got.tolist(), want.tolist()))
        return got.shape != want.shape or not np.allclose(got, want, rtol=1e-6, atol=1e-8)
    if verbose:
        print('replay: re-run ./rsv-check C12 --only for', k)
    return True
