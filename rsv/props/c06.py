"""C06 - every accepted constraint and the objective are enforced as written.

For deterministic models (no random variables) the real compiled program P must imply every
user constraint and the epigraph of the objective, for ALL P-feasible points:

    exists v: P(v) /\\ not user_constraint_k(iface(v))      -> unsat        (per constraint)
    exists v: P(v) /\\ sign*objective(iface(v)) > t         -> unsat

Atoms are given by their mathematical definition (abs/max by ite, squares as polynomials,
norm-2/power/p-norm/geometric mean by definitional algebraic equations).  A dropped or
mis-compiled constraint/objective makes the query sat; the model is replayed on the real
solver with an objective that steers into the violating region.
Layer B: the point returned by the real solve() satisfies the user's constraints when they are
evaluated directly, and model.get() equals the user's objective there.
"""
from fractions import Fraction
import numpy as np

from ..poly import z3mod, Poly
from ..cprog import MalformedProgram
from ..tv import Compiled, discharge_row
from ..oracle import cons_eval, OAtom
from .. import detgen
from ..smt import HarnessError, fval
from ..harness import finding
from ..util import quiet

PROP = 'C06'
LEVEL = 'translation_validation'
TIMEOUT_MS = 40000

META = dict(
    functions=['rsome.lp.Model.st/do_math', 'rsome.socp.Model.st/do_math', 'rsome.gcp.Model.st/do_math',
               'rsome.ro.Model.st/min/max/do_math', 'rsome.lp.Convex.__le__/__ge__/__add__/__mul__/__neg__',
               'rsome.lp.IPCone.to_pot/split/to_soc', 'rsome.lp.Affine.rsocone/quad/power/pnorm/gmean',
               'rsome.lp.PiecewiseConvex.__le__/__ge__'],
    rule='one case = one deterministic model: atom x syntactic form (constraint / scaled / negated / objective / '
         'affine rhs / written from the right); non-trivial = program feasible and every user constraint row decided; '
         'distinct by spec name',
    bounds='atoms: abs, 1/2/inf-norm, square, sumsqr, quad (PSD/NSD), power p/q in {2,3,3/2,4,4/3,5/2}, p-norm a/b in '
           '{3,3/2,4,5/2}, gmean weights up to [1,3,2], maxof/minof (3 pieces), rsocone; argument vectors <= 3 entries; '
           'affine maps inside, positive/negative scalings and affine offsets outside; ro front end (quick) and dro '
           'front end (thorough)',
    outside='exp-cone atoms are handled by the cone-term abstraction in a separate family (see evidence.notes); '
            'LMI/logdet/rootdet; larger argument vectors',
    assumptions=['quad(): sqrtm rounding => tolerance regime (interface boxed, margin 1e-6)',
                 'definitional encodings of sqrt / rational powers as real algebraic equations'],
)

TOL_ATOMS = ('quadpsd', 'quadnsd', 'quaddiag', 'quadnonsym', 'quadnonsym2', 'quadsing3', 'quadones3', 'quadrank1')
TOWER_ATOMS = ('power', 'powerarr', 'powerbc', 'powerbc2d', 'pnorm', 'gmean')


def cases(tier, seed, rnd):
    specs = detgen.core_specs()
    return [dict(spec=s) for s in specs]


def is_tol(spec):
    if spec['atom'] == 'chain':
        return spec['base'] in ('square', 'sumsqr') and any(isinstance(c, float) and abs(c) != 1.0 for c in spec['chain'])
    return spec['atom'] in TOL_ATOMS or (spec['form'] in ('le_scaled', 'obj_scaled') and spec['atom'] in ('square', 'sumsqr')) \
        or (spec.get('base') == 'square' and spec['form'] == 'bcast_scaled') \
        or (spec['atom'] == 'sobj' and spec.get('base') == 'square')


def run_case(case, ses):
    spec = case['spec']
    z3 = z3mod()
    tower = spec['atom'] in TOWER_ATOMS or spec.get('base') in ('power3', 'gmean')
    try:
        with quiet():
            cm = Compiled(detgen.desc_from_spec(spec), abstract_towers=tower, front=spec.get('front', 'ro'), style=spec.get('style'))
    except HarnessError:
        raise
    except MalformedProgram as e:
        data = dict(spec=spec, malformed=str(e))
        finding(ses, '%s:%s:malformed' % (PROP, spec['name']), 'model %s: %s' % (spec['name'], e), data,
                'rsv.props.%s:replay' % PROP.lower())
        return
    except Exception as e:
        if not spec.get('may_raise'):
            raise
        # RSOME refuses the expression loudly: allowed ("where an operation is not supported it raises")
        ses.stats.kinds['member-rejected-by-rsome'] = ses.stats.kinds.get('member-rejected-by-rsome', 0) + 1
        return
    ses.stats.programs += 1
    cp = cm.cp
    if tower:
        from ..towers import tower_theorem
        if not cm.pcalls:
            raise HarnessError('%s: no IPCone call was recorded' % spec['name'])
        for beta in sorted({tuple(c[2]) for c in cm.pcalls}):
            r = tower_theorem(ses, list(beta), 'sound')
            if isinstance(r, tuple):
                finding(ses, 'C06:tower:%s' % (list(beta),),
                        'IPCone(beta=%s).to_soc(): %s' % (list(beta), r[1]['what']), r[1], 'rsv.towers:replay_tower')
            elif r is not True:
                ses.stats.notes.append('tower theorem incomplete for beta=%s' % (list(beta),))
    vs = cp.z3vars()
    P = cp.constraints(vs)
    name = spec['name']
    eps, extra = 0, []
    if is_tol(spec):
        eps = Fraction(1, 10 ** 6)
        for n, c in cm.iface.items():
            extra += [vs[c] <= 64, vs[c] >= -64]
    r0, _ = ses.solve(P, label=name + '/feasible')
    if r0 != 'sat':
        raise HarnessError('family member %s: compiled program not feasible (%s)' % (name, r0))
    blocks = cp.blocks(cm.iface.values())
    rows = cm.rows()
    ok = True
    for row in rows:
        label = '%s/%s' % (name, row['label'])
        kind = 'atom-row' if row['cons'].is_atom() else 'lin-row'
        res, model = discharge_row(ses, cm, vs, P, blocks, row, label, kind, eps, extra,
                                   sample=dict(model=name, row=str(row['cons'])[:200]), block_timeout_ms=10000)
        if res == 'sat':
            ok = False
            vstar = [float(fval(model, v)) for v in vs]
            data = dict(spec=spec, row=row['label'], v=vstar)
            good, info = replay(data, want_info=True)
            if not good and (spec['atom'] in detgen.EXP_FAMILY or spec.get('base') in ('exp', 'log', 'entropy', 'softplus', 'pexp', 'plog')):
                # cone-term abstraction: the abstract model need not be a real point (phi is uninterpreted).
                # Look for a real one: solve the REAL compiled program (ECOS, true exp cone) for random linear
                # objectives over the user's columns and evaluate the user's constraint there.
                pt = numeric_cex(cm, row)
                if pt is not None:
                    data = dict(spec=spec, row=row['label'], v=pt)
                    good, info = replay(data, want_info=True)
                    if good:
                        finding(ses, 'C06:%s:%s' % (name, row['label']),
                                'model %s: the real compiled program admits a point violating the user constraint %s by %.3g'
                                % (name, row['label'], info['viol']), data, 'rsv.props.c06:replay')
                        continue
                ses.stats.undecided += 1
                ses.stats.notes.append('abstract counterexample without a real witness (undecided): %s' % label)
                ses.dismiss_last('model of an abstraction (uninterpreted exp) without a real witness')
                continue
            if not good:
                raise HarnessError('C06 counterexample does not reproduce: %s (%s)' % (label, info))
            finding(ses, 'C06:%s:%s' % (name, row['label']),
                    'model %s: the compiled program admits a point violating the user constraint %s by %.3g'
                    % (name, row['label'], info['viol']), data, 'rsv.props.c06:replay')
        elif res != 'unsat':
            ok = False
    if ok:
        ses.stats.nontrivial.add(name)
    layer_b(ses, spec, cm, rows)


def numeric_cex(cm, row, tries=24):
    import random
    from rsome.gcp import GCProg
    from rsome import eco_solver
    f = cm.formula
    rnd = random.Random(7)
    cols = sorted(set(cm.iface.values()))
    for k in range(tries):
        obj = np.zeros(f.linear.shape[1])
        for c in cols:
            obj[c] = rnd.choice([-1, 1, 0.5, -0.5, 0, 2, -2])
        g = GCProg(f.linear, f.const, f.sense, f.vtype, f.ub, f.lb, f.qmat, f.xmat, [], obj)
        with quiet():
            try:
                sol = eco_solver.solve(g, display=False)
            except Exception:
                continue
        if sol is None or sol.x is None:
            continue
        assign = {n: float(sol.x[c]) for n, c in cm.iface.items()}
        if cons_eval(row['cons'], assign) > 1e-5:
            return [float(t) for t in sol.x]
    return None


def layer_b(ses, spec, cm, rows):
    name = spec['name']
    if cm.pcalls:
        with quiet():
            cm = Compiled(detgen.desc_from_spec(spec), front=spec.get('front', 'ro'), style=spec.get('style'))
    m = cm.r.m
    with quiet():
        try:
            if cm.cp.qmat or cm.cp.xmat:
                from rsome import eco_solver as solver
                m.solve(solver, display=False)
            else:
                m.solve(display=False)
            val = m.get()
            if spec.get('front') == 'gcp' and cm.o.obj[0] < 0:
                val = -val      # the stand-alone front of the harness states max f as min t, -f <= t: get() is -max
        except Exception as e:
            ses.stats.notes.append('%s: solve failed: %s' % (name, str(e)[:80]))
            return
    x = np.array(m.solution.x, dtype=float)
    assign = {n: float(x[c]) for n, c in cm.iface.items()}
    ses.stats.obligations += 1
    ses.stats.kinds['solver-point'] = ses.stats.kinds.get('solver-point', 0) + 1
    worst = max(cons_eval(r['cons'], assign) for r in rows if r['label'].split('.')[0] != 'obj')
    sign, e, _ = cm.o.obj
    if isinstance(e, OAtom):
        from ..oracle import OCons, osub
        # objective value at the point: solve  sign*e - t == 0 for t numerically
        a0 = dict(assign)
        a0['t'] = 0.0
        objv = cons_eval(OCons(osub(e * sign, Poly.var('t')), 'le'), a0)
    else:
        from ..poly import parr
        objv = sign * parr(e).reshape(-1)[0].evalf(assign)
    gap = abs(sign * objv - val)
    if worst > 1e-5 or gap > 1e-5 * (1 + abs(val)):
        data = dict(spec=spec, row='solver-point', v=[float(t) for t in x])
        finding(ses, 'C06:%s:solver-point' % name,
                'model %s: solve() returns a point violating a user constraint by %.3g / objective mismatch %.3g '
                '(get()=%r, direct evaluation %r)' % (name, worst, gap, val, sign * objv), data, 'rsv.props.c06:replay')
    else:
        ses.stats.discharged += 1


def replay(data, verbose=False, want_info=False):
    """v* is accepted by the real compiled program (exact check of rows, bounds, cones) and the
    user's constraint evaluated directly at its user-variable part is violated."""
    spec = data['spec']
    if 'malformed' in data:
        try:
            with quiet():
                Compiled(detgen.desc_from_spec(spec), front=spec.get('front', 'ro'), style=spec.get('style'))
        except MalformedProgram as e:
            if verbose:
                print('model %s: %s' % (spec['name'], e))
            return (True, {}) if want_info else True
        return (False, {}) if want_info else False
    with quiet():
        cm = Compiled(detgen.desc_from_spec(spec), abstract_towers=((spec['atom'] in TOWER_ATOMS or spec.get('base') in ('power3', 'gmean')) and data['row'] != 'solver-point'), front=spec.get('front', 'ro'), style=spec.get('style'))
    v = data['v']
    info = {}
    rows = cm.rows()
    assign = {n: v[c] for n, c in cm.iface.items()}
    if data['row'] == 'solver-point':
        with quiet():
            from rsome import eco_solver as solver
            cm.r.m.solve(solver if (cm.cp.qmat or cm.cp.xmat) else None, display=False)
        x = np.array(cm.r.m.solution.x, dtype=float)
        assign = {n: float(x[c]) for n, c in cm.iface.items()}
        worst = max(cons_eval(r['cons'], assign) for r in rows if r['label'].split('.')[0] != 'obj')
        if verbose:
            print('solve() point: worst user-constraint violation %.3g, get()=%r' % (worst, cm.r.m.get()))
        info['viol'] = worst
        return (True, info) if want_info else True
    bad = cm.cp.check_point(v, tol=Fraction(1, 10 ** 6) if cm.cp.xmat else Fraction(1, 10 ** 7))
    info['program_violations'] = bad[:3]
    if bad:
        if verbose:
            print('point rejected by the real compiled program:', bad[:3])
        return (False, info) if want_info else False
    row = [r for r in rows if r['label'] == data['row']][0]
    viol = cons_eval(row['cons'], assign)
    info['viol'] = viol
    if verbose:
        print('model %s: point accepted by the real compiled program; user constraint %s = %s violated by %.6g'
              % (spec['name'], data['row'], row['cons'], viol))
    ok = viol > 1e-7
    return (ok, info) if want_info else ok
