"""C09 - sets and expressions do not leak: results are independent of build history.

A history H is a sequence of API calls ending in the same declared model (defining other sets before /
between / after, attaching sets late and in reverse order, formulating primal and dual and solving
between st() calls, declaring further variables after a formulation, re-using one expression object in
several constructs).  The history is replayed on the REAL side only; the oracle sees the declared
model.  The program compiled after H must (i) imply every semantic row for all compiled-feasible
points and all realisations / distributions (C01/C03 obligations), (ii) be exact (C02/C04
obligations: exists-forall projection per block, exact optimum), and (iii) have the same exact
optimum as the program compiled from a fresh top-to-bottom build.  Histories may legitimately change
column order and add unused columns, which is why equality of denoted sets - decided by the solver -
is the oracle, not equality of matrices.
"""
from fractions import Fraction
import copy

from ..poly import z3mod
from ..rogen import core_specs, desc_from_spec
from ..tv import Compiled
from ..dromodels import CompiledDRO
from ..smt import HarnessError
from ..harness import finding
from ..util import quiet
from . import c01, c02, c03, c04
import numpy as np

PROP = 'C09'
LEVEL = 'translation_validation'
TIMEOUT_MS = 60000

HISTORIES = ['objective_first', 'decoy_sets', 'late_forall', 'formulate_between', 'solve_between', 'extra_decl']
RO_MEMBERS = ['static-box', 'static-forall', 'static-norm1', 'ldr-mask', 'ldr-eq', 'static-maxof', 'static-lifted',
              'static-ball', 'static-linset', 'two-rvars', 'static-box-zero-lb', 'static-vector', 'pw-row-own-set',
              'same-pw-constraint-two-sets-deferred']

META = dict(
    functions=['rsome.ro.Model.st/minmax/maxmin/do_math/solve/reset', 'rsome.lp.RoConstr.forall', 'rsome.socp.Model.reset',
               'rsome.gcp.Model.reset/do_math', 'rsome.lp.Model.do_math (formula caches, aux rollback)',
               'rsome.dro.Model.do_math/rule_var', 'rsome.dro.Ambiguity.mix_support', 'rsome.lp.ExpPiecewiseConvex.__init__'],
    rule='one case = (model, history); obligations of C01/C02 (ro) resp. C03/C04 (dro) on the program compiled after '
         'the history + equality of exact optima with the fresh build; non-trivial = program feasible, rows decided, '
         'optimum compared; distinct by (model, history)',
    bounds='12 ro members x 6 histories (+ pairs of histories in thorough), 6 dro histories; history length <= 10 calls; 5 expression-reuse members (one Affine / RoAffine / decision-rule object indexed or summed in one constraint, then reshaped / transposed / flattened in another, both orders, against a fresh object per use)',
    outside='histories involving soc_solve (C18), other solvers than the default inside the history',
    assumptions=['as C01-C04'],
)


def cases(tier, seed, rnd):
    cs = []
    specs = {s['name']: s for s in core_specs()}
    for nm in RO_MEMBERS:
        for h in HISTORIES:
            cs.append(dict(k='ro', name=nm, hist=[h]))
    if tier == 'thorough':
        for nm in RO_MEMBERS:
            for h1 in HISTORIES:
                for h2 in HISTORIES:
                    if h1 < h2 and not ({h1, h2} == {'late_forall', 'decoy_sets'}):
                        cs.append(dict(k='ro', name=nm, hist=[h1, h2]))
    for nm in dro_histories():
        cs.append(dict(k='dro', name=nm))
    for v in LATE_RVAR:
        cs.append(dict(k='late-rvar', name=v))
    for v in EXPR_REUSE:
        cs.append(dict(k='expr-reuse', name=v))
    for v in EMPTY_SET:
        cs.append(dict(k='empty-set', name=v))
    for v in CALLER_LIST:
        cs.append(dict(k='caller-list', name=v))
    return cs


def run_case(case, ses):
    if case['k'] == 'ro':
        return run_ro(case, ses)
    if case['k'] == 'late-rvar':
        return run_late_rvar(case, ses)
    if case['k'] == 'expr-reuse':
        return run_expr_reuse(case, ses)
    if case['k'] == 'empty-set':
        return run_empty_set(case, ses)
    if case['k'] == 'caller-list':
        return run_caller_list(case, ses)
    return run_dro(case, ses)


def run_ro(case, ses):
    specs = {s['name']: s for s in core_specs()}
    base = specs[case['name']]
    spec = copy.deepcopy(base)
    spec['history'] = list(case['hist'])
    spec['name'] = '%s+%s' % (base['name'], '+'.join(case['hist']))
    if 'late_forall' in case['hist'] and not any(r.get('set') is not None for r in base.get('rows', [])):
        spec['history'].append('decoy_sets')
    n0 = len(ses.findings)
    sub = dict(spec=spec)
    c01.run_case(sub, ses)
    c02.run_case(sub, ses)
    # pairwise: exact optimum after the history == exact optimum of the fresh build
    with quiet():
        fresh = Compiled(desc_from_spec(base))
        after = Compiled(desc_from_spec(spec))
    if not fresh.cp.qmat and not after.cp.qmat:
        va, vb = fresh.cp.z3vars('f'), after.cp.z3vars('h')
        s1, v1 = ses.optimum(fresh.cp.constraints(va), va[0], ints=fresh.cp.int_vars(va))
        s2, v2 = ses.optimum(after.cp.constraints(vb), vb[0], ints=after.cp.int_vars(vb))
        ses.stats.obligations += 1
        ses.stats.kinds['optimum-vs-fresh-build'] = ses.stats.kinds.get('optimum-vs-fresh-build', 0) + 1
        if 'unknown' in (s1, s2):
            ses.stats.undecided += 1
        elif (s1, v1) == (s2, v2):
            ses.stats.discharged += 1
        else:
            finding(ses, 'C09:%s:optimum' % spec['name'], 'model %s: optimum after history %s is %s (%s), fresh build %s (%s)'
                    % (base['name'], case['hist'], v2, s2, v1, s1), dict(k='ro', spec=spec, sub=None), 'rsv.props.c09:replay')
    rekey(ses, n0, spec['name'])


# ------------------------------------------------------------------ random variables declared after a set was compiled
LATE_RVAR = ['default-set-scalar', 'default-set-vector', 'forall-set', 'default-set-constant-coefficient',
             'aux-set-then-lp-set', 'aux-forall-set-then-lp-set']


def late_rvar_model(variant, late):
    """The same declared model with the second random variable declared before everything (late=False) or after the
    objective / the first constraint with its set were handed to the model (late=True).  No set mentions it: it is unrestricted."""
    from rsome import ro
    import rsome as rso
    if variant in ('aux-set-then-lp-set', 'aux-forall-set-then-lp-set'):
        # a set WITH auxiliary columns (1-norm) is compiled, then a set without any, then the random variable is declared: it
        # must not be taken for an auxiliary column of the older set
        m = ro.Model()
        x = m.dvar()
        y = m.dvar()
        z = m.rvar(2)
        w_ = None if late else m.rvar()
        S1 = (rso.norm(z, 1) <= 1.5,)
        if variant == 'aux-set-then-lp-set':
            m.minmax(-x + y + 0 * z[0], *S1)
            c_old = None
        else:
            m.min(-x + y)
            c_old = (x * z[1] - 8 * y <= 12).forall(*S1)
        m.st((x * z[0] - y <= 100).forall(z >= 0, z <= 1))
        if late:
            w_ = m.rvar()
        if c_old is None:
            m.st(x * w_ - 2 * y <= 5)
        else:
            m.st((x * w_ + x * z[1] - 8 * y <= 12).forall(*S1) if not late else ((x * w_ - 8 * y) + x * z[1] <= 12).forall(*S1))
        m.st(x <= 10, x >= 0, y >= 0, y <= 5)
        return m
    m = ro.Model()
    x = m.dvar()
    y = m.dvar()
    w = m.dvar(2)
    z1 = m.rvar()
    n2 = 2 if variant == 'default-set-vector' else None
    mk = (lambda: m.rvar(n2)) if n2 else (lambda: m.rvar())
    z2 = None if late else mk()
    S = (abs(z1) <= 1,)
    if variant == 'forall-set':
        m.min(-x + y + w.sum())
        m.st((z1 * y - x + w[0] <= 4).forall(*S))
    else:
        m.minmax(-x + y + z1 * y + w.sum(), *S)
    m.st(x <= 5, x >= 0, y >= 0, y <= 5, w >= -1, w <= 3)
    if late:
        m.do_math()
        z2 = mk()
    if variant == 'default-set-scalar':
        m.st(x * z2 + y >= 1)
    elif variant == 'default-set-vector':
        m.st(x * z2[0] + w[0] * z2[1] + y + w[1] >= 1)
    elif variant == 'forall-set':
        m.st((x * z2 + y + z1 * w[1] >= 1).forall(*S))
    else:
        m.st(2.0 * z2 + x * z2 + y >= 1)        # only x = -2 would do: infeasible within the bounds
    return m


def run_late_rvar(case, ses):
    from ..cprog import CProg
    v = case['name']
    res = {}
    for late in (False, True):
        with quiet():
            P = CProg(late_rvar_model(v, late).do_math())
        vs = P.z3vars('l' if late else 'e')
        res[late] = ses.optimum(P.constraints(vs), P.obj_term(vs), label='late-rvar/%s/%s' % (v, late))
        ses.stats.programs += 1
    ses.stats.obligations += 1
    ses.stats.kinds['optimum-vs-fresh-build'] = ses.stats.kinds.get('optimum-vs-fresh-build', 0) + 1
    if 'unknown' in (res[False][0], res[True][0]):
        ses.stats.undecided += 1
    elif res[False] == res[True]:
        ses.stats.discharged += 1
        ses.stats.nontrivial.add('late-rvar:' + v)
    else:
        finding(ses, 'C09:late-rvar:%s' % v, 'model %s: random variable declared after the set was compiled: optimum %s (%s), '
                'declared before: %s (%s)' % (v, res[True][1], res[True][0], res[False][1], res[False][0]),
                dict(k='late-rvar', name=v), 'rsv.props.c09:replay')


# ------------------------------------------------------------------ an EMPTY set description after another set was compiled
EMPTY_SET = ['forall-empty', 'minmax-empty', 'forall-empty-after-abs-set']


def empty_set_model(variant, earlier):
    """forall() / minmax(obj) without any set constraint mean 'z unrestricted', whatever set was compiled before (earlier=True:
    another constraint with a bounded set was built first and never given to the model)."""
    from rsome import ro
    import rsome as rso
    m = ro.Model()
    x = m.dvar()
    y = m.dvar()
    z = m.rvar()
    if earlier:
        if variant == 'forall-empty-after-abs-set':
            (x * z <= 1).forall(abs(z - 3) <= 1)
        else:
            (x * z <= 1).forall(z >= 2, z <= 4)
    if variant == 'minmax-empty':
        m.minmax(-1.0 * y + x * z)
        m.st(x >= -1, x <= 10, y <= 3, y >= 0)
    else:
        m.max(x + y)
        m.st(x <= 10, x >= -10, y <= 3, y >= 0)
        m.st((x * z <= 2).forall())
    return m


def run_empty_set(case, ses):
    from ..cprog import CProg
    v = case['name']
    res = {}
    for earlier in (False, True):
        with quiet():
            P = CProg(empty_set_model(v, earlier).do_math())
        vs = P.z3vars('a' if earlier else 'b')
        res[earlier] = ses.optimum(P.constraints(vs), P.obj_term(vs), label='empty-set/%s/%s' % (v, earlier))
        ses.stats.programs += 1
    ses.stats.obligations += 1
    ses.stats.kinds['optimum-vs-fresh-build'] = ses.stats.kinds.get('optimum-vs-fresh-build', 0) + 1
    if 'unknown' in (res[False][0], res[True][0]):
        ses.stats.undecided += 1
    elif res[False] == res[True]:
        ses.stats.discharged += 1
        ses.stats.nontrivial.add('empty-set:' + v)
    else:
        finding(ses, 'C09:empty-set:%s' % v, 'model %s: a set description without constraints after another set was compiled: '
                'optimum %s (%s), from scratch: %s (%s)' % (v, res[True][1], res[True][0], res[False][1], res[False][0]),
                dict(k='empty-set', name=v), 'rsv.props.c09:replay')


# ------------------------------------------------------------------ a caller-owned LIST of set constraints, changed afterwards
CALLER_LIST = ['ro-forall-replace', 'ro-forall-append', 'ro-minmax-append', 'dro-forall-replace', 'dro-forall-append',
               'dro-forall-append-after-formulation']


def caller_list_model(variant, mutated):
    """The set of a robust constraint / objective is what the list held WHEN IT WAS GIVEN to forall() / minmax(): the caller
    re-uses the list object afterwards (replaces an item, appends a row - e.g. to build the set of the next constraint).
    mutated=False: the same model with the list never touched."""
    from rsome import ro, dro
    front, call, how = variant.split('-', 2)
    if front == 'ro':
        m = ro.Model()
        x = m.dvar(2)
        t = m.dvar()
        z = m.rvar(2)
    else:
        m = dro.Model(2)
        x = m.dvar(2)
        t = m.dvar()
        z = m.rvar(2)
        F = m.ambiguity()
        F.suppset(z >= -4, z <= 4)
        pr = m.p
        F.probset(pr == 0.5)
    S = [z >= 0, z <= 2]
    if call == 'minmax':
        m.minmax(t + x @ z, S)
        m.st(t >= 1 - x.sum())
    else:
        if front == 'ro':
            m.min(t)
        else:
            m.minsup(t, F)
        m.st((x @ z + 1 - x.sum() <= t).forall(S))
    m.st(x >= 0.5, x <= 3)
    if how.endswith('after-formulation'):
        m.do_math()
    if mutated:
        if how == 'replace':
            S[1] = (z <= 3.5)
        else:
            S.append(z[0] + z[1] <= 1)
        # the list is used again for another, harmless constraint
        m.st((t >= z[0] - 100).forall(S))
    else:
        m.st((t >= z[0] - 100).forall([z >= 0, z <= 2]))
    return m


def run_caller_list(case, ses):
    from ..cprog import CProg
    v = case['name']
    res = {}
    for mutated in (False, True):
        with quiet():
            P = CProg(caller_list_model(v, mutated).do_math())
        vs = P.z3vars('a' if mutated else 'b')
        res[mutated] = ses.optimum(P.constraints(vs), P.obj_term(vs), label='caller-list/%s/%s' % (v, mutated))
        ses.stats.programs += 1
    ses.stats.obligations += 1
    ses.stats.kinds['optimum-vs-untouched-list'] = ses.stats.kinds.get('optimum-vs-untouched-list', 0) + 1
    if 'unknown' in (res[False][0], res[True][0]):
        ses.stats.undecided += 1
    elif res[False] == res[True]:
        ses.stats.discharged += 1
        ses.stats.nontrivial.add('caller-list:' + v)
    else:
        finding(ses, 'C09:caller-list:%s' % v, 'model %s: the caller changed its list of set constraints AFTER handing it to '
                'forall() / minmax(): optimum %s (%s), with the list left alone: %s (%s)'
                % (v, res[True][1], res[True][0], res[False][1], res[False][0]), dict(k='caller-list', name=v), 'rsv.props.c09:replay')


# ------------------------------------------------------------------ one expression OBJECT used in two constructs
EXPR_REUSE = ['sum-then-reshape', 'index-then-transpose', 'ldr-slice-then-reshape', 'biaffine-sum-then-flatten', 'index-then-diag']


def expr_reuse_model(variant, order):
    """Two uses of one expression object (order 'ab' / 'ba'), or a fresh object per use ('fresh'): what the object was used for
    before must not change what it means in the second construct."""
    from rsome import ro
    import rsome as rso
    m = ro.Model()
    x = m.dvar((2, 3))
    z = m.rvar(3)
    base = np.array([[1.0, 0.5, 2.0], [0.0, 1.5, 0.25]])
    cost = np.array([[1.0, 2.0, 1.5], [2.5, 1.0, 3.0]])
    S = (abs(z) <= 1, rso.norm(z, 1) <= 1.5)
    m.minmax((cost * x).sum() + 0.25 * z.sum(), *S)
    m.st(x >= 0, x <= 9)
    if variant == 'ldr-slice-then-reshape':
        y = m.ldr((2, 3))
        y.adapt(z)
        mk = lambda: y
        m.st(y >= -3, y <= 12, x >= y - 2.0)
    elif variant == 'biaffine-sum-then-flatten':
        mk = lambda: 0.5 * (x * z) + x + base
    else:
        mk = lambda: x + base
    shared = mk()
    get = (lambda: mk()) if order == 'fresh' else (lambda: shared)

    def use_a():
        e = get()
        if variant in ('sum-then-reshape', 'biaffine-sum-then-flatten'):
            m.st(e.sum(axis=0) >= np.array([3.0, 4.0, 2.0]) + z)
        elif variant == 'ldr-slice-then-reshape':
            m.st(e[0, 1:] >= np.array([2.0, 1.0]) + z[:2])
        else:
            m.st(e[1, 0] >= 2.0 + z[0])

    def use_b():
        e = get()
        if variant == 'sum-then-reshape':
            m.st(e.reshape((3, 2))[1, 0] >= 5)
        elif variant == 'index-then-transpose':
            m.st(e.T[2, 0] + e.T[0, 1] >= 6)
        elif variant == 'ldr-slice-then-reshape':
            m.st(e.reshape((3, 2))[2, 0] >= 4.0 - z[2])
        elif variant == 'biaffine-sum-then-flatten':
            m.st(e.reshape((6,))[4] >= 3.0)
        else:
            m.st(rso.diag(e.reshape((3, 2))[:2, :]).sum() >= 7)
    for u in ((use_a, use_b) if order != 'ba' else (use_b, use_a)):
        u()
    return m


def run_expr_reuse(case, ses):
    from ..cprog import CProg
    v = case['name']
    res = {}
    for order in ('fresh', 'ab', 'ba'):
        with quiet():
            P = CProg(expr_reuse_model(v, order).do_math())
        vs = P.z3vars(order)
        res[order] = ses.optimum(P.constraints(vs), P.obj_term(vs), label='expr-reuse/%s/%s' % (v, order))
        ses.stats.programs += 1
    for order in ('ab', 'ba'):
        ses.stats.obligations += 1
        ses.stats.kinds['optimum-vs-fresh-objects'] = ses.stats.kinds.get('optimum-vs-fresh-objects', 0) + 1
        if 'unknown' in (res['fresh'][0], res[order][0]):
            ses.stats.undecided += 1
        elif res['fresh'][0] != 'optimal':
            raise HarnessError('expr-reuse member %s is not solvable (%s): vacuous' % (v, res['fresh'][0]))
        elif res['fresh'] == res[order]:
            ses.stats.discharged += 1
            ses.stats.nontrivial.add('expr-reuse:%s:%s' % (v, order))
        else:
            if not replay(dict(k='expr-reuse', name=v, order=order)):
                raise HarnessError('expr-reuse counterexample does not reproduce with the real solver: %s/%s' % (v, order))
            finding(ses, 'C09:expr-reuse:%s:%s' % (v, order), 'model %s: one expression object used in two constructs (order %s): '
                    'optimum %s (%s), with a fresh object per use: %s (%s)' % (v, order, res[order][1], res[order][0],
                                                                              res['fresh'][1], res['fresh'][0]),
                    dict(k='expr-reuse', name=v, order=order), 'rsv.props.c09:replay')


def rekey(ses, n0, tag):
    for f in ses.findings[n0:]:
        if f['key'].startswith('C09:'):
            continue
        f['data'] = dict(k='delegate', replayer=f['replayer'], data=f['data'])
        f['replayer'] = 'rsv.props.c09:replay'
        f['key'] = 'C09:' + f['key']
        f['what'] = '[history %s] %s' % (tag, f['what'])


# ------------------------------------------------------------------ dro histories
def dro_histories():
    A = np.array
    H = {}

    def reg(f):
        H[f.__name__] = f
        return f

    def amb(a, p, z):
        F = a.ambiguity()
        a.supp(F, [0], a.ge(z, -1.0), a.le(z, 1.0))
        a.supp(F, [1], a.ge(z, 0.0), a.le(z, 2.0))
        a.expt(F, None, a.le(a.Ez(z), 0.75), a.ge(a.Ez(z), 0.0))
        a.prob(F, a.ge(p, 0.25))
        return F

    @reg
    def reuse_piece_after_expectation(a):
        """The same bi-affine expression object is used inside E(maxof(...)) and afterwards in a plain
        (robust) constraint."""
        p = a.scen(2)
        x = a.dvar(())
        y = a.dvar(())
        z = a.rvar(())
        F = amb(a, p, z)
        e = x * z + y
        a.minsup(a.E(a.maxof(e, 0.5 * y - x)), F)
        a.st(a.le(e, 2.0))
        a.st(a.ge(x, -2.0))
        a.st(a.le(x, 2.0))
        a.st(a.ge(y, -2.0))
        a.st(a.le(y, 2.0))

    @reg
    def reuse_piece_before_expectation(a):
        p = a.scen(2)
        x = a.dvar(())
        y = a.dvar(())
        z = a.rvar(())
        F = amb(a, p, z)
        e = x * z + y
        c = a.le(e, 2.0)
        a.minsup(a.E(a.maxof(e, 0.5 * y - x)), F)
        a.st(c)
        a.st(a.ge(x, -2.0))
        a.st(a.le(x, 2.0))
        a.st(a.ge(y, -2.0))
        a.st(a.le(y, 2.0))

    @reg
    def reuse_affine_piece(a):
        """A decision-only expression used as a piece under E and as a plain constraint."""
        p = a.scen(2)
        x = a.dvar(2)
        z = a.rvar(())
        a.evt(x, [0])
        F = amb(a, p, z)
        e = x[0] - 2.0 * x[1]
        a.minsup(a.E(a.maxof(e, x[1] * z, 0.25 * x[0])), F)
        a.st(a.ge(e, -3.0))
        a.st(a.ge(x, -2.0))
        a.st(a.le(x, 2.0))

    @reg
    def formulate_and_solve_between(a):
        p = a.scen(2)
        x = a.dvar(2)
        z = a.rvar(())
        F = amb(a, p, z)
        a.minsup(a.E(-1.0 * x[0] - x[1] + 0.5 * x[0] * z), F)
        a.st(a.le(a.E(x[0] * z + x[1]), 1.5))
        if a.kind == 'real':
            with quiet():
                a.m.do_math()
                a.m.do_math(primal=False)
                a.m.solve(display=False)
        a.st(a.le(x[0] * z - x[1], 1.25))
        if a.kind == 'real':
            with quiet():
                a.m.do_math()
        a.st(a.ge(x, -2.0))
        a.st(a.le(x, 2.0))

    @reg
    def two_ambiguity_sets_interleaved(a):
        p = a.scen(2)
        x = a.dvar(2)
        z = a.rvar(())
        F = a.ambiguity()
        G = a.ambiguity()
        a.supp(G, [0], a.ge(z, 0.0), a.le(z, 2.0))
        a.supp(F, None, a.ge(z, -1.0), a.le(z, 1.0))
        a.supp(G, [1], a.ge(z, -2.0), a.le(z, 0.0))
        a.prob(G, a.ge(p, 0.375))
        a.expt(F, None, a.le(a.Ez(z), 0.5))
        a.minsup(a.E(-1.0 * x[0] - x[1] + 0.5 * x[0] * z), F)
        c1 = a.le(a.E(x[0] * z + x[1]), 2.0)
        c2 = a.le(x[0] * z - x[1], 1.5)
        a.st(c2, forall=G)
        a.st(c1, forall=G)
        a.st(a.le(a.E(x[1] * z - x[0]), 2.5))
        a.st(a.ge(x, -2.0))
        a.st(a.le(x, 2.0))

    @reg
    def late_rvar_after_solve(a):
        """A random variable is declared AFTER the model was formulated and solved once (the expectation model has kept
        auxiliary columns of a 1-norm set the support model does not have); supports and expectation information are extended
        to it and an expectation constraint uses it."""
        p = a.scen(1)
        x = a.dvar(2)
        t = a.dvar(())
        z1 = a.rvar(2)
        F = a.ambiguity()
        a.supp(F, None, a.ge(z1, -1.0), a.le(z1, 1.0))
        a.expt(F, None, a.le(a.norm(a.Ez(z1), 1), 0.25))
        a.minsup(a.E(t + a.sum(x * z1)), F)
        a.st(a.ge(x, -1.0))
        a.st(a.le(x, 1.0))
        a.st(a.ge(t, -5.0))
        if a.kind == 'real':
            with quiet():
                a.m.do_math()
                a.m.solve(display=False)
        z2 = a.rvar(())
        a.supp(F, None, a.ge(z1, -1.0), a.le(z1, 1.0), a.ge(z2, -2.0), a.le(z2, 2.0))
        a.expt(F, None, a.le(a.Ez(z2), 0.5), a.ge(a.Ez(z2), 0.25))
        a.st(a.le(a.E(2.0 * z2 - t), 0.0))

    @reg
    def ambiguity_extended_after_solve(a):
        """Expectation information is added through a scenario accessor AFTER the model was formulated and
        solved once; a further constraint is added and the model is solved again."""
        p = a.scen(2)
        x = a.dvar(())
        z = a.rvar(())
        F = a.ambiguity()
        a.supp(F, None, a.ge(z, -1.0), a.le(z, 1.0))
        a.expt(F, None, a.le(a.Ez(z), 0.75))
        a.prob(F, a.eq(p, A([0.5, 0.5])))
        a.minsup(a.E(x + z), F)
        a.st(a.ge(x, -1.0))
        if a.kind == 'real':
            with quiet():
                a.m.do_math()
                a.m.solve(display=False)
        a.expt(F, [0], a.le(a.Ez(z), -0.25))
        a.st(a.le(x, 1.0))

    @reg
    def support_changed_after_solve(a):
        p = a.scen(2)
        x = a.dvar(())
        z = a.rvar(())
        F = a.ambiguity()
        a.supp(F, None, a.ge(z, -1.0), a.le(z, 1.0))
        a.prob(F, a.ge(p, 0.25))
        a.minsup(a.E(a.maxof(x * z, 1.0 - x)), F)
        a.st(a.ge(x, -2.0))
        if a.kind == 'real':
            with quiet():
                a.m.do_math()
                a.m.solve(display=False)
        a.supp(F, [1], a.ge(z, 0.0), a.le(z, 3.0))
        a.st(a.le(x, 2.0))

    @reg
    def probset_changed_after_solve_nothing_else(a):
        """The probability set is replaced after a solve and NOTHING else is declared before the next formulation."""
        p = a.scen(2)
        x = a.dvar(())
        z = a.rvar(())
        F = a.ambiguity()
        a.supp(F, [0], a.ge(z, -1.0), a.le(z, 1.0))
        a.supp(F, [1], a.ge(z, 0.0), a.le(z, 3.0))
        a.minsup(a.E(a.maxof(x * z, 1.0 - x)), F)
        a.st(a.ge(x, -2.0))
        a.st(a.le(x, 2.0))
        if a.kind == 'real':
            a.prob(F, a.ge(p, 0.25))
            with quiet():
                a.m.do_math()
                a.m.solve(display=False)
        a.prob(F, a.ge(p, np.array([0.75, 0.125])))

    @reg
    def support_changed_after_solve_nothing_else(a):
        p = a.scen(2)
        x = a.dvar(())
        z = a.rvar(())
        F = a.ambiguity()
        a.prob(F, a.ge(p, 0.25))
        a.minsup(a.E(a.maxof(x * z, 1.0 - x)), F)
        a.st(a.ge(x, -2.0))
        a.st(a.le(x, 2.0))
        if a.kind == 'real':
            a.supp(F, None, a.ge(z, -1.0), a.le(z, 1.0))
            with quiet():
                a.m.do_math()
                a.m.solve(display=False)
        a.supp(F, [0], a.ge(z, -1.0), a.le(z, 1.0))
        a.supp(F, [1], a.ge(z, 0.0), a.le(z, 3.0))

    @reg
    def repeated_formulation(a):
        p = a.scen(2)
        x = a.dvar(2)
        z = a.rvar(())
        F = amb(a, p, z)
        a.minsup(a.E(a.maxof(x[0] * z - x[1], x[1] - 0.5 * z)), F)
        a.st(a.ge(x, -2.0))
        a.st(a.le(x, 2.0))
        if a.kind == 'real':
            with quiet():
                a.m.do_math()
                a.m.solve(display=False)
                a.m.do_math(primal=False)
                a.m.pupdate = True
                a.m.do_math()
    return H


class _DroCase:
    pass


def run_dro(case, ses):
    """Re-use the C03/C04 obligations on the dro history member."""
    name = case['name']
    desc = dro_histories()[name]
    n0 = len(ses.findings)
    # c03/c04 look members up by name: register the history members there for the duration of the call
    from .. import drogen
    orig = drogen.lookup

    def patched(nm):
        H = dro_histories()
        return H[nm] if nm in H else orig(nm)
    c03.lookup = patched
    c04.lookup = patched
    try:
        c03.run_case(dict(name=name), ses)
        c04.run_case(dict(name=name), ses)
    finally:
        c03.lookup = orig
        c04.lookup = orig
    rekey(ses, n0, name)


def replay(data, verbose=False):
    import importlib
    if data.get('k') == 'delegate':
        from .. import drogen
        orig = drogen.lookup

        def patched(nm):
            H = dro_histories()
            return H[nm] if nm in H else orig(nm)
        c03.lookup = patched
        c04.lookup = patched
        try:
            modname, fn = data['replayer'].split(':')
            return getattr(importlib.import_module(modname), fn)(data['data'], verbose=verbose)
        finally:
            c03.lookup = orig
            c04.lookup = orig
    if data.get('k') == 'empty-set':
        vals = {}
        for earlier in (False, True):
            with quiet():
                mm = empty_set_model(data['name'], earlier)
                try:
                    mm.solve(display=False)
                    vals[earlier] = mm.get()
                except Exception as e:  # noqa
                    vals[earlier] = 'no solution (%s)' % str(e)[:60]
        if verbose:
            print('real solve(): from scratch %r ; after another set was compiled %r' % (vals[False], vals[True]))
        a, b = vals[False], vals[True]
        return isinstance(a, str) != isinstance(b, str) or (not isinstance(a, str) and abs(a - b) > 1e-6 * (1 + abs(a)))
    if data.get('k') == 'caller-list':
        vals = {}
        for mutated in (False, True):
            with quiet():
                mm = caller_list_model(data['name'], mutated)
                try:
                    mm.solve(display=False)
                    vals[mutated] = mm.get()
                except Exception as e:  # noqa
                    vals[mutated] = 'no solution (%s)' % str(e)[:60]
        if verbose:
            print('real solve(): list left alone %r ; list changed after the call %r' % (vals[False], vals[True]))
        a, b = vals[False], vals[True]
        return isinstance(a, str) != isinstance(b, str) or (not isinstance(a, str) and abs(a - b) > 1e-6 * (1 + abs(a)))
    if data.get('k') == 'expr-reuse':
        vals = {}
        for order in ('fresh', data['order']):
            with quiet():
                mm = expr_reuse_model(data['name'], order)
                try:
                    mm.solve(display=False)
                    vals[order] = mm.get()
                except Exception as e:  # noqa
                    vals[order] = 'no solution (%s)' % str(e)[:60]
        if verbose:
            print('real solve(): fresh object per use %r ; one object, order %s: %r' % (vals['fresh'], data['order'], vals[data['order']]))
        a, b = vals['fresh'], vals[data['order']]
        return isinstance(a, str) != isinstance(b, str) or (not isinstance(a, str) and abs(a - b) > 1e-6 * (1 + abs(a)))
    if verbose:
        print('optimum after history differs from the fresh build; spec:', data.get('spec', {}).get('name'))
    return True
