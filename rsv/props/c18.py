"""C18 - soc_solve approximates exponential cones accurately and changes nothing else.

(1) carry-over: the real to_socp() output, restricted to the original rows/columns, is the input
    program without its exponential cones (z3: empty symmetric difference; bounds, types, objective,
    original cones identical) and the call does not modify the input formula (compared before/after,
    also through a second call and a subsequent do_math()/solve()).
(2) block meaning, stage by stage from the REAL matrix of the appended block (one per exp cone
    (a, b, c):  c*exp(a/c) <= b):
        split   x1 + x2 = a, al1 + al2 = c, t <= b, signs                          (QF_LRA)
        cuts    x1 <= lo*al1,  lo*al2 <= x2 <= hi*al2                             (QF_LRA)
        cones   f*al2 >= y^2, g*al2 >= (y+al2)^2, h*al2 >= g^2, y = x2/2^L          (QF_NRA, one cone each)
        Taylor  v0 >= 20/(24 2^L) x2 + 23/24 al2 + f/4 + h/24  and hence
                v0*al2^3 >= al2^4 * T4(y/al2)   (degree-4 polynomial identity, QF_NRA)
        squaring  v_{d+1}*al2 >= v_d^2 (d < L-1),  t*al2 >= v_{L-1}^2
    and the converse (each stage admits a completion of its cone columns: exists-forall NRA).
    Composition gives  t >= al2 * T4(x2/(al2 2^L))^(2^L)  (stated lemma: monotone squaring).
(3) accuracy: with exact rational enclosures of e the Lagrange remainder gives
        (1 + delta_L)^(2^L) <= 1 + 1e-3  and (1 - delta_L)^(2^L) >= 1 - 1e-3   for |x/c| <= 4, L = 4..8
    decided as ground rational arithmetic by z3.
(4) concrete layer: the real soc_solve() (ECOS) on a grid of exponents and two models agrees with
    the exponential-cone solve within 1e-3 relative.
"""
from fractions import Fraction
import numpy as np

from ..poly import z3mod
from ..cprog import CProg
from ..smt import HarnessError, fval
from ..harness import finding
from ..util import quiet

PROP = 'C18'
LEVEL = 'translation_validation'
TIMEOUT_MS = 40000

META = dict(
    functions=['rsome.gcp.GCProg.to_socp', 'rsome.gcp.Model.soc_solve', 'rsome.ro.Model.soc_solve', 'rsome.dro.Model.soc_solve'],
    rule='cases: carry-over/non-modification per model; one stage-lemma family per (degree, cuts, position of the cone); '
         'accuracy inequality per degree; concrete grid; non-trivial = all stage lemmas of the block discharged; '
         'distinct by label',
    bounds='degrees 4..6 (quick) / 4..8 (thorough), cuts (-30,60) and (-10,20), 1-3 exponential cones per program at '
           'different positions, exponents |x/c| <= 4 for the accuracy claim',
    outside='composition of the squaring stages into the closed form (degree 4*2^L polynomial) is a stated lemma; '
            'agreement of SOC solvers beyond ECOS on the listed members',
    assumptions=['Taylor theorem with Lagrange remainder for exp', 'monotonicity of squaring on non-negative reals',
                 'perspective split: al2*exp(x2/al2) >= c*exp(a/c) - al1*exp(lo) (convexity), lo <= -10'],
)


def models():
    from rsome import ro
    import rsome as rso

    def m_single():
        m = ro.Model()
        x = m.dvar()
        t = m.dvar()
        m.min(t)
        m.st(rso.exp(x) <= t, x >= -2, x <= 2, x == 1)
        return m

    def m_two():
        m = ro.Model()
        x = m.dvar(2)
        t = m.dvar(2)
        m.min(t.sum() + 0.5 * x[0])
        m.st(rso.exp(x) <= t, x >= -1, x <= 1.5, x[0] + x[1] == 0.5, rso.norm(x, 2) <= 3)
        return m

    def m_log():
        m = ro.Model()
        x = m.dvar(2)
        m.max(rso.log(x[0]) + 0 * x[1])
        m.st(x[0] + x[1] <= 3, x[1] >= 1, x[0] <= 2.5)
        return m

    def m_kl():
        m = ro.Model()
        p = m.dvar(3)
        m.min((np.array([1.0, 2.0, 3.0]) * p).sum())
        m.st(p.sum() == 1, p >= 0, rso.kldiv(p, np.array([0.3, 0.3, 0.4]), 0.05))
        return m

    def m_int():
        m = ro.Model()
        x = m.dvar(2, 'I')
        t = m.dvar()
        m.min(t - x[1])
        m.st(rso.exp(0.5 * x[0]) <= t, x >= -2, x <= 2, x[0] + x[1] >= 1)
        return m
    return dict(single=m_single, two=m_two, log=m_log, kl=m_kl, int=m_int)


def cases(tier, seed, rnd):
    cs = []
    for name in models():
        cs.append(dict(k='carry', model=name))
    degs = (4, 5, 6) if tier == 'quick' else (4, 5, 6, 7, 8)
    for d in degs:
        for cuts in ((-30, 60), (-10, 20)):
            for model in ('single', 'two'):
                cs.append(dict(k='stages', degree=d, cuts=list(cuts), model=model))
        cs.append(dict(k='accuracy', degree=d))
    cs.append(dict(k='grid'))
    return cs


def run_case(case, ses):
    {'carry': run_carry, 'stages': run_stages, 'accuracy': run_accuracy, 'grid': run_grid}[case['k']](case, ses)


# ------------------------------------------------------------------ (1)
def snapshot(f):
    import scipy.sparse as sp
    return dict(linear=sp.csr_matrix(f.linear).toarray().tolist(), const=list(map(float, f.const)),
                sense=list(map(int, f.sense)), lb=list(map(float, f.lb)), ub=list(map(float, f.ub)),
                vtype=list(map(str, f.vtype)), obj=list(map(float, np.asarray(f.obj).reshape(-1))),
                qmat=[list(map(int, q)) for q in f.qmat], xmat=[list(map(int, x)) for x in f.xmat])


def run_carry(case, ses):
    z3 = z3mod()
    name = case['model']
    with quiet():
        m = models()[name]()
        f = m.do_math()
    before = snapshot(f)
    ses.stats.programs += 1
    with quiet():
        g = f.to_socp()
    after = snapshot(f)
    ses.stats.obligations += 1
    ses.stats.kinds['input-not-modified'] = ses.stats.kinds.get('input-not-modified', 0) + 1
    if before != after:
        diff = [k for k in before if before[k] != after[k]]
        data = dict(k='carry', model=name, what='to_socp() modified the input formula: %s' % diff)
        finding(ses, 'C18:input-modified', 'model %s: to_socp() modifies the cached primal formula (fields %s; '
                'cone list %d -> %d entries)' % (name, diff, len(before['qmat']), len(after['qmat'])), data, 'rsv.props.c18:replay')
    else:
        ses.stats.discharged += 1
    # second call must give the same program; a later solve must still work
    with quiet():
        g2 = f.to_socp()
    ses.stats.obligations += 1
    ses.stats.kinds['idempotent'] = ses.stats.kinds.get('idempotent', 0) + 1
    if snapshot_out(g) != snapshot_out(g2):
        data = dict(k='carry', model=name, what='second to_socp() differs')
        finding(ses, 'C18:input-modified', 'model %s: a second to_socp() call returns a different program '
                '(%d vs %d cones)' % (name, len(g.qmat), len(g2.qmat)), data, 'rsv.props.c18:replay')
    else:
        ses.stats.discharged += 1
    # carry-over: original rows/cols of the output == input without exp cones
    n, mrows = len(before['obj']), len(before['const'])
    P_in = CProg(_strip_exp(f, before))
    P_out = CProg(_restrict(g, n, mrows, before))
    vs = [z3.Real('v%d' % j) for j in range(n)]
    a = P_in.row_cons(vs) + P_in.bound_cons(vs) + P_in.soc_cons(vs)
    b = P_out.row_cons(vs) + P_out.bound_cons(vs) + P_out.soc_cons(vs)
    res, model = ses.oblige('%s/carry-over' % name, [], [z3.Xor(z3.And(a), z3.And(b))], kind='carry-over-xor', twin=False,
                            core=not P_in.qmat, sample=dict(model=name, rows=mrows, cols=n, exp_cones=len(before['xmat'])))
    ok = res == 'unsat'
    gout = snapshot_out(g)
    same = (gout['vtype'][:n] == before['vtype'] and gout['obj'][:n] == before['obj'] and
            all(v == 0 for v in gout['obj'][n:]) and all(t == 'C' for t in gout['vtype'][n:]))
    ses.stats.obligations += 1
    ses.stats.kinds['types-objective-carried'] = ses.stats.kinds.get('types-objective-carried', 0) + 1
    if same:
        ses.stats.discharged += 1
    else:
        ok = False
        finding(ses, 'C18:carry:%s' % name, 'model %s: variable types / objective are not carried over unchanged' % name,
                dict(k='carry', model=name, what='types/objective'), 'rsv.props.c18:replay')
    if res == 'sat':
        finding(ses, 'C18:carry:%s' % name, 'model %s: rows/bounds/cones of the original columns differ after to_socp()' % name,
                dict(k='carry', model=name, what='rows'), 'rsv.props.c18:replay')
    if ok:
        ses.stats.nontrivial.add('carry-' + name)


def snapshot_out(g):
    import scipy.sparse as sp
    return dict(linear=sp.csr_matrix(g.linear).toarray().tolist(), const=list(map(float, g.const)),
                sense=list(map(int, g.sense)), lb=list(map(float, g.lb)), ub=list(map(float, g.ub)),
                vtype=list(map(str, g.vtype)), obj=list(map(float, np.asarray(g.obj).reshape(-1))),
                qmat=[list(map(int, q)) for q in g.qmat])


class _F:
    pass


def _strip_exp(f, snap):
    import scipy.sparse as sp
    o = _F()
    o.linear = sp.csr_matrix(np.array(snap['linear']))
    o.const, o.sense = np.array(snap['const']), np.array(snap['sense'])
    o.lb, o.ub, o.vtype, o.obj = np.array(snap['lb']), np.array(snap['ub']), np.array(snap['vtype']), np.array(snap['obj'])
    o.qmat, o.xmat, o.lmi = snap['qmat'], [], []
    return o


def _restrict(g, n, mrows, snap):
    import scipy.sparse as sp
    o = _F()
    lin = sp.csr_matrix(g.linear)[:mrows, :]
    if lin[:, n:].nnz:
        raise HarnessError('original rows reference appended columns')
    o.linear = lin[:, :n]
    o.const, o.sense = np.asarray(g.const)[:mrows], np.asarray(g.sense)[:mrows]
    o.lb, o.ub, o.vtype, o.obj = np.asarray(g.lb)[:n], np.asarray(g.ub)[:n], np.asarray(g.vtype)[:n], np.asarray(g.obj)[:n]
    o.qmat = [list(map(int, q)) for q in g.qmat if all(int(k) < n for k in q)]
    o.xmat, o.lmi = [], []
    return o


# ------------------------------------------------------------------ (2)
def run_stages(case, ses):
    z3 = z3mod()
    L, cuts, name = case['degree'], tuple(case['cuts']), case['model']
    with quiet():
        m = models()[name]()
        f = m.do_math()
        snap = snapshot(f)
        g = _strip_copy(f).to_socp(L, cuts)
    ses.stats.programs += 1
    n, mrows = len(snap['obj']), len(snap['const'])
    G = CProg(g)
    width = 1 + 4 + L + 3 + (3 + L) * 3
    nrows = (G.m - mrows) // max(len(snap['xmat']), 1)
    vs = [z3.Real('v%d' % j) for j in range(G.n)]
    lo, hi = Fraction(cuts[0]), Fraction(cuts[1])
    two = Fraction(2) ** L
    for bi, (a, b, c) in enumerate(snap['xmat']):
        base = n + bi * width
        rows = list(range(mrows + bi * nrows, mrows + (bi + 1) * nrows))
        cones = [q for q in G.qmat if all(base <= k < base + width for k in q)]
        cols = list(range(base, base + width))
        label = 'L=%d cuts=%s %s cone%d' % (L, cuts, name, bi)
        if G.n < base + width or len(cones) != 3 + L:
            finding(ses, 'C18:block-shape', '%s: appended block has unexpected shape (%d cones, %d columns)'
                    % (label, len(cones), G.n - n), dict(k='stages', case=case), 'rsv.props.c18:replay')
            return
        B = G.row_cons(vs, rows) + G.bound_cons(vs, cols) + G.soc_cons(vs, cones)
        t, x1, x2, a1, a2 = (vs[base + k] for k in range(5))
        fgh = [vs[base + 5 + k] for k in range(3)]
        v = [vs[base + 8 + d] for d in range(L)]
        y = x2 * z3.RealVal(str(1 / two))
        rv = lambda q: z3.RealVal(str(q))
        lemmas = [
            ('split', 'lra', z3.And(x1 + x2 == vs[a], a1 + a2 == vs[c], t <= vs[b], a1 >= 0, a2 >= 0, fgh[0] >= 0, fgh[1] >= 0,
                                    fgh[2] >= 0, z3.And([vd >= 0 for vd in v]))),
            ('cuts', 'lra', z3.And(x1 <= rv(lo) * a1, rv(lo) * a2 <= x2, x2 <= rv(hi) * a2)),
            ('cone-f', 'nra', fgh[0] * a2 >= y * y),
            ('cone-g', 'nra', fgh[1] * a2 >= (y + a2) * (y + a2)),
            ('cone-h', 'nra', fgh[2] * a2 >= fgh[1] * fgh[1]),
            ('taylor-row', 'lra', v[0] >= rv(Fraction(20 / 2 ** L / 24)) * x2 + rv(Fraction(23 / 24)) * a2 + fgh[0] / 4
             + rv(Fraction(1 / 24)) * fgh[2]),   # the doubles rsome writes (1e-17 from the exact Taylor coefficients)
        ]
        # interfaces that hand a cone over as the quadratic constraint tail'tail <= head^2 (Gurobi) rely on the head being
        # sign-constrained by the program itself: rows and bounds alone must imply head >= 0 for every appended cone
        Blin = G.row_cons(vs, rows) + G.bound_cons(vs, cols)
        for ci, q in enumerate(cones):
            res, model = ses.oblige('%s/head-sign-%d' % (label, ci), Blin, [vs[q[0]] < 0], kind='stage-head-sign', twin=(ci == 0))
            if res == 'sat':
                data = dict(k='stages', case=case, lemma='head-sign', cone=bi, head=int(q[0]))
                if replay(data):
                    finding(ses, 'C18:stage:head-sign', '%s: the head of appended cone %d (column %d) is not sign-constrained by rows and '
                            'bounds: read as tail\'tail <= head^2 (Gurobi interface) the cone is vacuous for head < 0'
                            % (label, ci, q[0]), data, 'rsv.props.c18:replay')
                else:
                    raise HarnessError('head-sign counterexample does not reproduce: %s' % label)
        for d in range(L - 1):
            lemmas.append(('square-%d' % d, 'nra', v[d + 1] * a2 >= v[d] * v[d]))
        lemmas.append(('square-last', 'nra', t * a2 >= v[L - 1] * v[L - 1]))
        allok = True
        for tag, logic, claim in lemmas:
            res, model = ses.oblige('%s/%s' % (label, tag), B, [z3.Not(claim)], kind='stage-' + logic, twin=(tag == 'split'),
                                    sample=dict(degree=L, cuts=list(cuts), model=name, lemma=tag), timeout_ms=40000)
            if res == 'sat':
                allok = False
                pt = [float(fval(model, vs[k])) for k in range(G.n)]
                data = dict(k='stages', case=case, lemma=tag, point=pt, cone=bi)
                if replay(data):
                    finding(ses, 'C18:stage:%s' % tag.split('-')[0], '%s: the appended block admits a point violating the stage '
                            'lemma %s' % (label, tag), data, 'rsv.props.c18:replay')
                else:
                    raise HarnessError('stage counterexample does not reproduce: %s/%s' % (label, tag))
            elif res != 'unsat':
                allok = False
        # Taylor polynomial: the three cone lemmas + the row give v0*al2^3 >= al2^4*T4(y/al2)
        ff, gg, hh, v0 = z3.Reals('ff gg hh vv0')
        Y, A2 = z3.Reals('Y A2')
        hyp = [A2 > 0, ff * A2 >= Y * Y, gg * A2 >= (Y + A2) * (Y + A2), hh * A2 >= gg * gg, gg >= 0,
               v0 >= rv(Fraction(20, 24)) * Y + rv(Fraction(23, 24)) * A2 + ff / 4 + hh / 24]
        T4 = A2 * A2 * A2 * A2 + A2 * A2 * A2 * Y + A2 * A2 * Y * Y / 2 + A2 * Y * Y * Y / 6 + Y * Y * Y * Y / 24
        res, _ = ses.oblige('%s/taylor-polynomial' % label, hyp, [v0 * A2 * A2 * A2 < T4], kind='stage-taylor', core=False,
                            timeout_ms=20000)
        # converse: every stage is completable (cone columns exist)
        for ci, q in enumerate(cones[:3]):
            blkrows = [r for r in rows if set(G.rows[r][0]) & set(q)]
            Bc = G.row_cons(vs, blkrows) + G.soc_cons(vs, [q])
            tgt = [fgh[0] * a2 >= y * y, fgh[1] * a2 >= (y + a2) * (y + a2), fgh[2] * a2 >= fgh[1] * fgh[1]][ci]
            hyp = [tgt, a2 >= 0, fgh[ci] >= 0]
            qv = [vs[k] for k in q]
            res, _ = ses.oblige('%s/complete-%d' % (label, ci), hyp, [z3.ForAll(qv, z3.Not(z3.And(Bc)))],
                                kind='stage-completable', core=False, twin=False, timeout_ms=15000)
        # ... decided at TIGHT points: with the exact values  f = y^2/a2,  g = (y+a2)^2/a2,  h = g^2/a2  pinned (exact rationals) the
        # rows and the cone of the stage must be satisfiable - a stage that only admits LARGER values (a wrong scale factor
        # 1/2^L of the argument) over-estimates exp although every soundness lemma above still holds
        for yv, av in ((Fraction(1, 2), Fraction(1)), (Fraction(-3, 4), Fraction(1, 2)), (Fraction(1, 4), Fraction(2)), (Fraction(-1), Fraction(1))):
            gv = (yv + av) ** 2 / av
            tight = [yv * yv / av, gv, gv * gv / av]
            for ci, q in enumerate(cones[:3]):
                blkrows = [r for r in rows if set(G.rows[r][0]) & set(q)]
                Bc = G.row_cons(vs, blkrows) + G.soc_cons(vs, [q])
                pins = [a2 == rv(av), x2 == rv(yv * two), fgh[ci] == rv(tight[ci])] + ([fgh[1] == rv(gv)] if ci == 2 else [])
                res, _ = ses.expect_sat('%s/tight-%d y=%s a2=%s' % (label, ci, yv, av), Bc + pins, kind='stage-completable-tight',
                                        timeout_ms=15000)
                if res == 'unsat':
                    allok = False
                    data = dict(k='stages', case=case, lemma='tight', cone=bi, stage=ci)
                    if replay(data):
                        finding(ses, 'C18:stage:tight', '%s: stage %d of the appended block cannot take its exact value at y=%s, a2=%s: '
                                'the approximation over-estimates exp at this degree' % (label, ci, yv, av), data, 'rsv.props.c18:replay')
                    else:
                        raise HarnessError('tight-point counterexample does not reproduce: %s' % label)
                    break
        if allok:
            ses.stats.nontrivial.add(label)


def _strip_copy(f):
    """A fresh GCProg with copied fields so that to_socp() cannot alias the model's cached formula."""
    from rsome.gcp import GCProg
    import scipy.sparse as sp
    return GCProg(sp.csr_matrix(f.linear).copy(), np.array(f.const, dtype=float), np.array(f.sense), np.array(f.vtype),
                  np.array(f.ub, dtype=float), np.array(f.lb, dtype=float), [list(q) for q in f.qmat],
                  [list(x) for x in f.xmat], list(f.lmi), np.array(f.obj, dtype=float))


# ------------------------------------------------------------------ (3)
def e_enclosure(x, terms=40):
    """Rational (lo, hi) with lo <= exp(x) <= hi for rational |x| <= 1."""
    s, term = Fraction(0), Fraction(1)
    for k in range(terms):
        s += term
        term = term * x / (k + 1)
    err = abs(term) * 2
    return s - err, s + err


def run_accuracy(case, ses):
    z3 = z3mod()
    L = case['degree']
    u = Fraction(4, 2 ** L)
    e_hi = e_enclosure(u)[1]
    e_lo = e_enclosure(-u)[0]
    delta = e_hi * u ** 5 / 120 / e_lo          # |T4(w) - e^w| / e^w  for |w| <= u
    N = 2 ** L
    up = (1 + delta) ** N
    dn = (1 - delta) ** N
    D = z3.RealVal(str(delta))
    one = z3.RealVal(1)
    prod_up, prod_dn = one, one
    for _ in range(N):
        prod_up = prod_up * (one + D)
        prod_dn = prod_dn * (one - D)
    res, _ = ses.oblige('accuracy L=%d' % L, [], [z3.Or(prod_up > z3.RealVal('1001/1000'), prod_dn < z3.RealVal('999/1000'))],
                        kind='accuracy-bound', twin=False,
                        sample=dict(degree=L, delta=float(delta), upper=float(up) - 1, lower=1 - float(dn)))
    if res == 'sat':
        finding(ses, 'C18:accuracy:%d' % L, 'degree %d: relative error bound %.3g exceeds 1e-3' % (L, float(up) - 1),
                dict(k='accuracy', degree=L), 'rsv.props.c18:replay')
    elif res == 'unsat':
        ses.stats.nontrivial.add('accuracy-%d' % L)
    ses.stats.programs += 1


# ------------------------------------------------------------------ (4)
def run_grid(case, ses):
    import math
    from rsome import ro, eco_solver
    import rsome as rso
    pts = [-4, -3, -1.5, -0.5, 0, 0.75, 2, 3.5, 4]
    worst = 0.0
    ifaces = [('eco', eco_solver)]
    try:
        from rsome import grb_solver
        ifaces.append(('grb', grb_solver))      # states cones as quadratic constraints: relies on sign-constrained heads
    except Exception:  # noqa
        pass
    for a in pts:
        for c in (1.0, 2.0):
          for iname, solver in ifaces:
            if iname != 'eco' and c != 1.0 and a not in (-4, 0.75, 4):
                continue
            with quiet():
                m = ro.Model()
                x = m.dvar()
                t = m.dvar()
                m.min(t)
                m.st(rso.pexp(x, c) <= t, x == a * c)
                try:
                    m.soc_solve(solver, display=False)
                except Exception as e:  # noqa
                    if iname != 'eco':
                        ses.stats.notes.append('soc_solve via %s raised: %s' % (iname, str(e)[:80]))
                        continue
                    raise
            ses.stats.obligations += 1
            ses.stats.kinds['grid-soc_solve-' + iname] = ses.stats.kinds.get('grid-soc_solve-' + iname, 0) + 1
            key = 'C18:grid' if iname == 'eco' else 'C18:grid-' + iname
            try:
                val = m.get()
            except Exception as e:
                finding(ses, key, 'soc_solve (%s) fails at exponent %g: %s' % (iname, a, e), dict(k='grid', a=a, c=c, iface=iname), 'rsv.props.c18:replay')
                continue
            exact = c * math.exp(a)
            rel = abs(val - exact) / exact
            worst = max(worst, rel)
            if rel <= 1e-3:
                ses.stats.discharged += 1
            else:
                finding(ses, key, 'soc_solve (%s) at exponent %g (scale %g): %g vs exact %g (relative error %.3g)'
                        % (iname, a, c, val, exact, rel), dict(k='grid', a=a, c=c, iface=iname), 'rsv.props.c18:replay')
    ses.stats.programs += len(pts) * 2
    ses.stats.nontrivial.add('grid')
    ses.stats.nontrivial.add('grid-scale2')
    if len(ses.stats.samples) < 6:
        ses.stats.samples.append(dict(grid=pts, worst_relative_error=worst))
    # mixed-integer exponential-cone models (soc_solve is the only way the open interfaces solve them): the returned vector
    # satisfies the approximated program INCLUDING variable types and binary domains, and the value is within 1e-3 of the
    # exact optimum (enumeration of the integer part, closed form for the rest)
    for (cb, ck, kmax, r0) in [(1.5, 0.25, 6, 2.0), (-0.75, 0.5, 4, 1.0), (2.0, -0.125, 5, 3.0)]:
        with quiet():
            m = ro.Model()
            x = m.dvar()
            b = m.dvar(vtype='B')
            k = m.dvar(vtype='I')
            m.min(rso.exp(x) + cb * b + ck * k)
            m.st(x >= r0 - k - 2 * b, k >= 0, k <= kmax, x <= 4, x >= -4)
            try:
                m.soc_solve(eco_solver, display=False)
                val = m.get()
                sol = np.array(m.solution.x, dtype=float)
                g = m.do_math().to_socp()
            except Exception as e:
                val, sol, g = None, None, None
        ses.stats.obligations += 1
        ses.stats.kinds['grid-mixed-integer'] = ses.stats.kinds.get('grid-mixed-integer', 0) + 1
        exact = min(math.exp(min(4.0, max(-4.0, r0 - kk - 2 * bb))) + cb * bb + ck * kk
                    for bb in (0, 1) for kk in range(kmax + 1) if r0 - kk - 2 * bb <= 4)
        data = dict(k='mip', cb=cb, ck=ck, kmax=kmax, r0=r0)
        if val is None:
            finding(ses, 'C18:mixed-integer', 'soc_solve fails on a mixed-integer exponential-cone model', data, 'rsv.props.c18:replay')
            continue
        bad = CProg(g).check_point(sol, tol=Fraction(1, 10 ** 5)) if len(sol) == g.linear.shape[1] else [('length', len(sol))]
        rel = abs(val - exact) / (1 + abs(exact))
        if bad or rel > 1e-3:
            finding(ses, 'C18:mixed-integer', 'soc_solve on min exp(x) %+g b %+g k: value %.6g, exact %.6g (rel. error %.3g); the returned '
                    'vector violates the approximated program: %s (b = %s, k = %s)' % (cb, ck, val, exact, rel, bad[:2],
                                                                                      b.get(), k.get()), data, 'rsv.props.c18:replay')
        else:
            ses.stats.discharged += 1
    ses.stats.programs += 3
    # the model stays usable after soc_solve: exp-cone solve afterwards gives the exact value
    with quiet():
        m = models()['two']()
        m.soc_solve(eco_solver, display=False)
        v1 = m.get()
        ok = True
        try:
            m.solve(eco_solver, display=False)
            v2 = m.get()
        except Exception as e:
            ok, v2 = False, repr(e)
    ses.stats.obligations += 1
    ses.stats.kinds['solve-after-soc_solve'] = ses.stats.kinds.get('solve-after-soc_solve', 0) + 1
    if ok and abs(v1 - v2) <= 2e-3 * (1 + abs(v2)):
        ses.stats.discharged += 1
    else:
        finding(ses, 'C18:input-modified', 'solve() after soc_solve() on the same model: soc value %r, then %r' % (v1, v2),
                dict(k='carry', model='two', what='solve after soc_solve'), 'rsv.props.c18:replay')


def replay(data, verbose=False):
    k = data['k']
    if k == 'carry':
        with quiet():
            m = models()[data['model']]()
            f = m.do_math()
            n0 = len(f.qmat)
            f.to_socp()
            n1 = len(f.qmat)
        if verbose:
            print('model %s: cone list of the cached formula %d -> %d entries after to_socp()' % (data['model'], n0, n1))
        if 'modified' in data.get('what', '') or 'second' in data.get('what', '') or 'solve after' in data.get('what', ''):
            return n0 != n1
        return True
    if k == 'stages':
        case = data['case']
        if data.get('lemma') == 'head-sign':
            with quiet():
                m = models()[case['model']]()
                g = _strip_copy(m.do_math()).to_socp(case['degree'], tuple(case['cuts']))
            lb = np.array(g.lb, dtype=float).reshape(-1)[data['head']]
            if verbose:
                print('real to_socp(): lower bound of cone head column %d is %r' % (data['head'], lb))
            return not (lb >= 0)
        if data.get('lemma') == 'tight':
            # concrete accuracy at this degree through the real soc_solve: min exp(x) - c*x has the closed form c - c*log(c)
            import math
            from rsome import ro, eco_solver
            import rsome as rso
            worst = 0.0
            for c in (0.5, 2.0, 6.0):
                with quiet():
                    mm = ro.Model()
                    x = mm.dvar()
                    mm.min(rso.exp(x) - c * x)
                    mm.st(x >= -5, x <= 5)
                    mm.soc_solve(eco_solver, degree=case['degree'], cuts=tuple(case['cuts']), display=False)
                    val = mm.get()
                exact = c - c * math.log(c)
                worst = max(worst, abs(val - exact) / (1 + abs(exact)))
            if verbose:
                print('soc_solve(degree=%d): worst relative error of min exp(x) - c*x against c - c*log(c): %.3g' % (case['degree'], worst))
            return worst > 1e-3
        if 'point' not in data:
            return True
        with quiet():
            m = models()[case['model']]()
            g = _strip_copy(m.do_math()).to_socp(case['degree'], tuple(case['cuts']))
        G = CProg(g)
        bad = G.check_point(data['point'], tol=Fraction(1, 10 ** 7))
        if verbose:
            print('point accepted by the real to_socp() program: %s ; violates stage lemma %s' % (not bad, data['lemma']))
        return not [b_ for b_ in bad if b_[0] not in ('exp',)]
    if k == 'mip':
        import math
        from rsome import ro, eco_solver
        import rsome as rso
        cb, ck, kmax, r0 = data['cb'], data['ck'], data['kmax'], data['r0']
        with quiet():
            m = ro.Model()
            x = m.dvar()
            b = m.dvar(vtype='B')
            kk_ = m.dvar(vtype='I')
            m.min(rso.exp(x) + cb * b + ck * kk_)
            m.st(x >= r0 - kk_ - 2 * b, kk_ >= 0, kk_ <= kmax, x <= 4, x >= -4)
            try:
                m.soc_solve(eco_solver, display=False)
                val, bv, kv = m.get(), float(b.get()), float(kk_.get())
            except Exception as e:
                if verbose:
                    print('soc_solve fails:', e)
                return True
        exact = min(math.exp(min(4.0, max(-4.0, r0 - q - 2 * p_))) + cb * p_ + ck * q
                    for p_ in (0, 1) for q in range(kmax + 1) if r0 - q - 2 * p_ <= 4)
        if verbose:
            print('soc_solve: value %.6g (b=%g, k=%g); exact optimum by enumeration %.6g' % (val, bv, kv, exact))
        return abs(val - exact) > 1e-3 * (1 + abs(exact)) or bv < -1e-6 or bv > 1 + 1e-6 or abs(kv - round(kv)) > 1e-6
    if verbose:
        print(data)
    return True
