"""C14 - dual() returns valid shadow prices of the user's constraints.

Symbolic half (engine SI): a symbolic dual solution (pi, upi, lpi) and a symbolic primal point are
injected as model.solution; the KKT conditions of the real COMPILED program (in the convention the
interfaces deliver: c = A'pi + upi + lpi, pi<=0 on <= rows, upi<=0, lpi>=0, complementary
slackness) are assumed; the real LinConstr.dual()/Bounds.dual() run unchanged on these symbolic
arrays; z3 decides that the user-level certificate holds for ALL such KKT points:
   (i)   grad f = sum_k A_k' y_k + sum_bounds e_j d_j       (rows in <=/== orientation)
   (ii)  sum_k b_k' y_k + sum_bounds value_j d_j = f(x*)     (=> equals the optimal objective)
   (iii) signs follow the direction of optimisation
   (iv)  shapes: each result is shaped like its constraint.
Concrete half: each dual-capable interface's (pi, upi, lpi) satisfies those KKT conditions on the
compiled program within tolerance, and the user-level identities hold with the real numbers.
"""
from fractions import Fraction
import numpy as np

from ..poly import Poly, pvars, parr, z3mod
from ..cprog import CProg
from ..smt import HarnessError, fval
from ..harness import finding
from ..util import quiet

PROP = 'C14'
LEVEL = 'translation_validation'
TIMEOUT_MS = 30000

META = dict(
    functions=['rsome.lp.LinConstr.dual', 'rsome.lp.Bounds.dual', 'rsome.lp.Model.do_math (ciarray)',
               'rsome.lp.def_sol (marginals)', 'rsome.grb_solver.solve (pi, rc)', 'rsome.eco_solver.solve (y, z)',
               'rsome.ro.Model.st (returned constraint objects)'],
    rule='one case = one continuous LP written through the API; symbolic half: one obligation per certificate '
         'identity over all KKT points of the compiled program; concrete half: one per dual-capable interface; '
         'non-trivial = LP feasible and bounded (exact) and all identities decided; distinct by name',
    bounds='<= 4 variables in 1-2 arrays, <= 4 constraint arrays of <= 3 rows mixing <=, >=, ==, bounds on whole '
           'arrays and on slices (at most one upper and one lower bound constraint per entry, as the property states), '
           'min and max; build histories: formulation or solve when only a prefix of the constraint objects exists',
    outside='degenerate duals are covered (any KKT point); models with convex atoms (dual() is stated for linear models)',
    assumptions=['KKT convention of the interfaces: c = A\'pi + upi + lpi, pi <= 0 (<= rows), upi <= 0 <= lpi (min)',
                 'scipy sparse @ object arrays is not used by dual(); no stub needed'],
)


def gen(rnd, i):
    n1 = rnd.choice([1, 2, 3])
    n2 = rnd.choice([0, 1, 2]) if n1 < 3 else rnd.choice([0, 1])
    n = n1 + n2
    g = lambda: rnd.choice([-2, -1, 0, 1, 2, 0.5])
    cons = []
    for _ in range(rnd.choice([1, 2, 3])):
        r = rnd.choice([1, 2, 3])
        A = [[g() for _ in range(n)] for _ in range(r)]
        s = rnd.choice(['le', 'ge', 'eq', 'le'])
        cons.append(dict(A=A, s=s))
    # bounds: per array or per slice, at most one U and one L per entry
    bnds = []
    for arr, size, off in (('x', n1, 0), ('y', n2, n1)):
        if size == 0:
            continue
        mode = rnd.choice(['whole', 'slice', 'mixed', 'perm', 'perm'] if size >= 2 else ['whole', 'slice', 'mixed'])
        if mode == 'perm':
            # bounds on slices whose entries are NOT in ascending order of the variable: x[::-1] >= scalar,
            # x[[k, .., 0]] <= array; entry k of dual() belongs to entry k of the slice
            sel = list(range(size))[::-1]
            bnds.append(dict(arr=arr, idx=dict(sel=sel, rev=True), t='L', v=rnd.choice([-2, -1, 0])))
            sel2 = sel[:]
            rnd.shuffle(sel2)
            if rnd.random() < 0.5:
                bnds.append(dict(arr=arr, idx=dict(sel=sel2, rev=False), t='U', v=[rnd.choice([1, 2, 3]) for _ in sel2]))
            else:
                bnds.append(dict(arr=arr, idx=dict(sel=sel2, rev=False), t='U', v=rnd.choice([1, 2.5])))
        elif mode == 'whole':
            bnds.append(dict(arr=arr, idx=None, t='L', v=[rnd.choice([-2, -1, 0]) for _ in range(size)]))
            bnds.append(dict(arr=arr, idx=None, t='U', v=[rnd.choice([1, 2, 3]) for _ in range(size)]))
        elif mode == 'slice':
            for j in range(size):
                bnds.append(dict(arr=arr, idx=j, t='L', v=rnd.choice([-2, -1, 0])))
                if rnd.random() < 0.7:
                    bnds.append(dict(arr=arr, idx=j, t='U', v=rnd.choice([1, 2, 3])))
                else:
                    bnds.append(dict(arr=arr, idx=j, t='U', v=4))
        else:
            bnds.append(dict(arr=arr, idx=None, t='L', v=-2))
            bnds.append(dict(arr=arr, idx=[0, size], t='U', v=rnd.choice([1, 2.5])))
    x0 = [rnd.choice([-1, 0, 0.5, 1]) for _ in range(n)]
    for c in cons:
        ax = [sum(a * b for a, b in zip(row, x0)) for row in c['A']]
        if c['s'] == 'le':
            c['b'] = [v + rnd.choice([0, 1, 2]) for v in ax]
        elif c['s'] == 'ge':
            c['b'] = [v - rnd.choice([0, 1, 2]) for v in ax]
        else:
            c['b'] = ax
    for k, c in enumerate(cons):
        # every third constraint is written as a 2-D expression (column or row matrix): dual() must come back in that shape
        c['shape2d'] = [None, 'col', 'row'][(i + k) % 3]
    spec = dict(name='lp%d' % i, n1=n1, n2=n2, cons=cons, bnds=bnds, c=[g() for _ in range(n)],
                sense=rnd.choice(['min', 'max']), front=['ro', 'lp', 'ro-wc'][i % 3], order=['obj_last', 'obj_first'][(i // 2) % 2])
    # build histories: the model is formulated (or solved) when only the first `mid` constraint objects exist, the others
    # are added afterwards - dual() must still read the rows of ITS constraint in the program compiled last
    hist = [None, 'formulate', None, 'resolve', None, 'formulate', 'resolve'][i % 7]
    if hist and len(cons) + len(bnds) >= 2:
        spec['hist'] = hist
        spec['mid'] = 1 + (i // 7) % (len(cons) + len(bnds) - 1)
        spec['order'] = 'obj_first'
    return spec


def cases(tier, seed, rnd):
    n = 40 if tier == 'quick' else 600
    return [dict(spec=gen(rnd, i)) for i in range(n)]


def build(spec):
    from rsome import ro, lp
    m = lp.Model() if spec.get('front') == 'lp' else ro.Model()
    x = m.dvar(spec['n1'])
    y = m.dvar(spec['n2']) if spec['n2'] else None
    n1 = spec['n1']

    def lin(row):
        e = (np.array(row[:n1], dtype=float) * x).sum()
        if y is not None:
            e = e + (np.array(row[n1:], dtype=float) * y).sum()
        return e
    def objective():
        if spec.get('front') == 'ro-wc':
            # the same objective stated as a worst case over a random variable that does not matter (minmax / maxmin)
            z = m.rvar(1)
            (m.minmax if spec['sense'] == 'min' else m.maxmin)(lin(spec['c']) + 0.0 * z.sum(), z >= 0, z <= 1)
        else:
            (m.min if spec['sense'] == 'min' else m.max)(lin(spec['c']))
    if spec.get('order') == 'obj_first':
        objective()
    objs = []
    added = [0]

    def step():
        added[0] += 1
        if spec.get('hist') and added[0] == spec.get('mid'):
            with quiet():
                if spec['hist'] == 'formulate':
                    m.do_math()
                else:
                    try:
                        m.solve(display=False)
                    except Exception:  # noqa  (the intermediate model may be unbounded or infeasible)
                        m.do_math()
    for c in spec['cons']:
        A = np.array(c['A'], dtype=float)
        e = A[:, :n1] @ x
        if y is not None:
            e = e + A[:, n1:] @ y
        b = np.array(c['b'], dtype=float)
        if c.get('shape2d'):
            shp = (len(c['b']), 1) if c['shape2d'] == 'col' else (1, len(c['b']))
            e, b = e.reshape(shp), b.reshape(shp)
        con = (e <= b) if c['s'] == 'le' else ((e >= b) if c['s'] == 'ge' else (e == b))
        objs.append(m.st(con))
        step()
    bobjs = []
    for b in spec['bnds']:
        v = x if b['arr'] == 'x' else y
        if b['idx'] is None:
            tgt = v
        elif isinstance(b['idx'], dict):
            tgt = v[::-1] if b['idx']['rev'] else v[np.array(b['idx']['sel'])]
        elif isinstance(b['idx'], list):
            tgt = v[b['idx'][0]:b['idx'][1]]
        else:
            tgt = v[b['idx']]
        val = np.array(b['v'], dtype=float) if isinstance(b['v'], list) else b['v']
        con = (tgt <= val) if b['t'] == 'U' else (tgt >= val)
        bobjs.append(m.st(con))
        step()
    if spec.get('order') != 'obj_first':
        objective()
    return m, x, y, objs, bobjs


def inject_solution(m, sol):
    if hasattr(m, 'rc_model'):
        m.rc_model.solution = sol
    m.solution = sol


def user_rows(spec):
    """The user's model from the spec alone: rows (a, b, sense in {'le','eq'}) per constraint and bounds."""
    n = spec['n1'] + spec['n2']
    groups = []
    for c in spec['cons']:
        rows = []
        for a, b in zip(c['A'], c['b']):
            if c['s'] == 'ge':
                rows.append(([-Fraction(v) for v in a], -Fraction(b), 'le'))
            else:
                rows.append(([Fraction(v) for v in a], Fraction(b), 'le' if c['s'] == 'le' else 'eq'))
        groups.append(rows)
    bgroups = []
    for b in spec['bnds']:
        size = spec['n1'] if b['arr'] == 'x' else spec['n2']
        off = 0 if b['arr'] == 'x' else spec['n1']
        if b['idx'] is None:
            idx = list(range(size))
        elif isinstance(b['idx'], dict):
            idx = list(b['idx']['sel'])
        elif isinstance(b['idx'], list):
            idx = list(range(b['idx'][0], b['idx'][1]))
        else:
            idx = [b['idx']]
        vals = b['v'] if isinstance(b['v'], list) else [b['v']] * len(idx)
        bgroups.append(dict(t=b['t'], cols=[off + j for j in idx], vals=[Fraction(v) for v in vals],
                            scalar=not isinstance(b['idx'], (list, dict)) and b['idx'] is not None))
    return groups, bgroups


def run_case(case, ses):
    from rsome.lp import Solution
    z3 = z3mod()
    spec = case['spec']
    name = spec['name']
    with quiet():
        m, x, y, objs, bobjs = build(spec)
        f = m.do_math()
    P = CProg(f)
    ses.stats.programs += 1
    nrow, ncol = P.m, P.n
    vs = P.z3vars()
    Pc = P.constraints(vs)
    st, opt = ses.optimum(Pc, P.obj_term(vs), label=name + '/exact')
    if st != 'optimal':
        ses.stats.kinds['precondition-not-met'] = ses.stats.kinds.get('precondition-not-met', 0) + 1
        return
    sign = 1 if spec['sense'] == 'min' else -1
    # ---------------- symbolic half
    pi = [z3.Real('pi%d' % i) for i in range(nrow)]
    up = [z3.Real('up%d' % j) for j in range(ncol)]
    lo = [z3.Real('lo%d' % j) for j in range(ncol)]
    K = list(Pc)
    for j in range(ncol):
        col = z3.Sum([pi[i] * z3.RealVal(str(P.rows[i][0][j])) for i in range(nrow) if j in P.rows[i][0]] or [z3.RealVal(0)])
        K.append(z3.RealVal(str(P.obj[j])) == col + up[j] + lo[j])
        K += [up[j] <= 0, lo[j] >= 0]
        if P.ub[j] is None:
            K.append(up[j] == 0)
        else:
            K.append(z3.Or(up[j] == 0, vs[j] == z3.RealVal(str(P.ub[j]))))
        if P.lb[j] is None:
            K.append(lo[j] == 0)
        else:
            K.append(z3.Or(lo[j] == 0, vs[j] == z3.RealVal(str(P.lb[j]))))
    for i in range(nrow):
        lhs, c, s = P.row_term(i, vs)
        if s == 0:
            K += [pi[i] <= 0, z3.Or(pi[i] == 0, lhs == c)]
    # inject symbolic solution and run the real dual()
    PI = pvars('pi', (nrow,))
    UP = pvars('up', (ncol,))
    LO = pvars('lo', (ncol,))
    sol = Solution('symbolic', 0.0, np.zeros(ncol), 0, 0.0, y=dict(pi=PI, upi=UP, lpi=LO))
    inject_solution(m, sol)
    env = {}
    for i in range(nrow):
        env['pi[%d]' % i] = pi[i]
    for j in range(ncol):
        env['up[%d]' % j] = up[j]
        env['lo[%d]' % j] = lo[j]
    groups, bgroups = user_rows(spec)
    n = spec['n1'] + spec['n2']
    ucols = list(range(x.first, x.first + x.size)) + (list(range(y.first, y.first + y.size)) if y is not None else [])
    grad = [z3.RealVal(0)] * n
    rhs = z3.RealVal(0)
    signs = []
    shape_bad = []
    try:
        for k, (con, rows) in enumerate(zip(objs, groups)):
            d = con.dual()
            c_ = spec['cons'][k]
            if c_.get('shape2d'):
                want = (len(rows), 1) if c_['shape2d'] == 'col' else (1, len(rows))
                if np.shape(d) != want:
                    shape_bad.append('constraint %d has shape %s but dual() has shape %s' % (k, want, np.shape(d)))
                    continue
            arr = parr(d).reshape(-1)
            if len(arr) != len(rows):
                shape_bad.append('constraint %d: dual has %d entries for %d rows' % (k, len(arr), len(rows)))
                continue
            for yk, (a, b, s) in zip(arr, rows):
                t = yk.z3(env)
                for j in range(n):
                    if a[j] != 0:
                        grad[j] = grad[j] + t * z3.RealVal(str(a[j]))
                rhs = rhs + t * z3.RealVal(str(b))
                if s == 'le':
                    signs.append(t * sign <= 0)
        for k, (con, bg) in enumerate(zip(bobjs, bgroups)):
            d = con.dual()
            if bg['scalar'] and isinstance(d, np.ndarray):
                shape_bad.append('bound %d: array result for a scalar bound' % k)
            arr = parr(d).reshape(-1)
            if len(arr) != len(bg['cols']):
                shape_bad.append('bound %d: dual has %d entries for %d columns' % (k, len(arr), len(bg['cols'])))
                continue
            for dk, j, v in zip(arr, bg['cols'], bg['vals']):
                t = dk.z3(env)
                grad[j] = grad[j] + t
                rhs = rhs + t * z3.RealVal(str(v))
                signs.append(t * sign <= 0 if bg['t'] == 'U' else t * sign >= 0)
    except Exception as e:
        raise HarnessError('dual() failed on a symbolic solution: %s: %s' % (type(e).__name__, e))
    if shape_bad:
        data = dict(spec=spec, what=shape_bad)
        finding(ses, 'C14:%s:shape' % name, '%s: %s' % (name, shape_bad[0]), data, 'rsv.props.c14:replay')
        return
    cuser = [Fraction(v) for v in spec['c']]
    fx = z3.Sum([vs[ucols[j]] * z3.RealVal(str(cuser[j])) for j in range(n)])
    checks = [('stationarity', z3.Or([grad[j] != z3.RealVal(str(cuser[j])) for j in range(n)])),
              ('strong-duality', rhs != fx),
              ('signs', z3.Not(z3.And(signs)) if signs else z3.BoolVal(False))]
    allok = True
    for tag, neg in checks:
        res, model = ses.oblige('%s/%s' % (name, tag), K, [neg], kind='symbolic-' + tag, twin=(tag == 'stationarity'),
                                sample=dict(model=name, rows=nrow, cols=ncol, sense=spec['sense']))
        allok = allok and res == 'unsat'
        if res == 'sat':
            vals = dict(pi=[float(fval(model, t)) for t in pi], upi=[float(fval(model, t)) for t in up],
                        lpi=[float(fval(model, t)) for t in lo], x=[float(fval(model, t)) for t in vs])
            data = dict(spec=spec, tag=tag, kkt=vals)
            if replay(data):
                finding(ses, 'C14:%s:%s' % (name, tag),
                        '%s: a KKT point of the compiled LP for which dual() violates %s' % (name, tag), data,
                        'rsv.props.c14:replay')
            else:
                raise HarnessError('C14 symbolic counterexample does not reproduce: %s/%s' % (name, tag))
    if allok:
        ses.stats.nontrivial.add(name)
    # ---------------- concrete half
    for iface in ('default', 'grb', 'eco'):
        concrete(ses, spec, iface, opt, sign)


def concrete(ses, spec, iface, opt, sign):
    name = spec['name']
    from .c11 import get_solver
    with quiet():
        m, x, y, objs, bobjs = build(spec)
        try:
            m.solve(get_solver(iface), display=False)
        except Exception as e:
            ses.stats.notes.append('%s@%s raised %s' % (name, iface, str(e)[:60]))
            return
    sol = m.solution
    if sol is None or sol.x is None or sol.y is None:
        ses.stats.notes.append('%s@%s: no dual solution' % (name, iface))
        return
    ses.stats.obligations += 1
    ses.stats.kinds['concrete-' + iface] = ses.stats.kinds.get('concrete-' + iface, 0) + 1
    ok, why = numeric_certificate(spec, m, x, y, objs, bobjs, float(opt) * sign, sign)
    if ok:
        ses.stats.discharged += 1
    else:
        data = dict(spec=spec, iface=iface)
        finding(ses, 'C14:%s:%s' % (name, iface), '%s via %s: %s' % (name, iface, why), data, 'rsv.props.c14:replay')


def numeric_certificate(spec, m, x, y, objs, bobjs, optuser, sign, tol=1e-5):
    groups, bgroups = user_rows(spec)
    n = spec['n1'] + spec['n2']
    grad = np.zeros(n)
    rhs = 0.0
    for con, rows in zip(objs, groups):
        d = np.array(con.dual(), dtype=float).reshape(-1)
        if len(d) != len(rows):
            return False, 'shape of dual()'
        for yk, (a, b, s) in zip(d, rows):
            grad += yk * np.array([float(v) for v in a])
            rhs += yk * float(b)
            if s == 'le' and yk * sign > tol:
                return False, 'sign of a <= row multiplier (%g)' % yk
    for con, bg in zip(bobjs, bgroups):
        d = np.array(con.dual(), dtype=float).reshape(-1)
        if len(d) != len(bg['cols']):
            return False, 'shape of bound dual()'
        for dk, j, v in zip(d, bg['cols'], bg['vals']):
            grad[j] += dk
            rhs += dk * float(v)
            if (bg['t'] == 'U' and dk * sign > tol) or (bg['t'] == 'L' and dk * sign < -tol):
                return False, 'sign of a bound multiplier (%g)' % dk
    c = np.array(spec['c'], dtype=float)
    if np.abs(grad - c).max() > tol * (1 + np.abs(c).max()):
        return False, 'objective gradient %s != dual-weighted gradients %s' % (c.tolist(), grad.round(6).tolist())
    if abs(rhs - optuser) > tol * (1 + abs(optuser)):
        return False, 'dual-weighted right-hand sides %g != optimal objective %g' % (rhs, optuser)
    return True, ''


def replay(data, verbose=False):
    from rsome.lp import Solution
    spec = data['spec']
    with quiet():
        m, x, y, objs, bobjs = build(spec)
        f = m.do_math()
    sign = 1 if spec['sense'] == 'min' else -1
    if 'kkt' in data:
        k = data['kkt']
        sol = Solution('replay', float(np.dot(f.obj, k['x'])), np.array(k['x']), 0, 0.0,
                       y=dict(pi=np.array(k['pi']), upi=np.array(k['upi']), lpi=np.array(k['lpi'])))
        inject_solution(m, sol)
        xs = np.array(k['x'])
        ucols = list(range(x.first, x.first + x.size)) + (list(range(y.first, y.first + y.size)) if y is not None else [])
        fval_ = float(np.dot(spec['c'], xs[ucols]))
        ok, why = numeric_certificate(spec, m, x, y, objs, bobjs, fval_, sign, tol=1e-9)
        if verbose:
            print('%s: KKT point of the compiled LP injected as solution; dual() certificate: %s' % (spec['name'], why or 'valid'))
        return not ok
    if 'iface' in data:
        from .c11 import get_solver
        with quiet():
            m.solve(get_solver(data['iface']), display=False)
        optuser = m.get()
        ok, why = numeric_certificate(spec, m, x, y, objs, bobjs, optuser, sign)
        if verbose:
            print('%s via %s: %s' % (spec['name'], data['iface'], why or 'valid'))
        return not ok
    if verbose:
        print(data.get('what'))
    return True
