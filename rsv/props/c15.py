"""C15 - equivalent ways of writing a model give the same optimum.

For a seeded base model every member of the rewrite group is compiled by the real code and the
exact optimum of each compiled program is computed by z3 (Optimize over exact rationals; the
epigraph sign is corrected for min/max).  All variants of one base model must have the SAME exact
optimum, and the value reported by the real solve() must equal it.  Rewrites: min f / -max -f;
order of declarations; a<=b / -b<=-a / b>=a; equality / two inequalities; bounds as bound
objects / linear constraints / inf-norm; array expression / element-wise loop; positive rescaling;
set as one list / several arguments / nested lists; ro model / single-scenario dro model.
"""
import itertools
from fractions import Fraction
import numpy as np

from ..poly import z3mod
from ..cprog import CProg
from ..smt import HarnessError
from ..harness import finding
from ..util import quiet

PROP = 'C15'
LEVEL = 'translation_validation'
TIMEOUT_MS = 30000

REWRITES = ['base', 'maxneg', 'perm', 'cmp_flip', 'cmp_neg', 'eq_split', 'bounds_lin', 'bounds_norm', 'loops', 'scale',
            'set_list', 'set_nested', 'dro', 'setb_lin', 'setb_loops', 'setb_flip', 'setfix_bounds', 'setfix_lin', 'setfix_dro']

META = dict(
    functions=['rsome.lp.Vars.__le__/__ge__ (Bounds)', 'rsome.lp.VarSub.__le__/__ge__', 'rsome.lp.Affine.__le__/__ge__/__eq__/__rsub__',
               'rsome.ro.Model.min/max/minmax/maxmin/st', 'rsome.dro.Model.minsup/maxinf/st', 'rsome.lp.RoConstr.forall',
               'rsome.lp.DecRoConstr.forall', 'rsome.subroutines.flat', 'rsome.lp.Model.do_math (bounds merge)'],
    rule='one case = one seeded base model; every rewrite (and pairs of rewrites in thorough) is compiled and its exact '
         'optimum compared with the base; non-trivial = base model feasible and bounded and all variants decided; distinct '
         'by (base seed, rewrite)',
    bounds='base models: 3 here-and-now variables, 1 LDR entry, 2 random components, 2 robust rows + 1 equality row + '
           'symmetric bounds, box / 1-norm uncertainty sets, affine or bi-affine worst-case objective; 19 rewrites (incl. a random variable fixed at a non-zero value by an equality, by two bound objects, by two rows, ro and dro), all '
           'pairs in thorough',
    outside='rewrites outside the group of the property (e.g. variable substitutions)',
    assumptions=['the exact optimum is computed by z3 Optimize on the real compiled rows (LP class)'],
)


def base_data(seed):
    import random
    r = random.Random(seed)
    g = lambda: r.choice([-2, -1, -0.5, 0.5, 1, 1.5, 2])
    return dict(c=[g() for _ in range(3)], cz=[r.choice([0, 0.5, -0.5, 1]) for _ in range(2)],
                M=[[r.choice([0, 0.5, -0.5, 1, -1]) for _ in range(2)] for _ in range(3)],
                a1=[g() for _ in range(3)], N1=[[r.choice([0, 0.5, 1, -1]) for _ in range(2)] for _ in range(3)],
                a2=[g() for _ in range(3)], b1=r.choice([3, 4, 5]), b2=r.choice([-4, -3]),
                e=[r.choice([1, -1, 0.5]) for _ in range(3)], be=r.choice([0, 0.5, -0.5]),
                rad=r.choice([1, 1.5, 2]), bound=r.choice([2, 3]), norm1=r.choice([True, False, False]),
                zhi=r.choice([[0.0, 1.0], [0.0, 0.0], [1.5, 0.0], [2.0, 1.0], [-0.5, 1.0]]),
                ldr=r.choice([True, False]), sense=r.choice(['min', 'max']),
                wfix=r.choice([0.5, -1.0, 1.5, 0.25]), cw=r.choice([1.0, -1.0, 0.5, 2.0]))


def build(d, rw):
    """Return (model, sign) for the rewrite set rw of base data d."""
    from rsome import ro, dro
    import rsome as rso
    A = np.array
    use_dro = 'dro' in rw or 'setfix_dro' in rw
    m = dro.Model(1) if use_dro else ro.Model()
    perm = 'perm' in rw
    if perm:
        z = m.rvar(2)
        x = m.dvar(3)
    else:
        x = m.dvar(3)
        z = m.rvar(2)
    w = m.rvar()       # a random variable FIXED at a non-zero value by the set (equality | pair of bound objects | pair of rows)
    y = None
    if d['ldr']:
        if use_dro:
            y = m.dvar()
            y.adapt(z[0])
        else:
            y = m.ldr()
            y.adapt(z[0])
    # ---- uncertainty set
    rad = d['rad']
    zhi = A(d['zhi'])
    if d['norm1']:
        setc = [rso.norm(z, 1) <= rad, z >= -1, z <= 1]
    elif 'setb_lin' in rw:
        setc = [1.0 * z >= -rad, 1.0 * z <= zhi]            # bounds of the set as linear constraints
    elif 'setb_loops' in rw:
        setc = [z[i] >= -rad for i in range(2)] + [z[i] <= float(zhi[i]) for i in range(2)]
    elif 'setb_flip' in rw:
        setc = [-rad <= z, zhi >= z]
    else:
        setc = [z >= -rad, z <= zhi]
    if not d['norm1']:
        # a second, looser bound on the same components, stated after the tight one (bounds must be intersected)
        if 'setb_lin' in rw:
            setc = setc + [1.0 * z >= -rad - 1.5]
        elif 'setb_flip' in rw:
            setc = [z >= -rad - 1.5] + setc
        else:
            setc = setc + [z >= -rad - 1.5]
    wf = d['wfix']
    if 'setfix_bounds' in rw or 'setfix_dro' in rw:
        setc = setc + [w >= wf, w <= wf]
    elif 'setfix_lin' in rw:
        setc = setc + [1.0 * w >= wf, 1.0 * w <= wf]
    else:
        setc = setc + [w == wf]
    if 'set_nested' in rw:
        set_args = (setc[:1], tuple(setc[1:]))       # a list and a tuple as separate arguments
    elif 'set_list' in rw:
        set_args = (setc,)
    else:
        set_args = tuple(setc)
    # ---- objective
    sense = d['sense']
    obj = (A(d['c']) * x).sum() + (A(d['cz']) * z).sum() + x @ A(d['M']) @ z
    if y is not None:
        obj = obj + 0.5 * y
    obj = obj + d['cw'] * w * x[1] + 0.5 * w
    if 'maxneg' in rw:
        sense = 'max' if sense == 'min' else 'min'
        obj = -obj
        flip = -1
    else:
        flip = 1
    cons = []
    # ---- robust rows
    lhs1 = (A(d['a1']) * x).sum() + x @ A(d['N1']) @ z
    if y is not None:
        lhs1 = lhs1 + y
    if 'loops' in rw:
        lhs1 = sum(d['a1'][i] * x[i] for i in range(3))
        lhs1 = lhs1 + sum(d['N1'][i][j] * (x[i] * z[j]) for i in range(3) for j in range(2) if d['N1'][i][j] != 0)
        if y is not None:
            lhs1 = lhs1 + y
    s1 = 2.5 if 'scale' in rw else 1.0
    b1 = d['b1']
    if 'cmp_flip' in rw:
        c1 = (s1 * b1 >= s1 * lhs1)
    elif 'cmp_neg' in rw:
        c1 = (-(s1 * b1) <= -(s1 * lhs1))
    else:
        c1 = (s1 * lhs1 <= s1 * b1)
    lhs2 = (A(d['a2']) * x).sum() + (A([0.5, -0.5]) * z).sum() + d['cw'] * w
    b2 = d['b2']
    if 'cmp_flip' in rw:
        c2 = (b2 <= lhs2)
    elif 'cmp_neg' in rw:
        c2 = (-lhs2 <= -b2)
    else:
        c2 = (lhs2 >= b2)
    # ---- a VECTOR-valued robust row (several rows dualised in one call); 'loops' writes it entry by entry, 'cmp_flip' /
    #      'cmp_neg' move it across the comparison.  With zero bounds on some components of z only, the rows of the dualised
    #      set have different senses per random component
    B3 = A([[1.0, -0.5], [-1.0, 1.5], [0.5, 2.0]])
    d3 = A([0.5, -0.25, 1.0])
    b3 = A([3.5, 4.0, 5.0])
    if 'loops' in rw:
        c3 = [x[i] + B3[i, 0] * z[0] + B3[i, 1] * z[1] + d3[i] <= b3[i] for i in range(3)]
    elif 'cmp_flip' in rw:
        c3 = [b3 >= x + B3 @ z + d3]
    elif 'cmp_neg' in rw:
        c3 = [-(x + B3 @ z + d3) >= -b3]
    else:
        c3 = [x + B3 @ z + d3 <= b3]
    # ---- deterministic equality
    lhe = (A(d['e']) * x).sum()
    if 'eq_split' in rw:
        ce = [lhe <= d['be'], lhe >= d['be']]
    else:
        ce = [lhe == d['be']]
    # ---- bounds
    B = d['bound']
    if 'bounds_lin' in rw:
        cb = [1.0 * x <= B, 1.0 * x >= -B]
    elif 'bounds_norm' in rw:
        cb = [rso.norm(x, 'inf') <= B]
    else:
        cb = [x <= B, x >= -B]
    # overlapping bounds on single entries: tighter ones stated BEFORE the array bounds (order is reversed by 'perm')
    if 'bounds_lin' in rw:
        cb = [1.0 * x[0] <= B - 1.0, 1.0 * x[2] >= -B + 1.5] + cb
    else:
        cb = [x[0] <= B - 1.0, x[2] >= -B + 1.5] + cb
    if y is not None:
        cb += [y <= 6, y >= -6]
    # ---- assemble (order of constraints permuted as well)
    if use_dro:
        F = m.ambiguity()
        F.suppset(*set_args)
        (m.minsup if sense == 'min' else m.maxinf)(obj, F)
        rob = [c1, c2] + c3
    else:
        (m.minmax if sense == 'min' else m.maxmin)(obj, *set_args)
        rob = [c1, c2] + c3
    allc = rob + ce + cb
    if perm:
        allc = list(reversed(allc))
    if 'loops' in rw:
        for c in allc:
            m.st(c)
    else:
        m.st(allc)
    sign = (1 if sense == 'min' else -1) * flip
    return m, sign, flip


def cases(tier, seed, rnd):
    n = 8 if tier == 'quick' else 60
    cs = []
    for i in range(n):
        s = rnd.randint(0, 10 ** 6)
        sets = [[r] for r in REWRITES]
        if tier == 'thorough':
            sets += [list(p) for p in itertools.combinations(REWRITES[1:], 2)
                     if not ({'cmp_flip', 'cmp_neg'} <= set(p) or {'bounds_lin', 'bounds_norm'} <= set(p)
                             or {'set_list', 'set_nested'} <= set(p))]
        cs.append(dict(seed=s, sets=sets))
    return cs


def exact_value(ses, m, sign_model):
    """Exact optimum of the user's problem: sign * (optimum of the compiled epigraph program)."""
    with quiet():
        f = m.do_math()
    P = CProg(f)
    if P.qmat or P.xmat:
        raise HarnessError('C15 base family must compile to an LP')
    vs = P.z3vars()
    st, v = ses.optimum(P.constraints(vs), P.obj_term(vs))
    return st, (None if v is None else v * sign_model), P


def run_case(case, ses):
    d = base_data(case['seed'])
    name = 'base%d' % case['seed']
    with quiet():
        m0, sign0, flip0 = build(d, ['base'])
    st0, v0, P0 = exact_value(ses, m0, m0.sign)
    ses.stats.programs += 1
    if st0 != 'optimal':
        # an infeasible / unbounded base model: every rewrite must have the same status (equivalent ways of writing a model
        # agree on infeasibility too - a rewrite that alone is solvable shows that one of the two programs is wrong)
        ses.stats.kinds['base-not-optimal'] = ses.stats.kinds.get('base-not-optimal', 0) + 1
        if st0 == 'unknown':
            return
        for rw in case['sets']:
            with quiet():
                m, sign, flip = build(d, rw)
            st, v, P = exact_value(ses, m, m.sign)
            ses.stats.programs += 1
            ses.stats.obligations += 1
            ses.stats.kinds['status-equal'] = ses.stats.kinds.get('status-equal', 0) + 1
            if st == 'unknown':
                ses.stats.undecided += 1
            elif st != st0:
                data = dict(seed=case['seed'], rw=rw, base=st0, variant=str(v), status=st, status_only=True)
                if replay(data):
                    finding(ses, 'C15:%s:status' % '+'.join(rw), '%s: the base model is %s, its rewrite %s is %s (%s)'
                            % (name, st0, rw, st, v), data, 'rsv.props.c15:replay')
                else:
                    raise HarnessError('C15 status difference does not reproduce with the real solver: %s/%s' % (name, rw))
            else:
                ses.stats.discharged += 1
        return
    allok = True
    for rw in case['sets']:
        label = '%s/%s' % (name, '+'.join(rw))
        try:
            with quiet():
                m, sign, flip = build(d, rw)
        except Exception as e:
            raise HarnessError('variant %s failed to build: %s: %s' % (label, type(e).__name__, e))
        st, v, P = exact_value(ses, m, m.sign)
        ses.stats.programs += 1
        ses.stats.obligations += 1
        ses.stats.kinds['optimum-equal'] = ses.stats.kinds.get('optimum-equal', 0) + 1
        want = v0 * flip
        if st == 'unknown':
            ses.stats.undecided += 1
            allok = False
            continue
        if st != 'optimal' or v != want:
            allok = False
            data = dict(seed=case['seed'], rw=rw, base=str(v0), variant=str(v), status=st)
            if replay(data):
                finding(ses, 'C15:%s' % '+'.join(rw), '%s: rewrite %s changes the optimum: %s (%s) instead of %s'
                        % (name, rw, v, st, want), data, 'rsv.props.c15:replay')
            else:
                raise HarnessError('C15 difference does not reproduce with the real solver: %s' % label)
            continue
        ses.stats.discharged += 1
        if len(ses.stats.samples) < 6:
            ses.stats.samples.append(dict(base=name, rewrite=rw, exact_optimum=str(v), rows=P.m, cols=P.n))
        # the real solve() agrees
        with quiet():
            try:
                m.solve(display=False)
                rep = m.get()
            except Exception:
                rep = None
        ses.stats.obligations += 1
        ses.stats.kinds['reported-equal'] = ses.stats.kinds.get('reported-equal', 0) + 1
        if rep is not None and abs(rep - float(want)) <= 1e-6 * (1 + abs(float(want))):
            ses.stats.discharged += 1
        else:
            allok = False
            finding(ses, 'C15:%s:reported' % '+'.join(rw), '%s: solve() of rewrite %s reports %r, exact %s' % (name, rw, rep, want),
                    dict(seed=case['seed'], rw=rw, base=str(v0), variant=str(v), status=st), 'rsv.props.c15:replay')
    if allok:
        ses.stats.nontrivial.add(name)


def replay(data, verbose=False):
    d = base_data(data['seed'])
    with quiet():
        m0, s0, f0 = build(d, ['base'])
        m0.solve(display=False)
        m1, s1, f1 = build(d, data['rw'])
        m1.solve(display=False)
    try:
        a = m0.get()
    except Exception:
        a = None
    try:
        b = m1.get() * f1
    except Exception:
        b = None
    if verbose:
        print('base model optimum %r ; rewrite %s gives %r (sign-corrected)' % (a, data['rw'], b))
    if data.get('status_only'):
        return (a is None) != (b is None)
    return a is None or b is None or abs(a - b) > 1e-6 * (1 + abs(a))
