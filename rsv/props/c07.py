"""C07 - deterministic optimum is the true optimum; conic atom encodings are exact.

(a) projection per block of the real compiled program:  user(iface) /\\ forall locals: not Block  -> unsat
    (LRA for LP atoms, NRA for second-order-cone atoms; tower atoms with IPCone abstracted to its
    power-cone meaning, which (b) establishes for the real to_soc() output)
(b) tower theorem, exactness direction, for EVERY integer weight vector beta up to the bound
    (exists-forall LRA in logarithms + boundary samples) - covers all binary-expansion branches of split()
(c) optimum: exact LRA optimum of P == exact optimum of the user's model (z3 Optimize) == solve();
    cone programs: no user-feasible point beats the reported optimum by more than delta (QF_NRA)
(d) small mixed-integer models: exact optimum by z3 (LIRA) == value reported by the real MILP path.
"""
from fractions import Fraction
import itertools
import numpy as np

from ..poly import z3mod
from ..cprog import MalformedProgram
from ..tv import Compiled, hold_terms, project_block
from ..oracle import cons_eval
from .. import detgen
from ..towers import tower_theorem, all_betas
from ..smt import HarnessError, fval
from ..harness import finding
from ..util import quiet
from .c06 import TOWER_ATOMS, TOL_ATOMS, is_tol

PROP = 'C07'
LEVEL = 'translation_validation'
TIMEOUT_MS = 40000

META = dict(
    functions=['rsome.lp.Model.do_math (abs/1-norm/inf-norm)', 'rsome.socp.Model.do_math (E/S/Q, G/T/C wiring)',
               'rsome.lp.IPCone.to_pot/split/to_soc', 'rsome.lp.Affine.rsocone/quad', 'rsome.ro.Model.solve/get',
               'rsome.lp.def_sol (MILP path)'],
    rule='cases: (i) one deterministic model per atom x form: projection obligations per block; (ii) one tower '
         'theorem per weight vector beta; (iii) exact-optimum comparisons; non-trivial = at least one exists-forall '
         'or tower-exactness obligation discharged; distinct by spec name / beta',
    bounds='atoms/forms as C06; beta: all integer vectors of length 2..3 with sum <= 8 (quick) / length 2..4 sum <= 16 '
           '(thorough) plus [q, p-q] for p <= 12 (quick) / 24 (thorough) and equal-weight vectors up to length 6; '
           'MILP: <= 4 integer columns with bounds',
    outside='exp-cone atoms (abstraction family), LMI; towers are proved on the open orthant + boundary samples '
            '(closedness of both cones is an assumption)',
    assumptions=['log is strictly increasing (faithfulness of the logarithmic abstraction on positive columns)',
                 'closedness of the power cone and of the rotated-cone tower (boundary by samples)',
                 'quad(): tolerance regime as C06'],
)


def cases(tier, seed, rnd):
    cs = [dict(kind='model', spec=s) for s in detgen.core_specs()]
    cs += [dict(kind='milp', idx=i) for i in range(6 if tier == 'quick' else 40)]
    if tier == 'quick':
        betas = all_betas(3, 8) + [[q, p - q] for p in range(2, 13) for q in range(1, p)] + [[1] * n for n in range(2, 7)]
    else:
        betas = all_betas(4, 16) + [[q, p - q] for p in range(2, 25) for q in range(1, p)] + [[1] * n for n in range(2, 9)]
    seen, uniq = set(), []
    for b in betas:
        if tuple(b) not in seen:
            seen.add(tuple(b))
            uniq.append(b)
    chunk = 25
    cs += [dict(kind='towers', betas=uniq[i:i + chunk]) for i in range(0, len(uniq), chunk)]
    return cs


def run_case(case, ses):
    if case['kind'] == 'towers':
        for beta in case['betas']:
            r = tower_theorem(ses, beta, 'both')
            if isinstance(r, tuple):
                finding(ses, 'C07:tower:%s' % (beta,), 'IPCone(beta=%s).to_soc(): %s' % (beta, r[1]['what']),
                        r[1], 'rsv.towers:replay_tower')
            elif r is True:
                ses.stats.nontrivial.add('beta%s' % (beta,))
        ses.stats.programs += len(case['betas'])
        return
    if case['kind'] == 'milp':
        return run_milp(case, ses)
    run_model(case['spec'], ses)


def run_model(spec, ses):
    z3 = z3mod()
    name = spec['name']
    tower = spec['atom'] in TOWER_ATOMS or spec.get('base') in ('power3', 'gmean')
    try:
        with quiet():
            cm = Compiled(detgen.desc_from_spec(spec), abstract_towers=tower, front=spec.get('front', 'ro'), style=spec.get('style'))
    except HarnessError:
        raise
    except MalformedProgram as e:
        data = dict(spec=spec, malformed=str(e))
        finding(ses, '%s:%s:malformed' % (PROP, spec['name']), 'model %s: %s' % (spec['name'], e), data,
                'rsv.props.%s:replay' % PROP.lower())
        return
    except Exception as e:
        if not spec.get('may_raise'):
            raise
        # RSOME refuses the expression loudly: allowed ("where an operation is not supported it raises")
        ses.stats.kinds['member-rejected-by-rsome'] = ses.stats.kinds.get('member-rejected-by-rsome', 0) + 1
        return
    ses.stats.programs += 1
    cp = cm.cp
    vs = cp.z3vars()
    env = cm.env(vs)
    S = []
    for row in cm.rows():
        S += hold_terms(row, env, z3)
    # binary decisions take values in {0, 1} (the integrality itself comes with the z3 sort of the column)
    for nm, arr, vt in cm.o.dvars:
        if vt == 'B' or (len(vt) > 1 and 'B' in vt):
            for i, p_ in enumerate(arr.reshape(-1)):
                if vt == 'B' or vt[i] == 'B':
                    S += [env.p(p_) >= 0, env.p(p_) <= 1]
    Sdefs = env.defs
    iface_cols = sorted(set(cm.iface.values()))
    tol = is_tol(spec)
    if tol:
        ses.stats.notes.append('%s: tolerance regime, projection skipped (optimum sandwich only)' % name)
    blocks = cp.blocks(iface_cols)
    if not tol:
        for bi, blk in enumerate(blocks):
            loc = sorted(blk['locals'])
            nonlin = bool(blk['cones'] or blk.get('pcones') or blk.get('xcones'))
            label = '%s/block%d(%dr,%dl%s)' % (name, bi, len(blk['rows']), len(loc), ',cone' if nonlin else '')
            # core only where the whole query is linear: a linear block of a conic program still has the nonlinear oracle
            # semantics as hypothesis
            core = not nonlin and not (cp.qmat or cp.pcones or cp.xmat)
            res, model = project_block(ses, cp, blk, vs, S + Sdefs, label, ('projection-nra' if nonlin else 'projection-lra'),
                                       core, twin=(bi == 0),
                                       timeout_ms=(8000 if ses.tier == 'quick' and nonlin else 40000),
                                       sample=dict(model=name, rows=len(blk['rows']), locals=len(loc), nonlinear=nonlin))
            if res == 'unsat' and loc:
                ses.stats.nontrivial.add(name)
            if res == 'sat':
                pt = {n: fval(model, vs[c]) for n, c in cm.iface.items()}
                data = dict(spec=spec, point={k: str(v) for k, v in pt.items()})
                if replay(data):
                    finding(ses, 'C07:%s:block%d' % (name, bi),
                            'model %s: a point satisfying the user constraints is cut off by the compiled program'
                            % name, data, 'rsv.props.c07:replay')
                elif cp.xmat:
                    # cone-term abstraction: the abstract model need not be a real point (see the numeric search below)
                    ses.stats.undecided += 1
                    ses.dismiss(label, 'abstract projection counterexample of the cone-term abstraction without a real witness')
                else:
                    raise HarnessError('projection counterexample does not reproduce: %s' % label)
        bc = cp.bound_cons(vs, iface_cols)
        if bc:
            rb, mb = ses.oblige(name + '/iface-bounds', S + Sdefs, [z3.Not(z3.And(bc))], kind='projection-qf', twin=False)
            if rb == 'sat':
                pt = {n: fval(mb, vs[c]) for n, c in cm.iface.items()}
                data = dict(spec=spec, point={k: str(v) for k, v in pt.items()})
                if replay(data):
                    finding(ses, 'C07:%s:iface-bounds' % name, 'model %s: a point satisfying the user constraints violates the bounds '
                            'the compiled program puts on the user\'s columns' % name, data, 'rsv.props.c07:replay')
                elif not cp.xmat:
                    raise HarnessError('interface-bounds counterexample does not reproduce: %s' % name)
                else:
                    ses.dismiss(name + '/iface-bounds', 'abstract counterexample of the cone-term abstraction without a real witness')
                    ses.stats.undecided += 1
    # ---- optimum
    with quiet():
        cmr = Compiled(detgen.desc_from_spec(spec), front=spec.get('front', 'ro'), style=spec.get('style')) if tower else cm
        try:
            if cmr.cp.qmat or cmr.cp.xmat:
                from rsome import eco_solver as solver
                cmr.r.m.solve(solver, display=False)
            else:
                cmr.r.m.solve(display=False)
            reported = cmr.r.m.get()
        except Exception as e:
            reported = None
            ses.stats.notes.append('%s: solve failed %s' % (name, str(e)[:60]))
    sign = cm.o.obj[0]
    if cp.xmat:
        # exponential cones: phi is uninterpreted, so optimum statements are meaningless in the abstraction.  A real
        # witness against exactness is searched numerically instead (true functions): a point that satisfies the user's
        # constraints with a better objective than the value the real solver reports; it is pinned into the real
        # compiled program by replay() before it is reported.
        if reported is not None:
            ses.stats.obligations += 1
            ses.stats.kinds['numeric-better-point'] = ses.stats.kinds.get('numeric-better-point', 0) + 1
            pt = numeric_better_point(cm, reported * sign)
            if pt is not None:
                data = dict(spec=spec, point={k: str(Fraction(v)) for k, v in pt.items()}, reported=reported, numeric=True)
                if replay(dict(data, reported_check=False)):
                    finding(ses, 'C07:%s:conservative' % name,
                            'model %s: a point satisfying the user constraints (true exp/log) with objective %.6g is cut off by '
                            'the compiled program; reported optimum %r' % (name, pt.get('t'), reported), data, 'rsv.props.c07:replay')
                    return
            ses.stats.discharged += 1
        return
    if not cp.qmat and not cp.pcones and not Sdefs:
        P = cp.constraints(vs)
        sp, vp = ses.optimum(P, vs[0], label=name + '/optP', ints=cp.int_vars(vs))
        so, vo = ses.optimum(S, vs[0], label=name + '/optS', ints=cp.int_vars(vs))
        ses.stats.obligations += 1
        ses.stats.kinds['exact-optimum'] = ses.stats.kinds.get('exact-optimum', 0) + 1
        if 'unknown' in (sp, so):
            ses.stats.undecided += 1
            ses.stats.notes.append('%s: optimum undecided' % name)
        elif (sp, vp) != (so, vo) or (reported is not None and sp == 'optimal'
                                      and abs(float(vp) * sign - reported) > 1e-5 * (1 + abs(float(vp)))):
            data = dict(spec=spec, optP=str(vp), optS=str(vo), sp=sp, so=so, reported=reported)
            finding(ses, 'C07:%s:optimum' % name, 'model %s: compiled optimum %s (%s), true optimum %s (%s), solve() %r'
                    % (name, vp, sp, vo, so, reported), data, 'rsv.props.c07:replay')
        else:
            ses.stats.discharged += 1
    elif reported is not None:
        val = Fraction(reported * sign)
        delta = Fraction(1, 10 ** 5) * (1 + abs(val))
        box = []
        for n, c in cm.iface.items():
            box += [vs[c] <= 64, vs[c] >= -64]
        res, model = ses.oblige(name + '/no-better-user-point', S + Sdefs + box,
                                [vs[0] <= z3.RealVal(str(val - delta))], kind='optimum-sandwich', core=False,
                                timeout_ms=(8000 if ses.tier == 'quick' else 40000), twin=False,
                                sample=dict(model=name, reported=reported))
        if res == 'sat':
            pt = {n: fval(model, vs[c]) for n, c in cm.iface.items()}
            data = dict(spec=spec, point={k: str(v) for k, v in pt.items()}, reported=reported)
            if replay(data):
                finding(ses, 'C07:%s:conservative' % name,
                        'model %s: a user-feasible point has objective %s better than the reported optimum %r'
                        % (name, pt.get('t'), reported), data, 'rsv.props.c07:replay')
            else:
                raise HarnessError('sandwich counterexample does not reproduce: %s' % name)


# ------------------------------------------------------------------ MILP members
def milp_desc(idx):
    import random
    rnd = random.Random(1000 + idx)
    n = rnd.choice([2, 3, 4])
    c = [rnd.choice([-3, -2, -1, 1, 2, 3]) for _ in range(n)]
    A = [[rnd.choice([-2, -1, 0, 1, 2, 3]) for _ in range(n)] for _ in range(2)]
    b = [rnd.choice([3.5, 4.5, 5.5, 7.5]) for _ in range(2)]
    vt = rnd.choice(['I', 'B', 'mixed'])
    lo = [rnd.choice([-2, -1, 0]) for _ in range(n)]
    hi = [rnd.choice([1, 2, 3]) for _ in range(n)]

    def desc(a):
        if vt == 'mixed':
            x = a.dvar(n, 'I')
            y = a.dvar(2, 'C')
            a.st(a.ge(y, -1.5))
            a.st(a.le(y, 2.5))
            a.st(a.le(a.sum(y) + a.sum(np.array(A[0], dtype=float) * x), b[0]))
        else:
            x = a.dvar(n, vt)
            y = None
        if vt != 'B':
            a.st(a.ge(x, np.array(lo, dtype=float)))
            a.st(a.le(x, np.array(hi, dtype=float)))
        for r in range(2):
            a.st(a.le(a.sum(np.array(A[r], dtype=float) * x), b[r]))
        a.st(a.le(a.abs(x - 0.5), 3.0))
        obj = a.sum(np.array(c, dtype=float) * x)
        if y is not None:
            obj = obj + a.sum(np.array([1.0, -1.0]) * y)
        a.min(obj)
    return desc


def run_milp(case, ses):
    z3 = z3mod()
    name = 'milp%d' % case['idx']
    desc = milp_desc(case['idx'])
    with quiet():
        cm = Compiled(desc)
    ses.stats.programs += 1
    vs = cm.cp.z3vars()
    P = cm.cp.constraints(vs)
    env = cm.env(vs)
    # oracle program with integrality on the user's integer variables
    S = []
    for row in cm.rows():
        S += hold_terms(row, env, z3)
    # domains of the user's variables as declared (binary = {0, 1}); integrality comes from the z3 sort
    from ..models import p_name
    for nm, arr_, vt in cm.o.dvars:
        if vt == 'B':
            for p in arr_.reshape(-1):
                S += [env[p_name(p)] >= 0, env[p_name(p)] <= 1]
    so, vo = ses.optimum(S + env.defs, vs[0], label=name + '/optS', ints=cm.cp.int_vars(vs))
    sp, vp = ses.optimum(P, vs[0], label=name + '/optP', ints=cm.cp.int_vars(vs))
    with quiet():
        try:
            cm.r.m.solve(display=False)
            reported = cm.r.m.get()
        except Exception:
            reported = None
    ses.stats.obligations += 1
    ses.stats.kinds['milp-exact-optimum'] = ses.stats.kinds.get('milp-exact-optimum', 0) + 1
    if 'unknown' in (so, sp):
        ses.stats.undecided += 1
        return
    bad = (so, vo) != (sp, vp)
    if so == 'optimal':
        bad = bad or reported is None or abs(reported - float(vo)) > 1e-6 * (1 + abs(float(vo)))
    else:
        bad = bad or reported is not None
    if bad:
        data = dict(milp=case['idx'], optS=str(vo), optP=str(vp), so=so, sp=sp, reported=reported)
        finding(ses, 'C07:%s' % name, 'MILP %s: true optimum %s (%s), compiled %s (%s), solve() %r'
                % (name, vo, so, vp, sp, reported), data, 'rsv.props.c07:replay')
    else:
        ses.stats.discharged += 1
        ses.stats.nontrivial.add(name)
        if len(ses.stats.samples) < 4:
            ses.stats.samples.append(dict(model=name, exact=str(vo), status=so, reported=reported))


def numeric_better_point(cm, tval):
    """SLSQP over the interface variables: minimise the epigraph variable subject to the user's constraints evaluated
    with the true functions; returns a point strictly better than tval (by 1e-4 relative) or None."""
    import scipy.optimize as opt
    names = [n for n in cm.iface if n != 't'] + ['t']
    rows = cm.rows()
    x0 = None
    try:
        sol = cm.r.m.solution
        x0 = np.array([float(sol.x[cm.iface[n]]) for n in names])
    except Exception:
        x0 = np.zeros(len(names))

    def viol(x, r):
        return -cons_eval(r['cons'], dict(zip(names, x))) - 1e-8
    cons = [dict(type='ineq', fun=(lambda x, r=r: viol(x, r))) for r in rows]
    best = None
    rnd = np.random.RandomState(3)
    for k in range(6):
        start = x0 + (0 if k == 0 else rnd.uniform(-0.3, 0.3, size=len(names)))
        try:
            r_ = opt.minimize(lambda x: x[-1], start, constraints=cons, method='SLSQP', options=dict(maxiter=200))
        except Exception:
            continue
        x = r_.x
        if not np.all(np.isfinite(x)):
            continue
        if max(cons_eval(r['cons'], dict(zip(names, x))) for r in rows) > 1e-8:
            continue
        if x[-1] < tval - 1e-4 * (1 + abs(tval)) and (best is None or x[-1] < best[-1]):
            best = x
    if best is None:
        return None
    return dict(zip(names, [float(v) for v in best]))


def replay(data, verbose=False):
    import scipy.optimize as opt
    if 'milp' in data:
        with quiet():
            cm = Compiled(milp_desc(data['milp']))
            cm.r.m.solve(display=False)
        try:
            rep = cm.r.m.get()
        except Exception:
            rep = None
        if verbose:
            print('MILP %d: solve() -> %r ; exact %s (%s)' % (data['milp'], rep, data['optS'], data['so']))
        if data['so'] != 'optimal':
            return rep is not None
        return rep is None or abs(rep - float(Fraction(data['optS']))) > 1e-6
    spec = data['spec']
    if 'malformed' in data:
        try:
            with quiet():
                Compiled(detgen.desc_from_spec(spec), front=spec.get('front', 'ro'), style=spec.get('style'))
        except MalformedProgram as e:
            if verbose:
                print('model %s: %s' % (spec['name'], e))
            return True
        return False
    with quiet():
        cm = Compiled(detgen.desc_from_spec(spec), front=spec.get('front', 'ro'), style=spec.get('style'))
    f = cm.formula
    if 'point' in data:
        pt = {k: float(Fraction(v)) for k, v in data['point'].items()}
        if data.get('numeric'):
            # found numerically: the point must satisfy the user's constraints (true functions) before anything else
            worst = max(cons_eval(r['cons'], pt) for r in cm.rows())
            if verbose:
                print('largest violation of the user constraints at the point: %.3g' % worst)
            if worst > 1e-7:
                return False
        from rsome.gcp import GCProg
        from rsome import eco_solver
        xm = list(getattr(f, 'xmat', []) or [])

        def pinned(width, pin_t):
            lb = np.array(f.lb, dtype=float).copy()
            ub = np.array(f.ub, dtype=float).copy()
            for n, c in cm.iface.items():
                if n in pt and (pin_t or n != 't'):
                    lb[c] = max(lb[c], pt[n] - width)
                    ub[c] = min(ub[c], pt[n] + width)
            with quiet():
                g = GCProg(f.linear, f.const, f.sense, f.vtype, ub, lb, f.qmat, xm, [], f.obj)
                try:
                    if f.qmat or xm:
                        return eco_solver.solve(g, display=False)
                    from rsome.lp import def_sol
                    return def_sol(g, display=False)
                except Exception:
                    return None
        if data.get('numeric'):
            # decisions pinned, epigraph variable free: the real compiled program must reach (about) the same objective
            for width in (1e-7, 1e-4):
                sol = pinned(width, False)
                if sol is not None and sol.x is not None:
                    tmin = float(sol.x[0])
                    if verbose:
                        print('decisions pinned (+-%g): the real compiled program gives t >= %.8g, the user model allows %.8g'
                              % (width, tmin, pt['t']))
                    if tmin <= pt['t'] + 1e-5 * (1 + abs(pt['t'])):
                        return False
                elif verbose:
                    print('decisions pinned (+-%g): the real compiled program is infeasible' % width)
            return True
        sol = pinned(1e-8, True)
        infeasible = sol is None or sol.x is None
        if verbose:
            print('user-feasible point %s pinned into the real compiled program: %s'
                  % (pt, 'INFEASIBLE' if infeasible else 'feasible'))
        if 'reported' in data and not infeasible:
            # conservative optimum: the real solver cannot reach the better user-feasible value
            return False
        return bool(infeasible)
    with quiet():
        cm.r.m.solve(display=False)
    try:
        rep = cm.r.m.get()
    except Exception:
        rep = None
    if verbose:
        print('solve() %r ; exact compiled %s ; exact user model %s' % (rep, data.get('optP'), data.get('optS')))
    if data.get('so') == 'optimal':
        return rep is None or abs(rep - cm.o.obj[0] * float(Fraction(data['optS']))) > 1e-6
    return True
