"""C17 - misuse fails loudly and models do not interfere with each other.

Solver-decided part: for every ordered pair of model kinds (ro / dro) two models are built with
their declarations, sets, formulations and solves INTERLEAVED in one process; each model's compiled
program must denote the same feasible set and objective as the program compiled when the model is
built alone (z3: empty symmetric difference over the shared columns, equal objective form, equal
exact optimum).  Auxiliary part (finite, executed exhaustively over model kinds): cross-model use
of variables / constraints / sets, second objective, non-scalar objective, reading an unsolved or
failed model, ambiguity() after constraints - each must raise.
"""
import itertools
import numpy as np

from ..poly import z3mod
from ..cprog import CProg
from ..smt import HarnessError
from ..harness import finding
from ..util import quiet

PROP = 'C17'
LEVEL = 'translation_validation'
TIMEOUT_MS = 30000

META = dict(
    functions=['rsome.ro.Model.*', 'rsome.dro.Model.*', 'rsome.lp.Model.st (model identity)', 'rsome.lp.Affine.__add__/__mul__ '
               '(model identity)', 'rsome.lp.RoConstr.forall (set identity)', 'rsome.dro.Model.ambiguity', 'rsome.lp.Vars.get'],
    rule='interference: one case = (kind A, kind B, interleaving pattern); obligations: feasible-set xor, objective, exact '
         'optimum per model; misuse: one obligation per (misuse pattern, model kinds); non-trivial = both programs feasible '
         'and equivalence decided; distinct by label',
    bounds='model kinds ro/dro, 4 interleaving patterns (declarations, sets, do_math, solve interleaved), models with 2-3 '
           'variables and box / 1-norm sets; 14 misuse patterns x kinds',
    outside='more than two models at once; interference through third-party solver state other than the options RSOME itself passes on (params=)',
    assumptions=['built alone = built in the same process before any other model exists (fresh interpreter per worker)'],
)

A = np.array


def steps(kind, tag):
    """A model as a list of build steps (closures over a state dict), so that two models can be interleaved."""
    from rsome import ro, dro, E
    import rsome as rso
    st = {}

    def s0():
        st['m'] = ro.Model() if kind == 'ro' else dro.Model(2)

    def s1():
        st['x'] = st['m'].dvar(2)
        st['z'] = st['m'].rvar(2)

    def s2():
        m, z = st['m'], st['z']
        k = 1.0 if tag == 'a' else 2.0
        if kind == 'ro':
            st['set'] = (rso.norm(z, 1) <= 1.5 * k, z >= -1.0 * k, z <= 1.0)
        else:
            F = m.ambiguity()
            F[0].suppset(z >= -1.0 * k, z <= 1.0)
            F[1].suppset(rso.norm(z, 1) <= 1.5 * k, z >= -k, z <= k)
            F.exptset(E(z) <= 0.5, E(z) >= -0.25)
            F.probset(m.p >= 0.25)
            st['set'] = F

    def s3():
        m, x, z = st['m'], st['x'], st['z']
        c = A([1.0, 2.0]) if tag == 'a' else A([-1.0, 0.5])
        obj = (c * x).sum() + x @ A([[0.5, 0.0], [0.0, -0.5]]) @ z
        if kind == 'ro':
            m.minmax(obj, *st['set'])
        else:
            m.minsup(E(obj), st['set'])

    def s4():
        m, x, z = st['m'], st['x'], st['z']
        m.st(x.sum() + x @ A([[1.0, 0.0], [0.5, 1.0]]) @ z >= (-3 if tag == 'a' else -2))
        m.st(x >= -2, x <= (3 if tag == 'a' else 2.5))

    def s5():
        with quiet():
            st['f1'] = st['m'].do_math()

    def s6():
        with quiet():
            st['m'].solve(display=False)
            st['val'] = st['m'].get()

    def s7():
        m, x = st['m'], st['x']
        m.st(x[0] - x[1] <= (1.5 if tag == 'a' else 1.0))
        with quiet():
            st['f'] = m.do_math()
            m.solve(display=False)
            st['val2'] = m.get()
    return st, [s0, s1, s2, s3, s4, s5, s6, s7]


PATTERNS = {
    'alternate': lambda a, b: [x for p in zip(a, b) for x in p],
    'a-then-b': lambda a, b: a + b,
    'b-inside-a': lambda a, b: a[:4] + b + a[4:],
    'a-inside-b': lambda a, b: b[:3] + a + b[3:],
}


def cases(tier, seed, rnd):
    cs = []
    for ka, kb in itertools.product(('ro', 'dro'), repeat=2):
        for pat in PATTERNS:
            cs.append(dict(k='pair', ka=ka, kb=kb, pat=pat))
    cs.append(dict(k='misuse'))
    cs.append(dict(k='params'))
    return cs


def run_case(case, ses):
    if case['k'] == 'misuse':
        return run_misuse(ses)
    if case['k'] == 'params':
        return run_params(ses)
    z3 = z3mod()
    ka, kb, pat = case['ka'], case['kb'], case['pat']
    # alone
    alone = {}
    for kind, tag in ((ka, 'a'), (kb, 'b')):
        st, ss = steps(kind, tag)
        for s in ss:
            s()
        alone[tag] = st
    # interleaved
    sta, sa = steps(ka, 'a')
    stb, sb = steps(kb, 'b')
    for s in PATTERNS[pat](sa, sb):
        s()
    ses.stats.programs += 2
    label0 = '%s+%s/%s' % (ka, kb, pat)
    allok = True
    for tag, st in (('a', sta), ('b', stb)):
        label = '%s/model-%s' % (label0, tag)
        P1, P0 = CProg(st['f']), CProg(alone[tag]['f'])
        if P1.n != P0.n:
            finding(ses, 'C17:%s:%s:cols' % (ka + kb, tag), '%s: %d columns when interleaved, %d alone' % (label, P1.n, P0.n),
                    dict(case=case, tag=tag), 'rsv.props.c17:replay')
            allok = False
            continue
        vs = P1.z3vars()
        c1, c0 = P1.constraints(vs), P0.constraints(vs)
        res, _ = ses.oblige(label + '/feasible-set', [], [z3.Xor(z3.And(c1), z3.And(c0))], kind='interference-xor', twin=False,
                            sample=dict(pair=label0, model=tag, rows=P1.m, cols=P1.n))
        res2, _ = ses.oblige(label + '/objective', [], [P1.obj_term(vs) != P0.obj_term(vs)], kind='interference-objective',
                             twin=False)
        s1, v1 = ses.optimum(c1, P1.obj_term(vs))
        s0, v0 = ses.optimum(c0, P0.obj_term(vs))
        ses.stats.obligations += 1
        ses.stats.kinds['interference-optimum'] = ses.stats.kinds.get('interference-optimum', 0) + 1
        same_val = abs(st['val2'] - alone[tag]['val2']) <= 1e-7 * (1 + abs(alone[tag]['val2'])) and \
            abs(st['val'] - alone[tag]['val']) <= 1e-7 * (1 + abs(alone[tag]['val']))
        if (s1, v1) == (s0, v0) and s1 == 'optimal' and same_val:
            ses.stats.discharged += 1
        else:
            allok = False
        if res == 'sat' or res2 == 'sat' or (s1, v1) != (s0, v0) or not same_val:
            allok = False
            finding(ses, 'C17:%s:%s' % (ka + kb, tag),
                    '%s: program / result differs from the model built alone (optimum %s vs %s, solve %r vs %r)'
                    % (label, v1, v0, st['val2'], alone[tag]['val2']), dict(case=case, tag=tag), 'rsv.props.c17:replay')
    if allok:
        ses.stats.nontrivial.add(label0)


def run_misuse(ses):
    from rsome import ro, dro, E
    import rsome as rso
    tests = []

    def mk(kind):
        m = ro.Model() if kind == 'ro' else dro.Model(2)
        x = m.dvar(2)
        z = m.rvar(2)
        return m, x, z
    for ka, kb in itertools.product(('ro', 'dro'), repeat=2):
        def t_cross_constraint(ka=ka, kb=kb):
            m1, x1, z1 = mk(ka)
            m2, x2, z2 = mk(kb)
            m1.st(x2.sum() <= 1)
        tests.append(('%s<-%s constraint of another model' % (ka, kb), t_cross_constraint))

        def t_cross_var(ka=ka, kb=kb):
            m1, x1, z1 = mk(ka)
            m2, x2, z2 = mk(kb)
            m1.st(x1.sum() + x2.sum() <= 1)
        tests.append(('%s<-%s variables of two models in one expression' % (ka, kb), t_cross_var))

        def t_cross_rand(ka=ka, kb=kb):
            m1, x1, z1 = mk(ka)
            m2, x2, z2 = mk(kb)
            e = x1 * z2
            m1.st(e.sum() <= 1)
            m1.do_math()
        tests.append(('%s<-%s decision times random variable of another model' % (ka, kb), t_cross_rand))

        def t_cross_set(ka=ka, kb=kb):
            m1, x1, z1 = mk(ka)
            m2, x2, z2 = mk(kb)
            c = (x1 * z1).sum() <= 1
            if ka == 'ro':
                m1.st(c.forall(z2 >= 0, z2 <= 1))
                m1.min(x1.sum())
                m1.do_math()
            else:
                m1.st(c.forall([z2 >= 0, z2 <= 1]))
                F = m1.ambiguity() if False else None
                m1.min(x1.sum())
                m1.do_math()
        tests.append(('%s<-%s uncertainty set of another model' % (ka, kb), t_cross_set))

        def t_cross_objset(ka=ka, kb=kb):
            m1, x1, z1 = mk(ka)
            m2, x2, z2 = mk(kb)
            if ka == 'ro':
                m1.minmax((x1 * z1).sum(), z2 >= 0, z2 <= 1)
            else:
                F2 = m2.ambiguity() if kb == 'dro' else None
                if F2 is None:
                    return 'skip'
                F2.suppset(z2 >= 0, z2 <= 1)
                m1.minsup((x1 * z1).sum(), F2)
                m1.do_math()
        tests.append(('%s<-%s objective set of another model' % (ka, kb), t_cross_objset))
    for kind in ('ro', 'dro'):
        def t_obj_twice(kind=kind):
            m, x, z = mk(kind)
            m.min(x.sum())
            m.max(x[0])
        tests.append(('%s second objective' % kind, t_obj_twice))

        def t_obj_twice2(kind=kind):
            m, x, z = mk(kind)
            if kind == 'ro':
                m.minmax(x.sum(), z >= 0, z <= 1)
                m.min(x[0])
            else:
                F = m.ambiguity()
                F.suppset(z >= 0, z <= 1)
                m.minsup(x.sum(), F)
                m.maxinf(x[0], F)
        tests.append(('%s second (worst-case) objective' % kind, t_obj_twice2))

        for zero in (0, 0.0, np.float64(0), 3.5):
            for second in ('min', 'max', 'wc'):
                def t_obj_after_const(kind=kind, zero=zero, second=second):
                    m, x, z = mk(kind)
                    m.min(zero)
                    if second == 'min':
                        m.min(x.sum())
                    elif second == 'max':
                        m.max(x.sum())
                    elif kind == 'ro':
                        m.minmax((x * z).sum(), z >= 0, z <= 1)
                    else:
                        F = m.ambiguity()
                        F.suppset(z >= 0, z <= 1)
                        m.minsup((x * z).sum(), F)
                tests.append(('%s second objective (%s) after the constant objective %r' % (kind, second, zero), t_obj_after_const))

        def t_obj_vector(kind=kind):
            m, x, z = mk(kind)
            m.min(x * 1.0)
        tests.append(('%s non-scalar objective' % kind, t_obj_vector))

        def t_obj_vector2(kind=kind):
            m, x, z = mk(kind)
            m.max(x)
        tests.append(('%s non-scalar objective (variable array)' % kind, t_obj_vector2))

        def t_unsolved(kind=kind):
            m, x, z = mk(kind)
            m.min(x.sum())
            m.st(x >= 0)
            m.get()
        tests.append(('%s get() of an unsolved model' % kind, t_unsolved))

        def t_unsolved_var(kind=kind):
            m, x, z = mk(kind)
            m.min(x.sum())
            m.st(x >= 0)
            x.get()
        tests.append(('%s x.get() of an unsolved model' % kind, t_unsolved_var))

        def t_failed(kind=kind):
            m, x, z = mk(kind)
            m.min(x.sum())
            m.st(x >= 1, x <= 0)
            with quiet():
                m.solve(display=False)
            m.get()
        tests.append(('%s get() after an infeasible solve' % kind, t_failed))

        def t_failed_var(kind=kind):
            m, x, z = mk(kind)
            m.min(x.sum())
            m.st(x >= 1, x <= 0)
            with quiet():
                m.solve(display=False)
            x.get()
        tests.append(('%s x.get() after an infeasible solve' % kind, t_failed_var))

        def t_unbounded(kind=kind):
            m, x, z = mk(kind)
            m.min(x.sum())
            m.st(x <= 0)
            with quiet():
                m.solve(display=False)
            m.get()
        tests.append(('%s get() after an unbounded solve' % kind, t_unbounded))

    # results of a FAILED model cannot be read, whichever interface failed to solve it (linear and conic programs)
    def solvers():
        out = [('default', None)]
        for nm in ('ort', 'eco'):
            try:
                import importlib
                out.append((nm, importlib.import_module('rsome.%s_solver' % nm)))
            except Exception:
                pass
        return out
    for sname, solver in solvers():
        for front in ('lp', 'ro', 'dro'):
            for prob in ('infeasible', 'unbounded', 'infeasible-soc'):
                if prob == 'infeasible-soc' and (sname != 'eco' or front == 'lp'):
                    continue
                for read in ('model.get()', 'x.get()', 'x()'):
                    def t_failed_iface(solver=solver, front=front, prob=prob, read=read):
                        from rsome import lp
                        m = {'lp': lp.Model, 'ro': ro.Model, 'dro': (lambda: dro.Model(2))}[front]()
                        x = m.dvar(2)
                        if prob == 'infeasible':
                            m.min(x.sum())
                            m.st(x >= 1, x <= 0)
                        elif prob == 'unbounded':
                            m.min(x.sum())
                            m.st(x <= 0)
                        else:
                            m.min(x.sum())
                            m.st(rso.norm(x, 2) <= 1, x[0] >= 2)
                        with quiet():
                            if solver is None:
                                m.solve(display=False)
                            else:
                                m.solve(solver, display=False)
                        if read == 'model.get()':
                            m.get()
                        elif read == 'x.get()':
                            x.get()
                        else:
                            if front == 'lp':
                                return 'skip'
                            x()
                    tests.append(('%s model, %s, solved through the %s interface: %s' % (front, prob, sname, read), t_failed_iface))

    # every front end x every way of combining two expressions: operands of two different models must be rejected
    def mkf(front):
        from rsome import lp, socp, gcp
        m = {'lp': lp.Model, 'socp': socp.Model, 'gcp': gcp.Model, 'ro': ro.Model, 'dro': (lambda: dro.Model(2))}[front]()
        return m, m.dvar(2)
    COMB = {
        'a + b': lambda a, b: a + b, 'a - b': lambda a, b: a - b, 'a <= b': lambda a, b: a <= b, 'a == b': lambda a, b: a == b,
        'concat([a, b])': lambda a, b: rso.concat([a, b]), 'concat([2a, b+1])': lambda a, b: rso.concat([2.0 * a, b + 1.0]),
        'rstack(a, b)': lambda a, b: rso.rstack(a, b), 'cstack(a, b)': lambda a, b: rso.cstack(a, b),
        'vec(a[0], a[1], b[0], b[1])': lambda a, b: rso.vec(a[0], a[1], b[0], b[1]),
        'rstack([a[0], b[0]], [a[1], b[1]])': lambda a, b: rso.rstack([a[0], b[0]], [a[1], b[1]]),
        'maxof(a.sum(), b.sum())': lambda a, b: rso.maxof(a.sum(), b.sum()),
        'sumsqr(concat)': lambda a, b: rso.sumsqr(rso.concat([a, b])),
        'a @ b': lambda a, b: a @ b,
    }
    fronts = ('lp', 'socp', 'gcp', 'ro', 'dro')
    for fa, fb in itertools.product(fronts, repeat=2):
        for cname, comb in COMB.items():
            for pos in ('ab', 'ba'):
                def t_mix(fa=fa, fb=fb, comb=comb, pos=pos):
                    m1, x1 = mkf(fa)
                    m2, x2 = mkf(fb)
                    e = comb(x1, x2) if pos == 'ab' else comb(x2, x1)
                    from rsome.lp import LinConstr, CvxConstr, Bounds
                    if hasattr(e, 'sense') or type(e).__name__.endswith('Constr') or type(e).__name__ == 'Bounds':
                        m1.st(e)
                    else:
                        s_ = e.sum() if hasattr(e, 'sum') and getattr(e, 'size', 1) > 1 else e
                        m1.st(s_ <= 1)
                    m1.min(x1.sum())
                    m1.st(x1 >= 0)
                    m1.do_math()
                tests.append(('%s model uses %s with an operand of a second %s model (foreign operand %s)'
                              % (fa, cname, fb, 'last' if pos == 'ab' else 'first'), t_mix))

    # products of a decision of one model with a RANDOM variable of another (every operator, both operand orders), used in a
    # constraint or as the objective itself; and plain foreign expressions handed to the objective methods
    def mkr(front):
        m = ro.Model() if front == 'ro' else dro.Model(2)
        x = m.dvar(2)
        z = m.rvar(2)
        if front == 'ro':
            return m, x, z, (z >= -1, z <= 1)
        F = m.ambiguity()
        F.suppset(z >= -1, z <= 1)
        return m, x, z, F
    PROD = {'x @ z': lambda x, z: x @ z, 'z @ x': lambda x, z: z @ x, '(x * z).sum()': lambda x, z: (x * z).sum(),
            '(z * x).sum()': lambda x, z: (z * x).sum(), 'x[0] * z[1]': lambda x, z: x[0] * z[1], 'z[1] * x[0]': lambda x, z: z[1] * x[0],
            'x.sum() + z.sum()': lambda x, z: x.sum() + z.sum(), 'z.sum() + x.sum()': lambda x, z: z.sum() + x.sum()}
    for fa, fb in itertools.product(('ro', 'dro'), repeat=2):
        for pname, prod in PROD.items():
            for use in ('constraint', 'objective'):
                def t_prod(fa=fa, fb=fb, prod=prod, use=use):
                    m1, x1, z1, S1 = mkr(fa)
                    m2, x2, z2, S2 = mkr(fb)
                    e = prod(x1, z2)
                    if use == 'constraint':
                        m1.st(e <= 1)
                        (m1.minmax(x1.sum(), *S1) if fa == 'ro' else m1.minsup(x1.sum(), S1))
                    else:
                        (m1.minmax(e, *S1) if fa == 'ro' else m1.minsup(e, S1))
                    m1.st(x1 >= 0, x1 <= 1)
                    m1.do_math()
                tests.append(('%s model uses %s with its own decision x and the random variable z of a second %s model, as %s'
                              % (fa, pname, fb, use), t_prod))
    for fa, fb in itertools.product(('lp', 'ro', 'dro'), repeat=2):
        for sense in ('min', 'max'):
            def t_obj(fa=fa, fb=fb, sense=sense):
                m1, x1 = mkf(fa)
                m2, x2 = mkf(fb)
                getattr(m1, sense)(x2.sum())
                m1.st(x1 >= 0, x1 <= 1) if fa != 'lp' else (m1.st(x1 >= 0), m1.st(x1 <= 1))
                m1.do_math()
            tests.append(('%s model: %s() of an expression of a second %s model' % (fa, sense, fb), t_obj))

    def t_get_foreign_rvar():
        mA = ro.Model()
        xA = mA.dvar()
        zA = mA.rvar(2)
        y = mA.ldr()
        y.adapt(zA)
        mA.minmax(xA, zA >= 0, zA <= 1)
        mA.st(xA >= y, y >= zA.sum(), y <= 5)
        mA.solve(display=False)
        zB = ro.Model().rvar(2)
        y.get(zB)
    tests.append(('ro: coefficients of a decision rule requested for the random variable of ANOTHER model: y.get(zB)', t_get_foreign_rvar))

    def t_adapt_foreign_scen():
        dA = dro.Model(3)
        u = dA.dvar()
        dB = dro.Model(3)
        fB = dB.ambiguity()
        u.adapt(fB[1])
    tests.append(('dro: event-wise adaptation declared with the scenarios of ANOTHER model\'s ambiguity set: u.adapt(fB[1])', t_adapt_foreign_scen))

    def t_adapt_foreign_rvar():
        dA = dro.Model(2)
        u = dA.dvar()
        zB = dro.Model(2).rvar(2)
        u.adapt(zB)
    tests.append(('dro: affine adaptation declared with the random variable of ANOTHER model: u.adapt(zB)', t_adapt_foreign_rvar))

    def t_ldr_adapt_foreign_rvar():
        mA = ro.Model()
        y = mA.ldr(2)
        zB = ro.Model().rvar(2)
        y.adapt(zB)
    tests.append(('ro: decision rule adapted to the random variable of ANOTHER model: y.adapt(zB)', t_ldr_adapt_foreign_rvar))

    def t_amb_after():
        m = dro.Model(2)
        x = m.dvar(2)
        m.st(x >= 0)
        m.ambiguity()
    tests.append(('dro ambiguity() after constraints', t_amb_after))

    def t_unknown_constr():
        m = ro.Model()
        x = m.dvar(2)
        m.st(x.sum())
    tests.append(('ro st() of an expression that is not a constraint', t_unknown_constr))
    for kind in ('ro', 'dro'):
        for vt in ('CX', 'CD', 'X', '', 'IB?'):
            def t_vtype(kind=kind, vt=vt):
                m = ro.Model() if kind == 'ro' else dro.Model(2)
                m.dvar(len(vt) if len(vt) > 1 else 2, vt)
            tests.append(('%s: dvar with the type string %r (letters other than C, B, I)' % (kind, vt), t_vtype))
    for tag, fn in tests:
        ses.stats.obligations += 1
        ses.stats.kinds['misuse-raises'] = ses.stats.kinds.get('misuse-raises', 0) + 1
        try:
            with quiet():
                r = fn()
            raised = False
        except Exception:
            raised = True
        if not raised and r == 'skip':
            ses.stats.obligations -= 1
            ses.stats.kinds['misuse-raises'] -= 1
            continue
        if raised:
            ses.stats.discharged += 1
        else:
            finding(ses, 'C17:misuse:%s' % tag, 'misuse accepted silently: %s' % tag, dict(case=dict(k='misuse'), tag=tag),
                    'rsv.props.c17:replay')
    ses.stats.nontrivial.add('misuse-ro')
    ses.stats.nontrivial.add('misuse-dro')
    ses.stats.programs += len(tests)


# ------------------------------------------------------------------ solver options of one solve stay with that solve
GRB_PARAMS = [dict(SolutionLimit=1), dict(MIPGap=0.9), dict(NodeLimit=0), dict(BestObjStop=0.0), dict(TimeLimit=1e-3),
              dict(Cutoff=-1.0), dict(SolutionLimit=1, MIPGapAbs=100.0)]
OTHER_PARAMS = [dict(SolutionLimit=1, TimeLimit=1e-3, MIPGap=0.9, max_iters=1, time_limit=1e-3, mip_rel_gap=0.9)]


def knapsack(tag):
    from rsome import ro
    w = A([7, 11, 5, 13, 9, 6, 8, 12, 4, 10]) + (0 if tag == 'a' else 1)
    v = A([13, 21, 8, 25, 16, 11, 15, 22, 7, 19]) + (0 if tag == 'a' else 2)
    m = ro.Model()
    x = m.dvar(10, 'B')
    y = m.dvar(())
    m.max(v @ x + 0.5 * y)
    m.st(w @ x + y <= (41 if tag == 'a' else 37), y >= 0, y <= 1.5)
    return m


def run_params(ses):
    """`solve(solver, params=...)` configures THAT solve only.  Model A (a mixed 0/1 knapsack) is solved with default
    options, an unrelated model B with restrictive options, then A is built and solved again with default options: its result
    must be the exact optimum of its compiled program (computed by z3 on the real `do_math()` output) - for every interface
    that is installed, for every option set of the family; for Gurobi the process-wide default environment is compared
    before / after as well."""
    import importlib
    P = CProg(knapsack('a').do_math())
    vs = P.z3vars()
    st_, exact = ses.optimum(P.constraints(vs), P.obj_term(vs), ints=P.int_vars(vs), label='params/exact')
    if st_ != 'optimal':
        raise HarnessError('C17 params layer: exact optimum of the knapsack is %s' % st_)
    exact = float(exact)
    interfaces = [('default', None, OTHER_PARAMS), ('ort', 'rsome.ort_solver', OTHER_PARAMS), ('grb', 'rsome.grb_solver', GRB_PARAMS)]
    done = 0
    for name, modname, family in interfaces:
        if modname is None:
            solver = None
        else:
            try:
                solver = importlib.import_module(modname)
            except Exception:
                ses.stats.notes.append('params layer: interface %s is not installed' % name)
                continue
        gp = None
        if name == 'grb':
            import gurobipy as gp
        for params in family:
            label = 'params/%s/%s' % (name, ','.join('%s=%s' % kv for kv in sorted(params.items())))
            ses.stats.obligations += 1
            ses.stats.kinds['solver-options-do-not-leak'] = ses.stats.kinds.get('solver-options-do-not-leak', 0) + 1
            before = {k: gp.getParamInfo(k)[2] for k in params} if gp is not None else {}
            vals = []
            try:
                with quiet():
                    a1 = knapsack('a')
                    a1.solve(solver, display=False)
                    vals.append(a1.get())
                    b = knapsack('b')
                    try:
                        b.solve(solver, display=False, params=dict(params))
                    except Exception:
                        pass                    # B itself may fail under its own restrictive options: its own business
                    a2 = knapsack('a')
                    a2.solve(solver, display=False)
                    vals.append(a2.get())
            except Exception as e:
                vals.append('raises %s: %s' % (type(e).__name__, str(e)[:80]))
            after = {k: gp.getParamInfo(k)[2] for k in params} if gp is not None else {}
            if gp is not None and after != before:
                for k, v in before.items():
                    gp.setParam(k, v)           # restore for the rest of the run
                    gp.setParam('OutputFlag', 0)
            ok = len(vals) == 2 and all(isinstance(v, float) or hasattr(v, '__float__') for v in vals) and \
                all(abs(float(v) - (-exact)) <= 1e-6 * (1 + abs(exact)) for v in vals) and after == before
            if ok:
                ses.stats.discharged += 1
                done += 1
            else:
                finding(ses, 'C17:params:%s' % name,
                        '%s: model A solved with default options before / after an unrelated solve with params=%s returns %s; exact '
                        'optimum of its compiled program %s; process-wide solver defaults before %s, after %s'
                        % (label, params, vals, -exact, before, after), dict(case=dict(k='params'), tag=label), 'rsv.props.c17:replay')
    if done:
        ses.stats.nontrivial.add('params')
    ses.stats.programs += 1


def replay(data, verbose=False):
    case = data['case']
    if case.get('k') == 'params':
        if verbose:
            print('solver options leak between models:', data['tag'])
        return True
    if case.get('k') == 'misuse':
        if verbose:
            print('misuse accepted silently:', data['tag'])
        return True
    ka, kb, pat = case['ka'], case['kb'], case['pat']
    alone = {}
    for kind, tag in ((ka, 'a'), (kb, 'b')):
        st, ss = steps(kind, tag)
        for s in ss:
            s()
        alone[tag] = st
    sta, sa = steps(ka, 'a')
    stb, sb = steps(kb, 'b')
    for s in PATTERNS[pat](sa, sb):
        s()
    st = sta if data['tag'] == 'a' else stb
    if verbose:
        print('model %s of pair %s+%s (%s): interleaved result %r / %r ; alone %r / %r'
              % (data['tag'], ka, kb, pat, st['val'], st['val2'], alone[data['tag']]['val'], alone[data['tag']]['val2']))
    return abs(st['val2'] - alone[data['tag']]['val2']) > 1e-7 or abs(st['val'] - alone[data['tag']]['val']) > 1e-7 or \
        st['f'].linear.shape != alone[data['tag']]['f'].linear.shape
