"""C13 - decisions depend on uncertainty exactly as declared (non-anticipativity).

(a) engine SX/CrossHair: the real `comb_set` returns the coarsest common refinement of its two
    arguments for all pairs of partitions of n scenarios, `event_dict` inverts a partition, `flat`
    flattens nested iterables - "Confirmed over all paths" required, twins must be refuted.
(b) engine SI/TV: for every partition reachable by adapt() sequences (all orders) and every
    dependency mask, the per-scenario rule y_s(z) = affine_s(X) + raffine_s(X) z is read from the
    real rule_var() / DecRule.to_affine() with the column vector X symbolic, and z3 decides
      - undeclared components have an identically-zero coefficient (unsat of coef != 0)
      - scenarios of one event have identical rules for all X, z
      - scenarios of different events can differ, declared components can be non-zero, and distinct
        declared (entry, component) pairs have independent coefficients (sat)  => exactly as declared
(c) expressions mixing decisions with different partitions carry the common refinement.
(d) illegal declarations raise (finite list, executed concretely; auxiliary).
"""
import itertools
import os
import re
import subprocess
import sys
import numpy as np
import scipy.sparse as sp

from ..poly import Poly, pvars, parr, z3mod
from ..smt import HarnessError, fval
from ..harness import finding, ROOT
from ..util import quiet
from .c12 import partitions_by_adapt

PROP = 'C13'
LEVEL = 'translation_validation'
TIMEOUT_MS = 20000

META = dict(
    functions=['rsome.subroutines.comb_set', 'rsome.subroutines.event_dict', 'rsome.subroutines.flat',
               'rsome.lp.DecVar.evtadapt/affadapt/adapt', 'rsome.lp.DecVarSub.affadapt', 'rsome.lp.DecRule.adapt/to_affine',
               'rsome.dro.Model.rule_var', 'rsome.lp.DecAffine.__add__ (event_adapt)'],
    rule='cases: one CrossHair condition per kernel and size; one dro model per (scenario count, adapt() sequence, '
         'dependency mask); one ro LDR per mask; non-trivial = all dependence obligations of the model decided; '
         'distinct by label',
    bounds='CrossHair: partitions of n <= 3 scenarios (all label vectors), n = 4 with the first label < 2; dro: 2-3 '
           'scenarios (quick) / 4 (thorough), every partition reachable by <= 2 adapt() calls in every order, masks over '
           '<= 3 random components incl. slices; ro LDR masks over <= 3 components',
    outside='partitions of more than 4 scenarios; CrossHair explores Python paths of the kernels only',
    assumptions=['CrossHair "Confirmed over all paths" is a bounded exhaustive symbolic execution (stated bound: the '
                 'integer ranges in the preconditions)', 'per-scenario rules are read from rule_var(), which is what '
                 'constraint compilation uses (C03/C12 tie it to the compiled program and to get())'],
)


def cases(tier, seed, rnd):
    cs = [dict(k='xh', fn=f) for f in ('comb2', 'comb2_twin', 'comb3', 'comb3_twin', 'evdict3', 'evdict3_twin',
                                       'flat_nested', 'flat_nested_twin')]
    cs.append(dict(k='xh', fn='comb4'))
    for ns in ((2, 3) if tier == 'quick' else (2, 3, 4)):
        seqs = partitions_by_adapt(ns)
        for i in range(0, len(seqs), 6):
            cs.append(dict(k='dro', ns=ns, seqs=seqs[i:i + 6]))
    cs.append(dict(k='ro'))
    cs.append(dict(k='mix'))
    cs.append(dict(k='illegal'))
    # what the user SEES of a declared dependence: values and coefficient tables read back per scenario / event
    for ns, labels in ((3, None), (3, ['a', 'b', 'c'])) + (((4, None),) if tier != 'quick' else ()):
        cs.append(dict(k='readback', ns=ns, labels=labels))
    return cs


def run_case(case, ses):
    {'xh': run_xh, 'dro': run_dro, 'ro': run_ro, 'mix': run_mix, 'illegal': run_illegal,
     'readback': run_readback}[case['k']](case, ses)


def run_readback(case, ses):
    """The declared dependence as it is read back: for every adapt() history of the partition family, x.get() per scenario
    is the value of the scenario's event, x.get(z) per scenario is the coefficient table of that scenario's rule (same
    obligations as the dro layer of C12, run on the event-wise family; a wrong table shows an event-wise decision with the
    rule of ANOTHER event)."""
    from . import c12
    n0 = len(ses.findings)
    with c12.sparse_object_matmul():
        c12.run_dro(dict(k='dro', ns=case['ns'], labels=case['labels']), ses)
    for f in ses.findings[n0:]:
        f['data'] = dict(k='delegate', replayer=f['replayer'], data=f['data'])
        f['replayer'] = 'rsv.props.c13:replay'
        f['key'] = 'C13:' + f['key']
        f['what'] = '[read-back of the declared dependence] ' + f['what']


# ------------------------------------------------------------------ (a) CrossHair
def run_xh(case, ses):
    fn = case['fn']
    path = os.path.join(ROOT, 'rsv', 'xh', 'kernels.py')
    src = open(path).read().splitlines()
    line = None
    for i, l in enumerate(src):
        if l.startswith('def %s(' % fn):
            line = i + 2
            break
    if line is None:
        raise HarnessError('kernel contract %s not found' % fn)
    tmo = 120 if ses.tier == 'quick' else 400
    cmd = [sys.executable, '-m', 'crosshair', 'check', '--report_all', '--per_condition_timeout', str(tmo),
           '%s:%d' % (path, line)]
    import time
    t = time.time()
    p = subprocess.run(cmd, capture_output=True, text=True, timeout=tmo * 3 + 60, cwd=ROOT,
                       env=dict(os.environ, PYTHONPATH=ROOT))
    ses.stats.add_time('crosshair-0.0.110', time.time() - t)
    out = (p.stdout + p.stderr).strip()
    ses.stats.obligations += 1
    ses.stats.queries += 1
    ses.stats.functions.add('rsome.subroutines.' + {'comb': 'comb_set', 'evdi': 'event_dict', 'flat': 'flat'}[fn[:4]])
    kind = 'crosshair-twin' if fn.endswith('_twin') else 'crosshair'
    ses.stats.kinds[kind] = ses.stats.kinds.get(kind, 0) + 1
    ses.stats.programs += 1
    if len(ses.stats.samples) < 4:
        ses.stats.samples.append(dict(condition=fn, output=out[-200:]))
    if fn.endswith('_twin'):
        ses.stats.twins += 1
        if 'error: false when calling' in out:
            ses.stats.twins_ok += 1
            ses.stats.discharged += 1
            return
        raise HarnessError('reachability twin %s was not refuted: %s' % (fn, out[-300:]))
    if 'Confirmed over all paths' in out:
        ses.stats.discharged += 1
        ses.stats.nontrivial.add(fn)
        return
    m = re.search(r'error: false when calling (\w+)\((.*?)\)', out)
    if m:
        args = [int(t) for t in m.group(2).split(',')]
        data = dict(k='xh', fn=fn, args=args)
        if replay(data):
            finding(ses, 'C13:kernel:%s' % fn[:4], 'kernel contract %s fails for %s' % (fn, args), data, 'rsv.props.c13:replay')
            return
        raise HarnessError('CrossHair counterexample does not reproduce: %s' % out[-300:])
    ses.stats.undecided += 1
    ses.stats.core_undecided += 1
    ses.stats.notes.append('crosshair inconclusive for %s: %s' % (fn, out[-200:]))


# ------------------------------------------------------------------ (b) dro rules
MASKS = ['none', 'x0:z1', 'x:z', 'x1:z0,z2', 'x0:z0;x1:z2', 'pre-sliced x0:z0;x1:z2']


def apply_mask(x, z, mask):
    dep = np.zeros((2, 3), dtype=int)
    if mask == 'x0:z1':
        x[0].adapt(z[1])
        dep[0, 1] = 1
    elif mask == 'x:z':
        x.adapt(z)
        dep[:, :] = 1
    elif mask == 'x1:z0,z2':
        x[1].adapt(z[0])
        x[1].adapt(z[2])
        dep[1, 0] = dep[1, 2] = 1
    elif mask == 'x0:z0;x1:z2':
        x[0].adapt(z[0])
        x[1:].adapt(z[2:])
        dep[0, 0] = dep[1, 2] = 1
    elif mask == 'pre-sliced x0:z0;x1:z2':
        # both slice objects exist BEFORE the first adapt() call
        a_, b_ = x[0], x[1:]
        a_.adapt(z[0])
        b_.adapt(z[2:])
        dep[0, 0] = dep[1, 2] = 1
    return dep


def rule_values(rule, X, Zp):
    """Per-row Poly value of a rule (Affine or RoAffine) in X and Z."""
    from rsome.lp import RoAffine
    if isinstance(rule, RoAffine):
        a = rule.affine
        base = parr(sp.csr_matrix(a.linear).toarray()) @ X[:a.linear.shape[1]] + parr(np.asarray(a.const).reshape(-1))
        r = rule.raffine
        R = parr(sp.csr_matrix(r.linear).toarray()) @ X[:r.linear.shape[1]]
        R = R.reshape(r.shape) + parr(r.const)
        return base + R @ Zp[:R.shape[1]]
    base = parr(sp.csr_matrix(rule.linear).toarray()) @ X[:rule.linear.shape[1]] + parr(np.asarray(rule.const).reshape(-1))
    return base


def run_dro(case, ses):
    from rsome import dro
    z3 = z3mod()
    ns = case['ns']
    for seq in case['seqs']:
        for mask in (MASKS if ses.tier == 'thorough' or len(seq) < 2 else MASKS[:3] + MASKS[-1:]):
            # decisions declared AFTER x with another event partition (none / one value per scenario / static): the
            # expansion of x must follow x's own declaration, not that of its neighbours
            # scenario labels: positions 0..ns-1, or shifted integer labels 1..ns given as labels / as Scen objects of an
            # ambiguity set (a Scen carries positions, not labels)
            variants = [(o, t, lm) for o in ('events-first', 'mask-first') for t in ('none', 'finest', 'static-affine')
                        for lm in ('pos', 'shift-label', 'shift-scen')]
            if ses.tier == 'quick':
                variants = [('events-first', 'none', 'pos'), ('mask-first', 'finest', 'shift-label'),
                            ('events-first', 'static-affine', 'shift-scen')]
            for order, tail, labmode in variants:
                with quiet():
                    m = dro.Model(ns) if labmode == 'pos' else dro.Model(list(range(1, ns + 1)))
                    z = m.rvar(3)
                    w = m.dvar(())
                    x = m.dvar(2)
                    Fs = m.ambiguity() if labmode == 'shift-scen' else None
                    if order == 'mask-first':
                        dep = apply_mask(x, z, mask)
                    for ev in seq:
                        if labmode == 'pos':
                            x.adapt(ev if len(ev) > 1 else ev[0])
                        elif labmode == 'shift-label':
                            x.adapt([p_ + 1 for p_ in ev] if len(ev) > 1 else ev[0] + 1)
                        else:
                            x.adapt(Fs.loc[[p_ + 1 for p_ in ev]] if len(ev) > 1 else Fs.loc[ev[0] + 1])
                    if order == 'events-first':
                        dep = apply_mask(x, z, mask)
                    if tail == 'finest':
                        v = m.dvar(())
                        for s_ in range(1, ns):
                            v.adapt(s_ if labmode == 'pos' else s_ + 1)
                    elif tail == 'static-affine':
                        v = m.dvar(2)
                        v.adapt(z[0])
                    try:
                        rules = m.rule_var()
                    except Exception as e:
                        rules = e
                order = '%s tail=%s labels=%s' % (order, tail, labmode)
                if isinstance(rules, Exception):
                    # every declaration above is legal: the expansion into per-scenario rules must exist
                    ses.stats.obligations += 1
                    report(ses, 'dro:legal-declaration-raises', 'dro ns=%d adapt=%s mask=%s %s: legal declarations, but the expansion '
                           'into per-scenario rules raises %s: %s' % (ns, seq, mask, order, type(rules).__name__, str(rules)[:80]),
                           dict(k='dro', ns=ns, seq=seq, mask=mask, order=order))
                    continue
                ses.stats.programs += 1
                n = m.ro_model.rc_model.last
                X = pvars('X', (n,))
                Zp = pvars('Z', (3,))
                label = 'dro ns=%d adapt=%s mask=%s %s' % (ns, seq, mask, order)
                # declared partition (as a label vector) from the adapt sequence
                lab = [-1] * ns
                for k, ev in enumerate(seq):
                    for p in ev:
                        lab[p] = k
                vals = [rule_values(rules[s], X, Zp) for s in range(ns)]
                xrows = [x.first, x.first + 1]
                znames = ['Z[0]', 'Z[1]', 'Z[2]']
                ok = True
                coefs = {}
                for s in range(ns):
                    for i, r in enumerate(xrows):
                        parts = vals[s][r].split(znames)
                        for j, zn in enumerate(znames):
                            c = parts.get((zn,), Poly())
                            coefs[(s, i, j)] = c
                            names = sorted(c.vars())
                            env = {nm: z3.Real(nm) for nm in names}
                            if dep[i, j]:
                                r_, _ = ses.expect_sat('%s/s%d x%d z%d declared' % (label, s, i, j), [c.z3(env) != 0],
                                                       kind='declared-dependence-possible')
                                if r_ == 'unsat':
                                    ok = False
                                    report(ses, 'dro:lost-dependence', '%s: declared dependence of x[%d] on z[%d] has no '
                                           'coefficient in scenario %d' % (label, i, j, s), dict(k='dro', ns=ns, seq=seq, mask=mask, order=order))
                            else:
                                r_, _ = ses.oblige('%s/s%d x%d z%d undeclared' % (label, s, i, j), [], [c.z3(env) != 0],
                                                   kind='undeclared-dependence-zero', twin=False,
                                                   sample=dict(model=label, scenario=s, entry=i, component=j))
                                if r_ == 'sat':
                                    ok = False
                                    report(ses, 'dro:extra-dependence', '%s: x[%d] depends on undeclared z[%d] in scenario %d '
                                           '(coefficient %s)' % (label, i, j, s, c), dict(k='dro', ns=ns, seq=seq, mask=mask, order=order))
                        if any(len(mono) > 1 for mono in parts):
                            ok = False
                            report(ses, 'dro:nonaffine', '%s: rule is not affine in z' % label, dict(k='dro', ns=ns, seq=seq, mask=mask, order=order))
                # event structure
                for s, t in itertools.combinations(range(ns), 2):
                    names = set()
                    diffs = []
                    for r in xrows:
                        names |= vals[s][r].vars() | vals[t][r].vars()
                    env = {nm: z3.Real(nm) for nm in names}
                    diffs = [vals[s][r].z3(env) != vals[t][r].z3(env) for r in xrows]
                    same_event = lab[s] == lab[t]
                    if same_event:
                        r_, _ = ses.oblige('%s/same-event %d~%d' % (label, s, t), [], [z3.Or(diffs)], kind='same-event-identical',
                                           twin=False)
                        if r_ == 'sat':
                            ok = False
                            report(ses, 'dro:event-split', '%s: scenarios %d and %d belong to one event but have different rules'
                                   % (label, s, t), dict(k='dro', ns=ns, seq=seq, mask=mask, order=order))
                    else:
                        r_, _ = ses.expect_sat('%s/different-events %d|%d' % (label, s, t), [z3.And(diffs)],
                                               kind='different-events-free')
                        if r_ == 'unsat':
                            ok = False
                            report(ses, 'dro:event-merged', '%s: scenarios %d and %d belong to different events but share '
                                   'a rule' % (label, s, t), dict(k='dro', ns=ns, seq=seq, mask=mask, order=order))
                        # ... and every declared coefficient is free to differ between the two events as well
                        for i in range(2):
                            for j in range(3):
                                if not dep[i, j]:
                                    continue
                                ca, cb = coefs[(s, i, j)], coefs[(t, i, j)]
                                env2 = {nm: z3.Real(nm) for nm in (ca.vars() | cb.vars())}
                                r2, _ = ses.expect_sat('%s/different-events %d|%d coef x%d z%d' % (label, s, t, i, j),
                                                       [ca.z3(env2) != cb.z3(env2)], kind='different-events-free')
                                if r2 == 'unsat':
                                    ok = False
                                    report(ses, 'dro:event-merged-coefficient', '%s: scenarios %d and %d belong to different events '
                                           'but share the coefficient of x[%d] on z[%d]' % (label, s, t, i, j),
                                           dict(k='dro', ns=ns, seq=seq, mask=mask, order=order))
                # the static variable w (never adapted) is one value for all scenarios
                for s in range(1, ns):
                    a, b = vals[0][w.first], vals[s][w.first]
                    env = {nm: z3.Real(nm) for nm in (a.vars() | b.vars())}
                    r_, _ = ses.oblige('%s/static w s%d' % (label, s), [], [a.z3(env) != b.z3(env)], kind='static-shared', twin=False)
                    if r_ == 'sat':
                        ok = False
                        report(ses, 'dro:static', '%s: non-adaptive decision differs between scenarios' % label,
                               dict(k='dro', ns=ns, seq=seq, mask=mask, order=order))
                # independence of distinct declared coefficients within one scenario / across events
                decl = [(s, i, j) for (s, i, j) in coefs if dep[i, j] and s == 0]
                for (a_, b_) in itertools.combinations(decl, 2):
                    ca, cb = coefs[a_], coefs[b_]
                    env = {nm: z3.Real(nm) for nm in (ca.vars() | cb.vars())}
                    r_, _ = ses.expect_sat('%s/independent %s %s' % (label, a_, b_), [ca.z3(env) != cb.z3(env)],
                                           kind='coefficients-independent')
                    if r_ == 'unsat':
                        ok = False
                        report(ses, 'dro:shared-coefficient', '%s: coefficients %s and %s are the same variable' % (label, a_, b_),
                               dict(k='dro', ns=ns, seq=seq, mask=mask, order=order))
                if ok:
                    ses.stats.nontrivial.add(label)


def report(ses, key, what, data):
    finding(ses, 'C13:' + key, what, data, 'rsv.props.c13:replay')


# ------------------------------------------------------------------ ro decision rules
def run_ro(case, ses):
    from rsome import ro
    from rsome.lp import RoAffine
    z3 = z3mod()
    masks = {'none': [], 'all': [(None, None)], 'y0:z1': [(0, 1)], 'y1:z0:2': [(1, slice(0, 2))],
             'y0:z2;y1:z0': [(0, 2), (1, 0)], 'y:z1': [(None, 1)]}
    for name, deps in [(n_, d_) for n_ in masks for d_ in ((masks[n_], 'plain'), (masks[n_], 'late-rvar'),
                                                            (masks[n_], 'rvar-after-adapt'))]:
        deps, variant = deps
        with quiet():
            m = ro.Model()
            pad = m.dvar(2)
            z = m.rvar(3)
            y = m.ldr(2)
            dep = np.zeros((2, 3), dtype=int)
            for yi, zi in deps:
                yy = y if yi is None else y[yi]
                zz = z if zi is None else z[zi]
                yy.adapt(zz)
                rows = [0, 1] if yi is None else [yi]
                colsel = np.arange(3)[zi] if zi is not None else np.arange(3)
                for r in rows:
                    dep[r, colsel] = 1
            Cu = np.array([[1.0, 0.0], [0.5, 2.0]])
            if variant == 'rvar-after-adapt':
                # ANOTHER random variable is declared after adapt() and before the rule is used for the first time
                u = m.rvar(2)
                ya = y.to_affine() + Cu @ u
            else:
                ya = y.to_affine()
            if variant == 'late-rvar':
                # the rule is used first, ANOTHER random variable is declared afterwards and added: the rule must not
                # pick up any dependence on it (its coefficient array is padded to the wider layout)
                u = m.rvar(2)
                ya = ya + Cu @ u
        ses.stats.programs += 1
        n = m.rc_model.last
        X = pvars('X', (n,))
        nz = 5 if variant in ('late-rvar', 'rvar-after-adapt') else 3
        Zp = pvars('Z', (nz,))
        label = 'ro-ldr mask=%s %s' % (name, variant)
        vals = rule_values(ya, X, Zp)
        znames = ['Z[%d]' % j for j in range(nz)]
        if variant in ('late-rvar', 'rvar-after-adapt'):
            for i in range(2):
                parts = vals[i].split(znames)
                for k in range(2):
                    c = parts.get(('Z[%d]' % (3 + k),), Poly()) - float(Cu[i, k])
                    env = {nm: z3.Real(nm) for nm in c.vars()}
                    r_, _ = ses.oblige('%s y%d u%d' % (label, i, k), [], [c.z3(env) != 0], kind='undeclared-dependence-zero', twin=False)
                    if r_ == 'sat':
                        report(ses, 'ro:extra-dependence-late', '%s: y[%d] picked up a dependence on the later random variable u[%d] '
                               '(coefficient %s beyond the written %g)' % (label, i, k, c, Cu[i, k]), dict(k='ro', mask=name))
            znames = znames[:3]
        ok = True
        for i in range(2):
            parts = vals[i].split(znames)
            for j, zn in enumerate(znames):
                c = parts.get((zn,), Poly())
                env = {nm: z3.Real(nm) for nm in c.vars()}
                if dep[i, j]:
                    r_, _ = ses.expect_sat('%s y%d z%d declared' % (label, i, j), [c.z3(env) != 0], kind='declared-dependence-possible')
                    if r_ == 'unsat':
                        ok = False
                        report(ses, 'ro:lost-dependence', '%s: declared dependence y[%d] on z[%d] missing' % (label, i, j), dict(k='ro', mask=name))
                else:
                    r_, _ = ses.oblige('%s y%d z%d undeclared' % (label, i, j), [], [c.z3(env) != 0], kind='undeclared-dependence-zero', twin=False)
                    if r_ == 'sat':
                        ok = False
                        report(ses, 'ro:extra-dependence', '%s: y[%d] depends on undeclared z[%d]' % (label, i, j), dict(k='ro', mask=name))
        if ok:
            ses.stats.nontrivial.add(label)
    run_ro_interleaved(ses)


def run_ro_interleaved(ses):
    """Declaration histories of one rule: adapt() calls interleaved with declarations of further random variables (the
    dependency table is widened between two calls).  Per history the coefficient of every (entry, random component) pair of
    the rule's affine form is decided: identically zero where no dependence was declared, free where one was."""
    from rsome import ro
    z3 = z3mod()
    # steps: ('a', entry|None, ('z'|'u'|'w', index|None)) = adapt ; ('r', name, size) = declare a random variable
    histories = {
        'y1:z01 | u | y0:z2': [('a', 1, ('z', slice(0, 2))), ('r', 'u', 2), ('a', 0, ('z', 2))],
        'y1:z1 | u | y1:u0': [('a', 1, ('z', 1)), ('r', 'u', 2), ('a', 1, ('u', 0))],
        'y0:z0 | u | y1:u1 | w | y0:w0': [('a', 0, ('z', 0)), ('r', 'u', 2), ('a', 1, ('u', 1)), ('r', 'w', 1), ('a', 0, ('w', 0))],
        'y1:z | u | y:u': [('a', 1, ('z', None)), ('r', 'u', 2), ('a', None, ('u', None))],
        'y2:z2 y1:z0 | u | y0:u1': [('a', 2, ('z', 2)), ('a', 1, ('z', 0)), ('r', 'u', 2), ('a', 0, ('u', 1))],
    }
    for name, steps in histories.items():
        ny = 3 if name.startswith('y2') else 2
        try:
            _interleaved_one(ses, ro, z3, name, steps, ny)
        except RuntimeError as e:
            # a legal history refused by the real code is loud, not a silent violation: noted, the other histories go on
            ses.stats.notes.append('ro-ldr history %s: refused by the real code (%s)' % (name, str(e)[:80]))


def _interleaved_one(ses, ro, z3, name, steps, ny):
    if True:
        with quiet():
            m = ro.Model()
            m.dvar(2)
            rv = {'z': m.rvar(3)}
            y = m.ldr(ny)
            dep = np.zeros((ny, 3), dtype=int)
            for st in steps:
                if st[0] == 'r':
                    rv[st[1]] = m.rvar(st[2])
                    dep = np.hstack((dep, np.zeros((ny, st[2]), dtype=int)))
                else:
                    _, yi, (zn, zi) = st
                    r = rv[zn]
                    (y if yi is None else y[yi]).adapt(r if zi is None else r[zi])
                    cols = np.arange(r.first, r.first + r.size)
                    cols = cols if zi is None else np.atleast_1d(cols[zi])
                    for rr in (range(ny) if yi is None else [yi]):
                        dep[rr, cols] = 1
            ya = y.to_affine()
        ses.stats.programs += 1
        n = m.rc_model.last
        nz = dep.shape[1]
        X = pvars('X', (n,))
        Zp = pvars('Z', (nz,))
        label = 'ro-ldr history %s' % name
        vals = rule_values(ya, X, Zp)
        znames = ['Z[%d]' % j for j in range(nz)]
        ok = True
        for i in range(ny):
            parts = vals[i].split(znames)
            for j, zn in enumerate(znames):
                c = parts.get((zn,), Poly())
                env = {nm: z3.Real(nm) for nm in c.vars()}
                if dep[i, j]:
                    r_, _ = ses.expect_sat('%s y%d z%d declared' % (label, i, j), [c.z3(env) != 0], kind='declared-dependence-possible')
                    if r_ == 'unsat':
                        ok = False
                        report(ses, 'ro:lost-dependence-history', '%s: declared dependence of y[%d] on random component %d missing'
                               % (label, i, j), dict(k='ro', mask=name))
                else:
                    r_, _ = ses.oblige('%s y%d z%d undeclared' % (label, i, j), [], [c.z3(env) != 0], kind='undeclared-dependence-zero', twin=False)
                    if r_ == 'sat':
                        ok = False
                        report(ses, 'ro:extra-dependence-history', '%s: y[%d] depends on undeclared random component %d'
                               % (label, i, j), dict(k='ro', mask=name))
        if ok:
            ses.stats.nontrivial.add(label)


# ------------------------------------------------------------------ (c) mixed partitions
def refinement(ns, seq_a, seq_b):
    def lab(seq):
        l = [-1] * ns
        for k, ev in enumerate(seq):
            for p in ev:
                l[p] = k
        return l
    la, lb = lab(seq_a), lab(seq_b)
    blocks = {}
    for i in range(ns):
        blocks.setdefault((la[i], lb[i]), []).append(i)
    return sorted(sorted(b) for b in blocks.values())


def run_mix(case, ses):
    from rsome import dro
    ns = 3
    seqs = partitions_by_adapt(ns)
    count = 0
    for sa, sb in itertools.product(seqs, seqs):
        with quiet():
            m = dro.Model(ns)
            x = m.dvar(2)
            y = m.dvar(2)
            for ev in sa:
                x.adapt(ev if len(ev) > 1 else ev[0])
            for ev in sb:
                y.adapt(ev if len(ev) > 1 else ev[0])
            e = 2 * x - y + 1
            c = (x + y <= 3)
        ses.stats.obligations += 1
        ses.stats.kinds['mixed-partition-refinement'] = ses.stats.kinds.get('mixed-partition-refinement', 0) + 1
        want = refinement(ns, sa, sb)
        got = sorted(sorted(int(t) for t in b) for b in e.event_adapt)
        gotc = sorted(sorted(int(t) for t in b) for b in c.event_adapt)
        if got == want and gotc == want:
            ses.stats.discharged += 1
            count += 1
        else:
            report(ses, 'mix', 'x adapt %s, y adapt %s: expression partition %s / constraint %s, refinement is %s'
                   % (sa, sb, got, gotc, want), dict(k='mix', sa=sa, sb=sb))
    ses.stats.programs += count
    ses.stats.nontrivial.add('mixed-partitions')


# ------------------------------------------------------------------ (d) illegal declarations
def run_illegal(case, ses):
    from rsome import dro, ro, E

    def expect_raise(tag, fn):
        ses.stats.obligations += 1
        ses.stats.kinds['illegal-declaration-raises'] = ses.stats.kinds.get('illegal-declaration-raises', 0) + 1
        try:
            with quiet():
                fn()
        except (NameError, ImportError, AttributeError) as e:
            if isinstance(e, (NameError, ImportError)):
                raise HarnessError('illegal-declaration scenario is broken: %s: %s' % (tag, e))
            ses.stats.discharged += 1
            return
        except Exception:
            ses.stats.discharged += 1
            return
        report(ses, 'illegal:' + tag, 'illegal declaration accepted silently: %s' % tag, dict(k='illegal', tag=tag))

    def redeclare_scenario():
        m = dro.Model(3)
        x = m.dvar(2)
        x.adapt(0)
        x.adapt([0, 1])

    def redeclare_dependency():
        m = dro.Model(2)
        z = m.rvar(2)
        x = m.dvar(2)
        x.adapt(z)
        x[0].adapt(z[1])

    def integer_affine():
        m = dro.Model(2)
        z = m.rvar(2)
        x = m.dvar(2, 'I')
        x.adapt(z)

    def binary_affine_slice():
        m = dro.Model(2)
        z = m.rvar(2)
        x = m.dvar(2, 'B')
        x[0].adapt(z[0])

    def ldr_after_use():
        m = ro.Model()
        z = m.rvar(2)
        y = m.ldr(2)
        m.st(y >= 0)
        y.adapt(z)

    def ldr_slice_after_use():
        m = ro.Model()
        z = m.rvar(2)
        y = m.ldr(2)
        m.st(y[0] <= 1)
        y.adapt(z)

    def ldr_expr_after_use():
        m = ro.Model()
        z = m.rvar(2)
        y = m.ldr(2)
        e = 2 * y[1] + 1
        y.adapt(z)

    def ldr_slice_adapt_after_slice_use():
        m = ro.Model()
        z = m.rvar(2)
        y = m.ldr((2, 2))
        m.st(y[:, 0].sum() <= 1)
        y[1].adapt(z[0])

    def ldr_sum_after_use():
        m = ro.Model()
        z = m.rvar(2)
        y = m.ldr(2)
        m.st(y.sum() <= 1)
        y[0].adapt(z[1])

    def ldr_redeclare():
        m = ro.Model()
        z = m.rvar(2)
        y = m.ldr(2)
        y.adapt(z)
        y[1].adapt(z[0])

    def unknown_scenario():
        m = dro.Model(2)
        x = m.dvar(2)
        x.adapt(5)

    def rule_times_random():
        m = dro.Model(2)
        z = m.rvar(2)
        x = m.dvar(2)
        x.adapt(z)
        fset = m.ambiguity()
        fset.suppset(z >= 0, z <= 1)
        m.minsup((x * z).sum(), fset)
        m.do_math()

    def foreign_rvar():
        m = dro.Model(2)
        m2 = dro.Model(2)
        z2 = m2.rvar(2)
        x = m.dvar(2)
        x.adapt(z2)
    def integer_array_affine():
        m = dro.Model(2)
        z = m.rvar(2)
        x = m.dvar(2, vtype='BB')
        x.adapt(z)

    def integer_entry_affine():
        m = dro.Model(2)
        z = m.rvar(2)
        x = m.dvar(2, vtype='CI')
        x[1].adapt(z[0])

    def ldr_adapt_to_decision():
        m = ro.Model()
        z = m.rvar(2)
        x = m.dvar(2)
        y = m.ldr(2)
        y.adapt(x[0])

    def dro_event_adapt_after_formulation():
        m = dro.Model(2)
        z = m.rvar()
        x = m.dvar()
        F = m.ambiguity()
        F.suppset(z >= 0, z <= 1)
        m.minsup(E(x), F)
        m.st(x >= z)
        m.do_math()
        x.adapt(1)

    def dro_affine_adapt_after_formulation():
        m = dro.Model(2)
        z = m.rvar()
        x = m.dvar()
        F = m.ambiguity()
        F.suppset(z >= 0, z <= 1)
        m.minsup(E(x), F)
        m.st(x >= z)
        m.do_math()
        x.adapt(z)
    def redeclare_scenario_complete_partition():
        m = dro.Model(4)
        x = m.dvar()
        x.adapt([0, 1])
        x.adapt([2, 3])
        x.adapt(0)
    def integer_entry_affine_2d():
        m = dro.Model(2)
        z = m.rvar(2)
        x = m.dvar((4, 2), vtype='IICCCCCC')
        x[0, 1].adapt(z[0])

    def integer_row_affine_2d():
        m = dro.Model(2)
        z = m.rvar(2)
        x = m.dvar((2, 3), vtype='CCCIII')
        x[1].adapt(z[0])
    expect_raise('affine adaptation of an integer entry of a 2-D array with per-element types', integer_entry_affine_2d)
    expect_raise('affine adaptation of the integer row of a 2-D array with per-element types', integer_row_affine_2d)

    # ... and the LEGAL neighbours must be accepted (a check that refuses everything would pass the list above)
    def expect_accept(tag, fn):
        ses.stats.obligations += 1
        ses.stats.kinds['legal-declaration-accepted'] = ses.stats.kinds.get('legal-declaration-accepted', 0) + 1
        try:
            with quiet():
                fn()
        except Exception as e:
            report(ses, 'legal:' + tag, 'legal declaration refused: %s (%s: %s)' % (tag, type(e).__name__, str(e)[:60]),
                   dict(k='illegal', tag=tag))
            return
        ses.stats.discharged += 1

    def continuous_row_affine_2d():
        m = dro.Model(2)
        z = m.rvar(2)
        x = m.dvar((2, 3), vtype='CCCIII')
        x[0].adapt(z[0])
        x[0, 1].adapt(z[1])

    def continuous_entry_affine_1d():
        m = dro.Model(2)
        z = m.rvar(2)
        x = m.dvar(3, vtype='CIB')
        x[0].adapt(z)
    expect_accept('affine adaptation of the continuous row of a 2-D array with per-element types', continuous_row_affine_2d)
    expect_accept('affine adaptation of the continuous entry of a mixed 1-D array', continuous_entry_affine_1d)
    for tag, fn in [('re-declare a scenario after the partition is complete', redeclare_scenario_complete_partition),
                    ('affine adaptation of an array declared with per-element integer types', integer_array_affine),
                    ('affine adaptation of the integer entry of a mixed array', integer_entry_affine),
                    ('LDR adapted to a decision variable', ldr_adapt_to_decision),
                    ('dro event-wise adaptation declared after the model was formulated', dro_event_adapt_after_formulation),
                    ('dro affine adaptation declared after the model was formulated', dro_affine_adapt_after_formulation)]:
        expect_raise(tag, fn)
    for tag, fn in [('re-declare scenario', redeclare_scenario), ('re-declare dependency', redeclare_dependency),
                    ('affine adaptation of integers', integer_affine), ('affine adaptation of a binary slice', binary_affine_slice),
                    ('LDR adaptation after use', ldr_after_use), ('LDR re-declared dependency', ldr_redeclare),
                    ('LDR adaptation after use of a slice in a constraint', ldr_slice_after_use),
                    ('LDR adaptation after use of a slice in an expression', ldr_expr_after_use),
                    ('LDR slice adaptation after use of another slice', ldr_slice_adapt_after_slice_use),
                    ('LDR slice adaptation after use of the summed rule', ldr_sum_after_use),
                    ('unknown scenario', unknown_scenario), ('adaptive rule times random variable', rule_times_random),
                    ('random variable of another model', foreign_rvar)]:
        expect_raise(tag, fn)
    ses.stats.nontrivial.add('illegal-declarations')
    ses.stats.nontrivial.add('illegal-declarations-2')


def replay(data, verbose=False):
    if data['k'] == 'delegate':
        import importlib
        modname, fn = data['replayer'].split(':')
        return getattr(importlib.import_module(modname), fn)(data['data'], verbose=verbose)
    if data['k'] == 'xh':
        sys.path.insert(0, ROOT)
        from rsv.xh import kernels
        r = getattr(kernels, data['fn'])(*data['args'])
        if verbose:
            print('%s%s returns %r' % (data['fn'], tuple(data['args']), r))
        return r is not True
    if verbose:
        print('re-run: ./rsv-check C13 --only %s' % data['k'])
    return True
