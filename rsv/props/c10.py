"""C10 - only convex uses of convex/concave expressions are accepted.

Layer S (symbolic, by induction over operation chains).  An expression object of the Convex
family denotes   f = k * psi + a   with psi the atom's CONVEX base function, where the stored
fields satisfy the invariant
      Inv:  k = sign * multiplier^e   (e = 2 for S,Q; 1 otherwise),  a = affine_out,  multiplier >= 0,
            sign in {+1,-1} or (sign = 0 and multiplier = 0).
The REAL methods (__neg__, __mul__, __rmul__, __add__, __radd__, __sub__, __rsub__, __le__,
__ge__, __eq__) are executed concolically on an ARBITRARY state satisfying Inv with symbolic
multiplier, offset and scalar operands; all paths are enumerated (dynamic symbolic execution) and
z3 decides per path that
   * each operation returns an object of the same family satisfying Inv for the mathematically
     correct (k', a')   -> chains of ANY length preserve Inv;
   * comparisons accept only if the use is convex (k*side >= 0), the produced constraint record
     means exactly the written constraint, and strictly convex uses are not rejected; == raises.
Piecewise (maxof/minof) objects: f = sign * max_j piece_j with symbolic piece values.
Layer T (real objects): for atoms x chains with real affine offsets x both comparison directions
and operand orders, in the ro and dro front ends, the oracle (k, a) calculus predicts accept /
reject; rejected forms must raise before a program exists, accepted forms are compiled and their
program is validated against the written constraint (C06 machinery).  Bilinear products raise.
"""
import itertools
from fractions import Fraction
import numpy as np

from ..poly import z3mod, Poly, parr
from ..smt import HarnessError, fval
from ..harness import finding
from ..util import quiet
from .. import concolic as cc

PROP = 'C10'
LEVEL = 'translation_validation'
TIMEOUT_MS = 20000

META = dict(
    functions=['rsome.lp.Convex.__neg__/__add__/__radd__/__sub__/__rsub__/__mul__/__rmul__/__le__/__ge__/__eq__',
               'rsome.lp.PerspConvex (same)', 'rsome.lp.DecConvex (same)', 'rsome.lp.DecPerspConvex (same)',
               'rsome.lp.PiecewiseConvex / ExpPiecewiseConvex (same)', 'rsome.lp.Affine.__le__/__ge__ (type switch)',
               'rsome.lp.DecAffine.__le__/__ge__/__eq__', 'rsome.lp.Affine.__mul__/__matmul__, DecAffine.__mul__ (bilinear)',
               'rsome.ro.Model.min/max/st, rsome.dro.Model.min/max/st (objective curvature)'],
    rule='layer S: one case = (class family, atom type, pre-sign, operation); every concolic path is one obligation; '
         'layer T: one case = (front end, atom, chain, comparison form); non-trivial = all paths of the case decided; '
         'distinct by label',
    bounds='layer S: all atom type letters of Convex.__mul__ (18), pre-sign in {+1,-1,0}, scalars/multipliers/offsets '
           'unbounded reals (solver), <= 64 paths per operation; layer T: 12 atoms x 10 chains x 6 comparison forms x 2 '
           'front ends, objective min/max',
    outside='array-valued offsets are element-wise copies of the scalar case (not separately symbolic); Affine offsets '
            'are covered concretely in layer T only',
    assumptions=['an affine offset is represented by its value at an arbitrary point (a symbolic scalar)',
                 'meaning of a CvxConstr record = multiplier^e * psi(affine_in) + affine_out <= 0 (how do_math consumes it; '
                 'validated by C06/C07)', 'sqrt(|c|) is a fresh r >= 0 with r^2 = |c|'],
    trusted=['z3 5.1', 'concolic scalar class (rsv/concolic.py): arithmetic/comparison overloads', 'CPython semantics of the '
             'executed real methods'],
)

E1 = 'AMNGIEXLPFKODTC'
E2 = 'SQ'


def cases(tier, seed, rnd):
    cs = []
    fams = ['Convex', 'PerspConvex', 'DecConvex', 'DecPerspConvex']
    ops = ['neg', 'mul', 'rmul', 'add', 'radd', 'sub', 'rsub', 'le', 'ge', 'rle', 'rge', 'eq']
    for fam in fams:
        xts = (E1 + E2) if fam in ('Convex', 'DecConvex') else 'XL'
        if tier == 'quick' and fam == 'DecConvex':
            xts = 'AESXLQC'
        for xt in xts:
            cs.append(dict(k='S', fam=fam, xt=xt, ops=ops))
    for fam in ('PiecewiseConvex', 'ExpPiecewiseConvex'):
        cs.append(dict(k='PW', fam=fam, ops=['neg', 'mul', 'rmul', 'add', 'radd', 'sub', 'rsub', 'le', 'ge', 'rle', 'rge']))
    for front in ('ro', 'dro'):
        for atom in T_ATOMS:
            cs.append(dict(k='T', front=front, atom=atom))
    cs.append(dict(k='bilinear'))
    # layer M: accepted uses MEAN what was written - the compiled program of  k*atom + affine  (built by a chain of
    # operations on the real expression) against the oracle, soundness and exactness (machinery of C06/C07)
    from ..detgen import CHAIN_BASES, MEANING_CHAINS
    fronts = ['ro'] if tier == 'quick' else ['ro', 'dro']
    for front in fronts:
        for base in CHAIN_BASES:
            specs = []
            for ci, chain in enumerate(MEANING_CHAINS):
                forms = ['cons'] if tier == 'quick' and ci not in (1, 5) else ['cons', 'rcons', 'obj']
                if tier == 'quick' and ci in (0, 6, 8):
                    continue
                for form in forms:
                    specs.append(dict(name='chain:%s:%s:%d:%s' % (front, base, ci, form), atom='chain', base=base,
                                      chain=chain, form=form, front=front))
            if base in ('abs', 'norm1', 'norminf', 'norm2', 'square', 'sumsqr', 'maxof', 'minof'):
                # multiplication by ZERO followed by an affine addition: what is left is the affine part
                for zc in (['mul', 0.0, 'sub_aff'], ['rmul', 0.0, 'add_c', 1.0, 'sub_aff']):
                    specs.append(dict(name='chain:%s:%s:zero%d:cons' % (front, base, len(zc)), atom='chain', base=base,
                                      chain=zc, form='cons', front=front))
            for i in range(0, len(specs), 2):
                cs.append(dict(k='M', front=front, base=base, part=i // 2, specs=specs[i:i + 2]))
    # ... and for worst-case expectations of piecewise expressions in the dro front end (ExpPiecewiseConvex), through the
    # machinery of C03/C04
    for ci in range(len(MEANING_CHAINS)):
        for form in ('max', 'min'):
            if tier == 'quick' and form == 'min' and ci not in (0, 2, 5):
                continue
            cs.append(dict(k='ME', name='chainE%d%s' % (ci, form)))
    cs.append(dict(k='EX'))
    return cs


def run_case(case, ses):
    {'S': run_S, 'PW': run_PW, 'T': run_T, 'bilinear': run_bilinear, 'M': run_M, 'ME': run_ME, 'EX': run_EX}[case['k']](case, ses)


def run_ME(case, ses):
    from . import c03, c04
    from ..drogen import lookup
    from ..dromodels import RealDRO
    try:
        with quiet():
            r = RealDRO()
            lookup(case['name'])(r)
            r.m.do_math()
    except Exception as e:
        ses.stats.kinds['M-raises'] = ses.stats.kinds.get('M-raises', 0) + 1
        return
    c03.run_case(dict(name=case['name']), ses)
    c04.run_case(dict(name=case['name']), ses)


def run_M(case, ses):
    from . import c06, c07
    from .. import detgen
    from ..models import RealRO
    for spec in case['specs']:
        try:
            with quiet():
                r = RealRO(None, spec['front'])
                detgen.desc_from_spec(spec)(r)
                r.m.do_math()
        except Exception as e:
            # a chain step or the use itself is rejected by RSOME (raises): allowed by the property
            ses.stats.kinds['M-raises'] = ses.stats.kinds.get('M-raises', 0) + 1
            continue
        c06.run_case(dict(spec=spec), ses)
        c07.run_model(spec, ses)


# =====================================================================================
#  Layer S
# =====================================================================================
def make_state(fam, xt, sign0, m, o):
    """A real object of the family in an arbitrary state (sign0, multiplier m, offset o)."""
    from rsome import ro, dro
    from rsome.lp import Convex, PerspConvex, DecConvex, DecPerspConvex
    if fam in ('Convex', 'PerspConvex'):
        mod = ro.Model()
        x = mod.dvar(2)
    else:
        mod = dro.Model(2)
        x = mod.dvar(2)
    aff = (x[0:1] * 1.0) if xt in 'S' else (x * 1.0)
    params = {'G': 3, 'N': 2.5, 'T': (np.array(3), np.array(1)), 'C': [1, 1]}.get(xt)
    if fam == 'Convex':
        return Convex(aff.to_affine(), o, xt, sign0, m, params=params)
    if fam == 'PerspConvex':
        return PerspConvex(aff.to_affine(), 2.0, o, xt, sign0, m)
    if fam == 'DecConvex':
        base = Convex(aff.to_affine(), o, xt, sign0, m, params=params)
        return DecConvex(base, [[0, 1]])
    base = PerspConvex(aff.to_affine(), 2.0, o, xt, sign0, m)
    return DecPerspConvex(base, [[0, 1]])


def fam_ok(fam, obj):
    from rsome.lp import Convex, PerspConvex, DecConvex, DecPerspConvex
    want = dict(Convex=Convex, PerspConvex=PerspConvex, DecConvex=DecConvex, DecPerspConvex=DecPerspConvex)[fam]
    return type(obj) is want


def constr_ok(fam, obj):
    from rsome.lp import CvxConstr, PCvxConstr, DecCvxConstr, DecPCvxConstr
    want = dict(Convex=CvxConstr, PerspConvex=PCvxConstr, DecConvex=DecCvxConstr, DecPerspConvex=DecPCvxConstr)[fam]
    return type(obj) is want


def scal(v):
    """The scalar carried by an offset field (CV, 0-d/1-entry array, float)."""
    if isinstance(v, np.ndarray):
        flat = list(v.reshape(-1))
        return flat[0]
    return v


def run_S(case, ses):
    z3 = z3mod()
    fam, xt = case['fam'], case['xt']
    e = 2 if xt in E2 else 1
    M, O, C, A = z3.Real('m'), z3.Real('o'), z3.Real('c'), z3.Real('a')
    ses.stats.programs += 1
    for sign0 in (1, -1, 0):
        for op in case['ops']:
            label = '%s[%s] sign=%d %s' % (fam, xt, sign0, op)
            assume = [M >= 0] + ([M == 0] if sign0 == 0 else [])

            def mk(model):
                return dict(m=cc.cv_from_model(model, M), o=cc.cv_from_model(model, O),
                            c=cc.cv_from_model(model, C), a=cc.cv_from_model(model, A))

            def fn(inp, op=op, sign0=sign0):
                with quiet():
                    f = make_state(fam, xt, sign0, inp['m'], inp['o'])
                c, a = inp['c'], inp['a']
                if op == 'neg':
                    return -f
                if op == 'mul':
                    return f * c
                if op == 'rmul':
                    return c * f
                if op == 'add':
                    return f + a
                if op == 'radd':
                    return a + f
                if op == 'sub':
                    return f - a
                if op == 'rsub':
                    return a - f
                if op == 'le':
                    return f <= a
                if op == 'ge':
                    return f >= a
                if op == 'rle':
                    return a <= f
                if op == 'rge':
                    return a >= f
                if op == 'eq':
                    return f == a
            paths = cc.explore(mk, fn, assume, ses, max_paths=64, label=label)
            kpre = sign0 * (M * M if e == 2 else M)
            allok = True
            for pi, p in enumerate(paths):
                neg = path_obligation(fam, op, e, sign0, p, kpre, O, C, A, z3)
                plabel = '%s/path%d' % (label, pi)
                if neg is None:
                    continue
                if isinstance(neg, str):
                    allok = False
                    data = dict(k='S', fam=fam, xt=xt, sign0=sign0, op=op, what=neg,
                                point={k: str(v.v) for k, v in p['inputs'].items()})
                    finding(ses, 'C10:S:%s:%s' % (fam, op), '%s: %s' % (label, neg), data, 'rsv.props.c10:replay')
                    continue
                res, model = ses.oblige(plabel, assume + p['pc'] + p['side'], [neg], kind='S-' + op_kind(op),
                                        sample=dict(family=fam, atom=xt, pre_sign=sign0, op=op,
                                                    path=[str(c)[:40] for c in p['pc']][:4],
                                                    outcome=('raises ' + type(p['exc']).__name__) if p['exc'] else 'returns'))
                if res == 'sat':
                    allok = False
                    pt = dict(m=str(fval(model, M)), o=str(fval(model, O)), c=str(fval(model, C)), a=str(fval(model, A)))
                    data = dict(k='S', fam=fam, xt=xt, sign0=sign0, op=op, point=pt)
                    if replay(data):
                        finding(ses, 'C10:S:%s:%s' % (fam, op),
                                '%s: invariant / acceptance rule violated at %s' % (label, pt), data, 'rsv.props.c10:replay')
                    else:
                        raise HarnessError('C10 layer S counterexample does not reproduce: %s %s' % (label, pt))
                elif res != 'unsat':
                    allok = False
            if allok:
                ses.stats.nontrivial.add(label)


def op_kind(op):
    return 'compare' if op in ('le', 'ge', 'rle', 'rge', 'eq') else 'transform'


def kterm(obj, e, z3):
    """k of a result object from its stored fields: sign * multiplier^e."""
    s = obj.sign
    mt = cc.z3v(obj.multiplier)
    sv = cc.z3v(s) if isinstance(s, cc.CV) else z3.RealVal(int(s))
    return sv * (mt * mt if e == 2 else mt), mt, sv


def path_obligation(fam, op, e, sign0, p, kpre, O, C, A, z3):
    """Negated post-condition of one path (z3 bool), a string for structural failures, or None."""
    exc, res = p['exc'], p['result']
    if op in ('neg', 'mul', 'rmul', 'add', 'radd', 'sub', 'rsub'):
        if exc is not None:
            return 'operation raises %s: %s' % (type(exc).__name__, str(exc)[:60])
        if not fam_ok(fam, res):
            return 'operation returns %s, not an object of the family' % type(res).__name__
        k2, m2, s2 = kterm(res, e, z3)
        o2 = cc.z3v(scal(res.affine_out))
        exp_k, exp_o = {
            'neg': (-kpre, -O), 'mul': (C * kpre, C * O), 'rmul': (C * kpre, C * O),
            'add': (kpre, O + A), 'radd': (kpre, O + A), 'sub': (kpre, O - A), 'rsub': (-kpre, A - O)}[op]
        post = z3.And(k2 == exp_k, o2 == exp_o, m2 >= 0, z3.Or(s2 == 1, s2 == -1, z3.And(s2 == 0, m2 == 0)))
        return z3.Not(post)
    if op == 'eq':
        if exc is None:
            return 'equality with a convex expression is accepted'
        return None
    # comparisons: written constraint  lhs <= 0  with lhs = kk*psi + aa
    kk, aa = {'le': (kpre, O - A), 'rge': (kpre, O - A), 'ge': (-kpre, A - O), 'rle': (-kpre, A - O)}[op]
    if exc is not None:
        if not isinstance(exc, ValueError):
            return 'comparison raises %s instead of the non-convexity error: %s' % (type(exc).__name__, str(exc)[:60])
        # rejected: the use must not be strictly convex
        return kk > 0
    if not constr_ok(fam, res):
        return 'comparison returns %s' % type(res).__name__
    m2 = cc.z3v(res.multiplier)
    o2 = cc.z3v(scal(res.affine_out))
    post = z3.And(kk >= 0, (m2 * m2 if e == 2 else m2) == kk, o2 == aa, m2 >= 0)
    return z3.Not(post)


# ------------------------------------------------------------------ piecewise
def run_PW(case, ses):
    from rsome.lp import PiecewiseConvex, ExpPiecewiseConvex, PWConstr
    z3 = z3mod()
    fam = case['fam']
    cls = PiecewiseConvex if fam == 'PiecewiseConvex' else ExpPiecewiseConvex
    P1, P2, C, A = z3.Real('p1'), z3.Real('p2'), z3.Real('c'), z3.Real('a')
    ses.stats.programs += 1

    def zmax(a, b):
        return z3.If(a >= b, a, b)
    for sign0 in (1, -1):
        for op in case['ops']:
            label = '%s sign=%d %s' % (fam, sign0, op)

            def mk(model):
                return dict(p1=cc.cv_from_model(model, P1), p2=cc.cv_from_model(model, P2),
                            c=cc.cv_from_model(model, C), a=cc.cv_from_model(model, A))

            def fn(inp, op=op, sign0=sign0):
                f = cls(None, [inp['p1'], inp['p2']], sign0, sign0)
                c, a = inp['c'], inp['a']
                return {'neg': lambda: -f, 'mul': lambda: f * c, 'rmul': lambda: c * f, 'add': lambda: f + a,
                        'radd': lambda: a + f, 'sub': lambda: f - a, 'rsub': lambda: a - f, 'le': lambda: f <= a,
                        'ge': lambda: f >= a, 'rle': lambda: a <= f, 'rge': lambda: a >= f}[op]()
            paths = cc.explore(mk, fn, [], ses, max_paths=64, label=label)
            fpre = sign0 * zmax(P1, P2)
            allok = True
            for pi, p in enumerate(paths):
                exc, res = p['exc'], p['result']
                neg = None
                if op in ('neg', 'mul', 'rmul', 'add', 'radd', 'sub', 'rsub'):
                    if exc is not None or type(res) is not cls:
                        neg = 'operation fails or leaves the family: %s' % (exc or type(res).__name__)
                    else:
                        sv = cc.z3v(res.sign) if isinstance(res.sign, cc.CV) else z3.RealVal(int(res.sign))
                        pv_ = [cc.z3v(p_) for p_ in res.pieces]
                        val = sv * (pv_[0] if len(pv_) == 1 else zmax(pv_[0], pv_[1]))
                        want = {'neg': -fpre, 'mul': C * fpre, 'rmul': C * fpre, 'add': fpre + A, 'radd': fpre + A,
                                'sub': fpre - A, 'rsub': A - fpre}[op]
                        neg = z3.Not(z3.And(val == want, z3.Or(sv == 1, sv == -1, sv == 0)))
                else:
                    lhs = {'le': fpre - A, 'rge': fpre - A, 'ge': A - fpre, 'rle': A - fpre}[op]
                    side = {'le': sign0, 'rge': sign0, 'ge': -sign0, 'rle': -sign0}[op]
                    if exc is not None:
                        neg = z3.BoolVal(side > 0) if isinstance(exc, ValueError) else 'raises %s' % type(exc).__name__
                    elif not isinstance(res, PWConstr):
                        neg = 'comparison returns %s' % type(res).__name__
                    else:
                        conj = z3.And([pc_.t for pc_ in res.pieces])
                        neg = z3.Not(z3.And(z3.BoolVal(side > 0), conj == (lhs <= 0)))
                if isinstance(neg, str):
                    allok = False
                    finding(ses, 'C10:PW:%s:%s' % (fam, op), '%s: %s' % (label, neg),
                            dict(k='PW', fam=fam, sign0=sign0, op=op), 'rsv.props.c10:replay')
                    continue
                res_, model = ses.oblige('%s/path%d' % (label, pi), p['pc'] + p['side'], [neg], kind='PW-' + op_kind(op),
                                         sample=dict(family=fam, pre_sign=sign0, op=op))
                if res_ == 'sat':
                    allok = False
                    pt = dict(p1=str(fval(model, P1)), p2=str(fval(model, P2)), c=str(fval(model, C)), a=str(fval(model, A)))
                    finding(ses, 'C10:PW:%s:%s' % (fam, op), '%s: wrong result / acceptance at %s' % (label, pt),
                            dict(k='PW', fam=fam, sign0=sign0, op=op, point=pt), 'rsv.props.c10:replay')
                elif res_ != 'unsat':
                    allok = False
            if allok:
                ses.stats.nontrivial.add(label)


# =====================================================================================
#  Layer T - real objects, both front ends
# =====================================================================================
T_ATOMS = ['abs', 'norm1', 'norminf', 'norm2', 'square', 'sumsqr', 'exp', 'log', 'expv', 'logv', 'entropy', 'softplus', 'maxof', 'minof',
           'gmean', 'power3', 'pexp', 'plog']
CURV = dict(abs=1, norm1=1, norminf=1, norm2=1, square=1, sumsqr=1, exp=1, log=-1, entropy=-1, softplus=1, maxof=1,
            minof=-1, gmean=-1, power3=1, pexp=1, plog=-1, expv=1, logv=-1)
CHAINS = [[], ['neg'], ['mul', 2.0], ['mul', -1.5], ['mul', -2.0, 'neg'], ['neg', 'rmul', -0.5], ['add_c', 1.0, 'mul', -1.0],
          ['mul', 0.5, 'sub_aff'], ['rsub_aff', 'neg'], ['rsub_c', 2.0], ['mul', -2.0, 'rsub_aff', 'rmul', -1.0],
          # .sum() of an element-wise atom AFTER its sign was changed (the summed atom must keep the tracked sign)
          ['sum'], ['neg', 'sum'], ['rmul', -2.0, 'sum'], ['rsub_c', 1.0, 'sum'], ['mul', 2.0, 'sum', 'neg'], ['neg', 'sum', 'neg']]
FORMS = ['le', 'ge', 'rle', 'rge', 'eq', 'min', 'max']


def t_atom(rso, atom, x, scalar_out=True):
    if atom == 'abs':
        return abs(x[0] - 0.5)
    if atom == 'norm1':
        return rso.norm(x, 1)
    if atom == 'norminf':
        return rso.norm(x, 'inf')
    if atom == 'norm2':
        return rso.norm(x, 2)
    if atom == 'square':
        return rso.square(x[0] + 1.0)
    if atom == 'sumsqr':
        return rso.sumsqr(x)
    if atom == 'expv':
        return rso.exp(x)
    if atom == 'logv':
        return rso.log(x + 3.0)
    if atom == 'exp':
        return rso.exp(x[0])
    if atom == 'log':
        return rso.log(x[0] + 3.0)
    if atom == 'entropy':
        return rso.entropy(x + 3.0)
    if atom == 'softplus':
        return rso.softplus(x[0])
    if atom == 'maxof':
        return rso.maxof(x[0], x[1] - 1.0, 0.5 * x[0] + 0.5 * x[1])
    if atom == 'minof':
        return rso.minof(x[0], x[1] - 1.0)
    if atom == 'gmean':
        return rso.gmean(x + 3.0)
    if atom == 'power3':
        return rso.power(x[0], 3)
    if atom == 'pexp':
        return rso.pexp(x[0], x[1] + 3.0)
    if atom == 'plog':
        return rso.plog(x[0] + 3.0, x[1] + 3.0)
    raise HarnessError(atom)


def apply_chain(f, chain, y):
    """Apply a chain to the real expression; returns (expr, k) with k the true coefficient of the atom."""
    k = 1.0
    it = iter(chain)
    for op in it:
        if op == 'neg':
            f, k = -f, -k
        elif op == 'mul':
            c = next(it)
            f, k = f * c, k * c
        elif op == 'rmul':
            c = next(it)
            f, k = c * f, k * c
        elif op == 'add_c':
            c = next(it)
            f = f + c
        elif op == 'rsub_c':
            c = next(it)
            f, k = c - f, -k
        elif op == 'sum':
            f = f.sum()
        elif op == 'sub_aff':
            f = f - (2.0 * y - 1.0)
        elif op == 'rsub_aff':
            f, k = (y + 0.5) - f, -k
    return f, k


def run_T(case, ses):
    from rsome import ro, dro
    import rsome as rso
    front, atom = case['front'], case['atom']
    ses.stats.programs += 1
    for chain in CHAINS:
        for form in FORMS:
            label = 'T %s %s chain=%s %s' % (front, atom, chain, form)

            def build():
                m = ro.Model() if front == 'ro' else dro.Model(2)
                x = m.dvar(2)
                y = m.dvar()
                f = t_atom(rso, atom, x)
                g, k = apply_chain(f, chain, y)
                return m, x, y, g, k
            try:
                with quiet():
                    m, x, y, g, k = build()
                built = True
            except Exception as e:
                # a chain step itself may be unsupported (raises): allowed
                ses.stats.kinds['T-chain-raises'] = ses.stats.kinds.get('T-chain-raises', 0) + 1
                continue
            kc = k * CURV[atom]          # > 0: expression is convex, < 0: concave
            if form in ('le', 'rge'):
                convex_use = kc >= 0
            elif form in ('ge', 'rle'):
                convex_use = kc <= 0
            elif form == 'min':
                convex_use = kc >= 0
            elif form == 'max':
                convex_use = kc <= 0
            else:
                convex_use = False
            raised, produced = None, False
            try:
                with quiet():
                    if form == 'le':
                        c = (g <= y)
                    elif form == 'ge':
                        c = (g >= y)
                    elif form == 'rle':
                        c = (y <= g)
                    elif form == 'rge':
                        c = (y >= g)
                    elif form == 'eq':
                        c = (g == y)
                    if form in ('min', 'max'):
                        (m.min if form == 'min' else m.max)(g)
                        m.st(x >= -1, x <= 1, y >= -1, y <= 1)
                    else:
                        if c is None or c is NotImplemented or isinstance(c, (bool, np.bool_)):
                            raise TypeError('comparison produced %r' % (c,))
                        m.st(c)
                        m.st(x >= -1, x <= 1, y >= -1, y <= 1)
                        m.min(y)
                    m.do_math()
                    produced = True
            except Exception as e:
                raised = e
            ses.stats.obligations += 1
            ses.stats.kinds['T-accept/reject'] = ses.stats.kinds.get('T-accept/reject', 0) + 1
            if not convex_use and produced:
                data = dict(k='T', front=front, atom=atom, chain=chain, form=form)
                finding(ses, 'C10:T:%s:%s:%s' % (front, atom if atom in ('maxof', 'minof') else 'atom', form),
                        '%s: non-convex use (true coefficient %g, curvature %d) is accepted and compiled'
                        % (label, k, CURV[atom]), data, 'rsv.props.c10:replay')
                continue
            ses.stats.discharged += 1
            if convex_use and raised is not None and k != 0:
                ses.stats.kinds['T-convex-use-rejected'] = ses.stats.kinds.get('T-convex-use-rejected', 0) + 1
                if len(ses.stats.notes) < 25:
                    ses.stats.notes.append('%s: convex use rejected (%s: %s)' % (label, type(raised).__name__, str(raised)[:50]))
    ses.stats.nontrivial.add('T %s %s' % (front, atom))


def run_bilinear(case, ses):
    from rsome import ro, dro
    tests = []

    def t_ro():
        m = ro.Model()
        x, y = m.dvar(2), m.dvar(2)
        z, u = m.rvar(2), m.rvar(2)
        l = m.ldr(2)
        l.adapt(z)
        return [('dec*dec', lambda: x * y), ('dec@dec', lambda: x @ y), ('rand*rand', lambda: z * u),
                ('rand@rand', lambda: z @ u), ('ldr*rand', lambda: l * z), ('ldr@rand', lambda: l @ z),
                ('rand*ldr', lambda: z * l), ('(dec*rand)*rand', lambda: (x * z) * u), ('(dec*rand)*dec', lambda: (x * z) * y),
                ('dec*dec scalar', lambda: x[0] * y[1])]

    def t_dro():
        m = dro.Model(2)
        x, y = m.dvar(2), m.dvar(2)
        z, u = m.rvar(2), m.rvar(2)
        a = m.dvar(2)
        a.adapt(z)
        return [('dro dec*dec', lambda: x * y), ('dro rand*rand', lambda: z * u), ('dro adaptive*rand', lambda: a * z),
                ('dro adaptive@rand', lambda: a @ z), ('dro rand@adaptive', lambda: z @ a), ('dro rand*adaptive', lambda: z * a),
                ('dro dec@dec', lambda: x @ y)]
    def t_chains():
        # "also after any chain of scalar multiplications, negations and affine additions": the decision rule stays a
        # decision rule, its product with a random variable stays refused
        out = []
        forms = [('2*', lambda a, x: 2.0 * a), ('-', lambda a, x: -a), ('+1', lambda a, x: a + 1.0), ('*0.5 (right)', lambda a, x: a * 0.5),
                 ('+static', lambda a, x: a + x), ('static-', lambda a, x: x - a), ('2*(.+static)', lambda a, x: 2.0 * (a + x)),
                 ('-(2*.)+1', lambda a, x: -(2.0 * a) + 1.0), ('[::-1]', lambda a, x: a[::-1]),
                 ('3*.[0:2]', lambda a, x: 3.0 * a[0:2]), ('reshape', lambda a, x: (2.0 * a).reshape((2,)))]
        prods = [('*z', lambda e, z: e * z), ('z*', lambda e, z: z * e), ('@z', lambda e, z: e @ z), ('z@', lambda e, z: z @ e)]
        for front in ('ro', 'dro'):
            for fn_, ff in forms:
                for pn, pf in prods:
                    def mk(front=front, ff=ff, pf=pf):
                        if front == 'ro':
                            m = ro.Model()
                            x = m.dvar(2)
                            z = m.rvar(2)
                            a = m.ldr(2)
                            a.adapt(z)
                        else:
                            m = dro.Model(2)
                            x = m.dvar(2)
                            z = m.rvar(2)
                            a = m.dvar(2)
                            a.adapt(z)
                        e = ff(a, x)            # building the chain itself is legal ...
                        return lambda: pf(e, z)  # ... multiplying it by the random variable is not
                    out.append(('%s rule (%s) %s' % (front, fn_, pn), mk))
        return out

    def t_slices():
        # affine adaptation declared through SLICES of the decision (the documented idiom x[:2].adapt(z[:2])): the product of
        # an adaptive entry with a random variable must be refused as well - at the latest when the model is formulated
        from rsome import E

        def base():
            m = dro.Model(2)
            z = m.rvar(2)
            y = m.dvar(2)
            F = m.ambiguity()
            F.suppset(z >= 0, z <= 1)
            F.exptset(E(z) == 0.5)
            return m, z, y, F

        def finish(m, F, e):
            m.maxinf(E(e), F)
            m.do_math()

        def v1():
            m, z, y, F = base()
            y[0].adapt(z[0])
            finish(m, F, y[0] * z[0])

        def v2():
            m, z, y, F = base()
            y[0].adapt(z[0])
            finish(m, F, (y * z).sum())

        def v3():
            m, z, y, F = base()
            ys = y[0]
            y.adapt(z)
            finish(m, F, ys * z[0])

        def v4():
            m, z, y, F = base()
            e = 2.0 * y
            y.adapt(z)
            finish(m, F, e[0] * z[0])

        def v5():
            m, z, y, F = base()
            y.adapt(z)
            x = m.dvar()
            finish(m, F, (x + y[:][0]) * z[0])

        def v6():
            m, z, y, F = base()
            y[1:].adapt(z[1:])
            finish(m, F, (3.0 * y[1:] + 1.0)[0] * z[1])
        return [('dro slice-adapt y[0]*z[0]', v1), ('dro slice-adapt (y*z).sum()', v2), ('dro pre-created slice ys*z[0]', v3),
                ('dro expression built before adapt()', v4), ('dro slice of a slice (x + y[:][0])*z[0]', v5),
                ('dro slice-adapt scaled (3*y[1:]+1)[0]*z[1]', v6)]

    with quiet():
        tests = t_ro() + t_dro() + t_slices()
        for tag, mk in t_chains():
            try:
                tests.append((tag, mk()))
            except Exception as e:
                raise HarnessError('C10 bilinear: legal chain %s could not be built: %s' % (tag, e))
    for tag, fn in tests:
        ses.stats.obligations += 1
        ses.stats.kinds['bilinear-raises'] = ses.stats.kinds.get('bilinear-raises', 0) + 1
        try:
            with quiet():
                r = fn()
            ok = False
        except Exception:
            ok = True
        if ok:
            ses.stats.discharged += 1
        else:
            finding(ses, 'C10:bilinear:%s' % tag, 'bilinear product %s is accepted (returns %s)' % (tag, type(r).__name__),
                    dict(k='bilinear', tag=tag), 'rsv.props.c10:replay')
    ses.stats.nontrivial.add('bilinear-ro')
    ses.stats.nontrivial.add('bilinear-dro')


# ------------------------------------------------------------------ convex atoms combined with expectations (dro)
EX_ATOMS = ['abs', 'norm1', 'norminf', 'maxof']
EX_FORMS = ['atom(x) + E(y) <= t', 'E(y) + atom(x) <= t', '2*atom(x) + E(y) - t <= 0', 'atom(E(y)) <= t', 'minsup(atom(x) + E(y))',
            'atom(x) <= t - E(y)']


def ex_model(atom, form, reference):
    """Two scenarios with fixed probabilities (1/2, 1/2), y event-wise with y_s >= z on supports [0,1] and [2,3] (so
    y_0 >= 1, y_1 >= 3, E(y) >= 2), x in [2, 3]^2.  `reference` writes E(y) through a static variable e with E(y - e) == 0,
    which takes the expectation outside the convex expression; otherwise the form is written as it stands."""
    from rsome import dro, E
    import rsome as rso
    m = dro.Model(2)
    z = m.rvar()
    x = m.dvar(2)
    y = m.dvar()
    t = m.dvar()
    y.adapt(0)
    y.adapt(1)
    F = m.ambiguity()
    F[0].suppset(z >= 0, z <= 1)
    F[1].suppset(z >= 2, z <= 3)
    F.probset(m.p == 0.5)
    f = {'abs': lambda v: abs(v).sum() if False else abs(v[0] - 0.5 * v[1]), 'norm1': lambda v: rso.norm(v, 1),
         'norminf': lambda v: rso.norm(v, 'inf'), 'maxof': lambda v: rso.maxof(v[0], 2.0 * v[1] - 3.0, 1.0 - v[0])}[atom]
    if reference:
        e = m.dvar()
        m.st(E(y - e) == 0)
        Ey = e
    else:
        Ey = E(y)
    if form == 'minsup(atom(x) + E(y))':
        m.minsup(f(x) + Ey, F)
    else:
        m.minsup(t, F)
        if form == 'atom(x) + E(y) <= t':
            m.st(f(x) + Ey <= t)
        elif form == 'E(y) + atom(x) <= t':
            m.st(Ey + f(x) <= t)
        elif form == '2*atom(x) + E(y) - t <= 0':
            m.st(2.0 * f(x) + Ey - t <= 0)
        elif form == 'atom(x) <= t - E(y)':
            m.st(f(x) <= t - Ey)
        else:
            g = {'abs': lambda v: abs(v), 'norm1': lambda v: rso.norm(v + x, 1), 'norminf': lambda v: rso.norm(v - x, 'inf'),
                 'maxof': lambda v: rso.maxof(v, 4.0 - v)}[atom]
            m.st(g(Ey) <= t)
    m.st(y >= z, y <= 10, x >= 2, x <= 3, t >= -50, t <= 50)
    return m


def run_EX(case, ses):
    """An expectation inside or added to a convex atom: the dro front end compiles convex constraints scenario by scenario.
    Either the combination is refused when it is written / handed to the model, or the compiled program has the exact
    optimum of the same model written with the expectation taken outside (both programs compiled by RSOME, optima by z3)."""
    from ..cprog import CProg
    for atom in EX_ATOMS:
        for form in EX_FORMS:
            label = 'EX/%s/%s' % (atom, form)
            ses.stats.obligations += 1
            ses.stats.kinds['expectation-with-atom'] = ses.stats.kinds.get('expectation-with-atom', 0) + 1
            try:
                with quiet():
                    P = CProg(ex_model(atom, form, False).do_math())
            except Exception:
                ses.stats.kinds['expectation-with-atom-refused'] = ses.stats.kinds.get('expectation-with-atom-refused', 0) + 1
                ses.stats.discharged += 1
                continue
            with quiet():
                R = CProg(ex_model(atom, form, True).do_math())
            ses.stats.programs += 2
            vp, vr = P.z3vars('p'), R.z3vars('r')
            sp_, op_ = ses.optimum(P.constraints(vp), P.obj_term(vp), label=label)
            sr_, or_ = ses.optimum(R.constraints(vr), R.obj_term(vr), label=label + '/ref')
            if sr_ != 'optimal':
                raise HarnessError('C10 EX: reference model %s is %s' % (label, sr_))
            if 'unknown' in (sp_,):
                ses.stats.undecided += 1
            elif (sp_, op_) == (sr_, or_):
                ses.stats.discharged += 1
                ses.stats.nontrivial.add(label)
            else:
                finding(ses, 'C10:EX:%s:%s' % (atom, form), 'dro: %s with atom %s is accepted but its compiled program has optimum %s (%s); '
                        'with the expectation written outside the atom (E(y - e) == 0) the optimum is %s'
                        % (form, atom, op_, sp_, or_), dict(k='EX', atom=atom, form=form), 'rsv.props.c10:replay')


# ------------------------------------------------------------------ replay
def replay(data, verbose=False):
    k = data['k']
    if k == 'S':
        if 'point' not in data or 'm' not in data['point']:
            if verbose:
                print(data.get('what'))
            return True
        pt = {n: float(Fraction(v)) for n, v in data['point'].items()}
        fam, xt, sign0, op = data['fam'], data['xt'], data['sign0'], data['op']
        e = 2 if xt in E2 else 1
        with quiet():
            f = make_state(fam, xt, sign0, pt['m'], np.array(pt['o']))
        kpre = sign0 * pt['m'] ** e
        c, a = pt['c'], pt['a']
        try:
            r = {'neg': lambda: -f, 'mul': lambda: f * c, 'rmul': lambda: c * f, 'add': lambda: f + a, 'radd': lambda: a + f,
                 'sub': lambda: f - a, 'rsub': lambda: a - f, 'le': lambda: f <= a, 'ge': lambda: f >= a, 'rle': lambda: a <= f,
                 'rge': lambda: a >= f, 'eq': lambda: f == a}[op]()
            exc = None
        except Exception as ex:
            r, exc = None, ex
        if verbose:
            print('%s[%s] sign=%d mult=%g out=%g, %s with c=%g a=%g -> %s' % (
                fam, xt, sign0, pt['m'], pt['o'], op, c, a,
                ('raises %s' % type(exc).__name__) if exc else
                'sign=%s mult=%s out=%s' % (getattr(r, 'sign', '-'), getattr(r, 'multiplier', '-'), getattr(r, 'affine_out', '-'))))
        if op in ('neg', 'mul', 'rmul', 'add', 'radd', 'sub', 'rsub'):
            if exc is not None:
                return True
            k2 = float(r.sign) * float(r.multiplier) ** e
            o2 = float(np.array(r.affine_out, dtype=float).reshape(-1)[0])
            ek, eo = {'neg': (-kpre, -pt['o']), 'mul': (c * kpre, c * pt['o']), 'rmul': (c * kpre, c * pt['o']),
                      'add': (kpre, pt['o'] + a), 'radd': (kpre, pt['o'] + a), 'sub': (kpre, pt['o'] - a),
                      'rsub': (-kpre, a - pt['o'])}[op]
            return abs(k2 - ek) > 1e-9 * (1 + abs(ek)) or abs(o2 - eo) > 1e-9 * (1 + abs(eo))
        if op == 'eq':
            return exc is None
        kk = kpre if op in ('le', 'rge') else -kpre
        if exc is not None:
            return kk > 0
        return kk < 0 or abs(float(r.multiplier) ** e - kk) > 1e-9 * (1 + abs(kk))
    if k == 'T':
        from rsome import ro, dro
        import rsome as rso
        with quiet():
            m = ro.Model() if data['front'] == 'ro' else dro.Model(2)
            x = m.dvar(2)
            y = m.dvar()
            g, kk = apply_chain(t_atom(rso, data['atom'], x), data['chain'], y)
        try:
            with quiet():
                form = data['form']
                if form in ('min', 'max'):
                    (m.min if form == 'min' else m.max)(g)
                else:
                    c = {'le': lambda: g <= y, 'ge': lambda: g >= y, 'rle': lambda: y <= g, 'rge': lambda: y >= g,
                         'eq': lambda: g == y}[form]()
                    m.st(c)
                    m.min(y)
                m.st(x >= -1, x <= 1, y >= -1, y <= 1)
                m.do_math()
            if verbose:
                print('%s front end: %s with chain %s used as %s: ACCEPTED and compiled (true coefficient %g, curvature %d)'
                      % (data['front'], data['atom'], data['chain'], data['form'], kk, CURV[data['atom']]))
            return True
        except Exception as e:
            if verbose:
                print('raises', type(e).__name__, e)
            return False
    if verbose:
        print(data)
    return True
