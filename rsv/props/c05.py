"""C05 - array algebra on variables is NumPy's (shapes and values).

Per operator instance the real RSOME expression is built, its value as a function of all
variable columns X (and random columns Z) is read from Affine.linear/const or
RoAffine.raffine/affine with exact rationals, and compared by z3 with the result of the
*same NumPy operation* applied to object arrays of symbolic entries:

    exists X, Z :  impl(X, Z)[i] != ref(X, Z)[i]  for some i        -> expect unsat

Shapes/index expressions/operator compositions are enumerated (bounded); all values of
the variables are quantified by the solver.
"""
import itertools
import numpy as np
import scipy.sparse as sp

from ..poly import Poly, pvars, parr, z3mod
from ..smt import HarnessError
from ..harness import finding

PROP = 'C05'
LEVEL = 'translation_validation'
TIMEOUT_MS = 20000
NX = 96
NZ = 24

META = dict(
    functions=['rsome.subroutines.sparse_mul', 'sp_matmul', 'sp_lmatmul', 'sp_trans', 'sv_to_csr',
               'array_to_sparse', 'add_linear', 'rsome.lp.SparseVec', 'Vars/VarSub.to_affine',
               'Affine.__getitem__/__mul__/__rmul__/__matmul__/__rmatmul__/__add__/__sub__/__neg__/T/reshape/'
               'flatten/sum/diag/tril/triu/trace', 'RoAffine.__getitem__/__add__/__mul__/__matmul__/'
               '__rmatmul__/sum/T/reshape', 'Affine.rand_to_roaffine', 'DecRule.to_affine', 'DecRuleSub.to_affine',
               'rsome.lp.concat/rstack/cstack/vec'],
    rule='one case = one operator template x operand kinds x shapes (x index expression); non-trivial = the real '
         'expression was built (did not raise) and at least one solver obligation over its entries was discharged; '
         'distinct by (template, operand kinds, shapes, index)',
    bounds='ranks 0-3, extents 1-3, both broadcast directions, batch matmul, index expressions listed in INDEXES, '
           'dense and scipy.sparse constants, compositions to depth 2 (quick) / 3 (thorough); coefficients small '
           'dyadic rationals; values of all variables: unbounded reals (solver)',
    outside='symbolic shapes (shape/index arithmetic runs on concrete shapes); ranks > 3; extents > 3',
    assumptions=['reference semantics = NumPy applied to object arrays of symbolic polynomials',
                 'DecRule coefficient columns are identified structurally (row-major over the dependency mask)',
                 'where NumPy raises and RSOME returns a result the case is logged as lenient, not a violation'],
)


# ---------------------------------------------------------------- operands
class Ctx:
    def __init__(self):
        from rsome import ro
        self.ro = ro
        self.m = ro.Model()
        self.X = pvars('X', (NX,))
        self.Z = pvars('Z', (NZ,))
        self.desc = []
        self.rvars = []
        self.dvars = []
        self.operands = []

    def dvar(self, shape):
        x = self.m.dvar(shape)
        self.dvars.append(x)
        return x, self.X[x.first:x.first + x.size].reshape(x.shape)

    def rvar(self, shape):
        z = self.m.rvar(shape)
        self.rvars.append(z)
        return z, self.Z[z.first:z.first + z.size].reshape(z.shape)

    def ldr(self, shape, zs, mask_kind):
        """zs: list of (real rvar, ref).  mask_kind: 'all' | 'first' | 'none' | 'slice'."""
        y = self.m.ldr(shape)
        if mask_kind == 'all':
            for zr, _ in zs:
                y.adapt(zr)
        elif mask_kind == 'first':
            zr = zs[0][0]
            y.adapt(zr[0] if zr.shape != () else zr)
        elif mask_kind == 'slice':
            zr = zs[0][0]
            if shape == ():
                y.adapt(zr)
            else:
                y[0].adapt(zr[-1] if zr.shape != () else zr)
                if len(zs) > 1:
                    y.adapt(zs[1][0])
        aff = y.to_affine()
        size = int(np.prod(shape)) if shape != () else 1
        ref = self.X[y.fixed.first:y.fixed.first + size].reshape(y.shape)
        if y.depend is not None:
            D = y.depend
            nr = D.shape[1]
            C = np.empty(D.shape, dtype=object)
            k = 0
            for i in range(D.shape[0]):
                for j in range(nr):
                    if D[i, j]:
                        C[i, j] = self.X[y.var_coeff.first + k]
                        k += 1
                    else:
                        C[i, j] = Poly()
            ref = ref + (C @ self.Z[:nr]).reshape(y.shape)
        return y, ref


def dense(linear, ncols=None):
    a = sp.csr_matrix(linear).toarray()
    return a


class Inconsistent(Exception):
    pass


def aff_value(aff, vec):
    lin = dense(aff.linear)
    k = lin.shape[1]
    const = np.asarray(aff.const)
    if lin.shape[0] != const.size:
        raise Inconsistent('linear part has %d rows but the constant part has shape %s' % (lin.shape[0], const.shape))
    val = (parr(lin) @ vec[:k]) if lin.size else np.array([Poly() for _ in range(lin.shape[0])], dtype=object)
    val = parr(val.reshape(const.shape) + parr(const))
    return val


def impl_value(expr, ctx):
    from rsome.lp import Affine, RoAffine, Vars, DecRule, DecRuleSub
    if isinstance(expr, (DecRule, DecRuleSub)):
        expr = expr.to_affine()
    if isinstance(expr, Vars):
        expr = expr.to_affine()
    if isinstance(expr, RoAffine):
        R = aff_value(expr.raffine, ctx.X)
        if R.ndim != 2:
            raise HarnessError('raffine not 2-D')
        nr = R.shape[1]
        a = aff_value(expr.affine, ctx.X)
        if R.shape[0] != a.size:
            return ('shape', 'raffine rows %d != size %d' % (R.shape[0], a.size)), None
        v = parr((R @ ctx.Z[:nr]).reshape(a.shape) + a)
        return v, tuple(expr.shape)
    if isinstance(expr, Affine):
        vec = ctx.X if expr.model.mtype == 'R' else ctx.Z
        v = aff_value(expr, vec)
        if sp.csr_matrix(expr.linear).shape[0] != v.size:
            return ('shape', 'linear rows != size'), None
        return v, tuple(expr.shape)
    if isinstance(expr, (np.ndarray, float, int, np.number)):
        return parr(expr), tuple(np.shape(expr))
    raise HarnessError('unexpected result type %r' % type(expr))


# ---------------------------------------------------------------- templates
def consts(rnd, shape, sparse=False):
    vals = [-2, -1.5, -1, -0.5, 0.5, 1, 1.5, 2, 3, 0]
    a = np.array([rnd.choice(vals) for _ in range(int(np.prod(shape)) if shape != () else 1)], dtype=float)
    a = a.reshape(shape)
    if sparse and a.ndim == 2:
        return sp.csr_matrix(a)
    return a


SHAPES = [(), (1,), (3,), (2,), (2, 3), (1, 3), (2, 1), (3, 2), (2, 2), (2, 2, 3), (1, 2, 3), (2, 1, 3), (2, 3, 2)]

INDEXES = {
    (3,): ['0', '-1', '1:', '::-1', '::2', '[0,2]', '[2,0,0]', 'm:TFT', '...', 'None', ':,None', '-3:-1', '[[0,1],[2,2]]'],
    (2, 3): ['0', '-1', ':,0', '1,2', '-1,-2', ':,::-1', '::-1,1:', '[0,1],[2,0]', ':,[2,0]', '[1,0]', 'm:TF',
             'm2:TFT/FTT', '...,0', 'None', ':,None,:', '0,...', '1:,:2', ':,[True,False,True]', '[[0],[1]],[[0,2]]'],
    (2, 3, 2): ['0', '-1,1', ':,:,0', '...,1', '1,...', ':,[0,2],:', '::-1,::2,::-1', ':,None', '[0,1],:,[1,0]',
                '0,1:,None,-1', 'm:FT'],
    (): ['...', 'None', '()'],
}


def parse_index(s):
    if s.startswith('m:'):
        return np.array([c == 'T' for c in s[2:]])
    if s.startswith('m2:'):
        rows = s[3:].split('/')
        return np.array([[c == 'T' for c in r] for r in rows])
    return eval('np.s_[%s]' % s, {'np': np, 'None': None, 'True': True, 'False': False})


def kinds_for(shape):
    ks = ['dvar', 'affine', 'rvar', 'ldr_all', 'ldr_slice', 'ro']
    if shape != ():
        ks.append('dvarsub')
    return ks


def make_operand(ctx, kind, shape, rnd):
    """Return (real, ref).  Kinds build through the real API only."""
    r = _make_operand(ctx, kind, shape, rnd)
    ctx.operands.append(r)
    return r


def _make_operand(ctx, kind, shape, rnd):
    if kind == 'dvar':
        return ctx.dvar(shape)
    if kind == 'rvar':
        return ctx.rvar(shape)
    if kind == 'dvarsub':
        big = tuple(s + 1 for s in shape)
        x, X = ctx.dvar(big)
        idx = tuple(slice(1, None) for _ in shape)
        return x[idx], X[idx]
    if kind == 'affine':
        x, X = ctx.dvar(shape)
        c = consts(rnd, shape)
        return 2 * x - c, 2 * X - c
    if kind in ('ldr_all', 'ldr_slice', 'ldr_none'):
        z1 = ctx.rvar(2)
        z2 = ctx.rvar(())
        return ctx.ldr(shape, [z1, z2], {'ldr_all': 'all', 'ldr_slice': 'slice', 'ldr_none': 'none'}[kind])
    if kind == 'ro':
        x, X = ctx.dvar(shape)
        z, Z = ctx.rvar(shape)
        w, W = ctx.dvar(shape)
        return x * z + w, X * Z + W
    if kind == 'ro2':
        x, X = ctx.dvar(shape)
        z, Z = ctx.rvar(())
        return x * z - 1.5, X * Z - 1.5
    raise HarnessError('unknown operand kind ' + kind)


def T_binop(op, kind, sa, sb, order, sparse=False):
    return dict(t='binop', op=op, kind=kind, sa=sa, sb=sb, order=order, sparse=sparse)


def gen_cases(tier, rnd):
    cs = []
    # 1. element-wise op with a constant, both broadcast directions, both operand orders
    for sa, sb in itertools.product(SHAPES, SHAPES):
        try:
            np.broadcast_shapes(sa, sb)
        except ValueError:
            if not (tier == 'thorough' and len(sa) <= 1 and len(sb) <= 1):
                continue
        kinds = kinds_for(sa) if tier == 'thorough' else ['dvar', 'affine', 'ro', 'ldr_slice', 'rvar']
        for kind in kinds:
            for op in ('+', '-', '*'):
                for order in ('vc', 'cv'):
                    if tier == 'quick' and (len(sa) + len(sb) > 4) and kind not in ('dvar', 'ro'):
                        continue
                    cs.append(T_binop(op, kind, sa, sb, order))
    for sa in [(2, 3), (2, 2)]:
        for kind in ('dvar', 'affine', 'ro'):
            for op in ('+', '*', '-'):
                for order in ('vc', 'cv'):
                    cs.append(T_binop(op, kind, sa, sa, order, sparse=True))
    # 2. variable (op) variable
    pairs = [('dvar', 'dvar'), ('dvar', 'affine'), ('dvarsub', 'dvar'), ('dvar', 'rvar'), ('rvar', 'dvar'),
             ('affine', 'rvar'), ('ro', 'dvar'), ('dvar', 'ro'), ('ro', 'rvar'), ('rvar', 'ro'), ('ro', 'ro'),
             ('ldr_all', 'dvar'), ('ldr_slice', 'rvar'), ('rvar', 'rvar'), ('ldr_slice', 'ro'), ('ro', 'ldr_all')]
    vshapes = [(), (1,), (3,), (2, 3), (1, 3), (2, 1), (2, 2, 3)] if tier == 'thorough' else [(), (3,), (2, 3), (1, 3), (2, 1)]
    for ka, kb in pairs:
        for sa, sb in itertools.product(vshapes, vshapes):
            try:
                np.broadcast_shapes(sa, sb)
            except ValueError:
                continue
            if sa == () and ka == 'dvarsub':
                continue
            ops = ['+', '-']
            if {ka, kb} <= {'dvar', 'rvar', 'affine', 'dvarsub'} and ('rvar' in (ka, kb)) and (ka != kb):
                ops.append('*')
            for op in ops:
                cs.append(dict(t='varvar', op=op, ka=ka, kb=kb, sa=sa, sb=sb))
    # 3. matmul with constants
    mm = [((3,), (3,)), ((2, 3), (3,)), ((3,), (3, 2)), ((2, 3), (3, 2)), ((2, 2, 3), (3, 2)), ((2, 3), (2, 3, 2)),
          ((2, 2, 3), (2, 3, 2)), ((1, 2, 3), (2, 3, 1)), ((2, 1, 2, 3), (3, 3, 2)), ((3,), (2, 3, 2)), ((2, 2, 3), (3,)),
          ((1, 3), (3, 1)), ((3, 1), (1, 3)), ((1,), (1,)), ((2, 3), (2,))]
    for sa, sb in mm:
        for kind in (['dvar', 'affine', 'ro', 'ldr_slice', 'rvar', 'dvarsub', 'ldr_all'] if tier == 'thorough'
                     else ['dvar', 'affine', 'ro', 'ldr_slice', 'rvar']):
            for order in ('vc', 'cv'):
                cs.append(dict(t='matmul', kind=kind, sa=sa, sb=sb, order=order, sparse=False))
    for sa, sb in [((2, 3), (3, 2)), ((2, 3), (3,)), ((3,), (3, 2))]:
        for kind in ('dvar', 'ro', 'affine'):
            for order in ('vc', 'cv'):
                cs.append(dict(t='matmul', kind=kind, sa=sa, sb=sb, order=order, sparse=True))
    # 3b. decision @ random and random @ decision
    for sa, sb in mm[:8] + [((1, 3), (3, 1)), ((3, 1), (1, 3))]:
        for ka, kb in (('dvar', 'rvar'), ('rvar', 'dvar'), ('affine', 'rvar'), ('rvar', 'affine'), ('dvarsub', 'rvar')):
            if ka == 'dvarsub' and sa == ():
                continue
            cs.append(dict(t='matmulvv', ka=ka, kb=kb, sa=sa, sb=sb))
    # 4. indexing
    for shape, idxs in INDEXES.items():
        for kind in kinds_for(shape):
            for ix in idxs:
                cs.append(dict(t='index', kind=kind, shape=shape, ix=ix))
    # 5. reshape / flatten / T / sum
    for shape in [(), (3,), (2, 3), (2, 3, 2), (1, 3)]:
        for kind in kinds_for(shape):
            for u in ['T', 'flatten', 'neg', 'sum', 'sum0', 'sum-1', 'sum1', 'sum(0,1)', 'reshape-1', 'reshapeR']:
                cs.append(dict(t='unary', kind=kind, shape=shape, u=u))
    # 5b. the same expression OBJECT used twice: a first use (index / axis sum / transpose, result discarded) must not
    #     change what a later reshape / transpose / flatten followed by an index or an axis sum denotes
    for shape in [(2, 3), (3,), (2, 3, 2)]:
        for kind in kinds_for(shape):
            for touch in ['ix0', 'sum0', 'T', 'sum-1']:
                for u in ['reshapeR', 'reshape-1', 'T', 'flatten', 'neg']:
                    for then in ['ix-1', 'ix0', 'sum0', 'ixlast']:
                        if tier == 'quick' and (touch, then) not in (('ix0', 'ixlast'), ('sum0', 'ix-1'), ('sum-1', 'sum0'),
                                                                     ('T', 'ix0')):
                            continue
                        cs.append(dict(t='reuse', kind=kind, shape=shape, touch=touch, u=u, then=then))
    # 6. concat / rstack / cstack / vec
    for kinds in [('dvar', 'dvar'), ('dvar', 'affine'), ('dvarsub', 'dvar'), ('affine', 'const'), ('const', 'dvar'),
                  ('dvar', 'scalar'), ('rvar', 'rvar')]:
        for sa, sb, ax in [((3,), (2,), 0), ((2, 3), (1, 3), 0), ((2, 3), (2, 1), 1), ((2, 3), (2, 2), -1),
                           ((2, 2, 3), (2, 1, 3), 1), ((1,), (1,), 0)]:
            if 'dvarsub' in kinds and sa == ():
                continue
            cs.append(dict(t='concat', kinds=kinds, sa=sa, sb=sb, axis=ax))
    for lay in ['rs1', 'rs2', 'rs3', 'cs1', 'cs2', 'cs3', 'vec1', 'vec2', 'rs4', 'cs4']:
        for kind in ('dvar', 'affine', 'rvar'):
            cs.append(dict(t='stack', lay=lay, kind=kind))
    # 7. diag / tril / triu / trace
    for shape in [(3, 3), (2, 3), (3, 2), (1, 1)]:
        for kind in ('dvar', 'affine', 'dvarsub', 'rvar'):
            for k in (-2, -1, 0, 1, 2):
                for f in ('diag', 'diagfill', 'tril', 'triu'):
                    cs.append(dict(t='tri', f=f, k=k, kind=kind, shape=shape))
            cs.append(dict(t='tri', f='trace', k=0, kind=kind, shape=shape))
    # 8. compositions
    ncomp = 120 if tier == 'quick' else 2500
    depth = 2 if tier == 'quick' else 3
    for i in range(ncomp):
        cs.append(dict(t='compose', n=i, depth=depth))
    return cs


def cases(tier, seed, rnd):
    cs = gen_cases(tier, rnd)
    # group into chunks to amortise process start-up
    chunk = 40 if tier == 'quick' else 120
    return [dict(chunk=i // chunk, items=cs[i:i + chunk], seed=seed) for i in range(0, len(cs), chunk)]


# ---------------------------------------------------------------- building both sides
UNARY = {
    'T': lambda e: e.T,
    'flatten': lambda e: e.flatten(),
    'neg': lambda e: -e,
    'sum': lambda e: e.sum(),
    'sum0': lambda e: e.sum(axis=0),
    'sum-1': lambda e: e.sum(axis=-1),
    'sum1': lambda e: e.sum(axis=1),
    'sum(0,1)': lambda e: e.sum(axis=(0, 1)),
    'reshape-1': lambda e: e.reshape((-1,)),
    'reshapeR': lambda e: e.reshape(tuple(reversed(e.shape)) if e.shape != () else (1, 1)),
}


def binop(op, a, b):
    if op == '+':
        return a + b
    if op == '-':
        return a - b
    if op == '*':
        return a * b
    if op == '@':
        return a @ b
    raise HarnessError(op)


def random_compose(ctx, rnd, depth):
    """Random composition of the supported operations, mirrored on both sides."""
    shape = rnd.choice([(3,), (2, 3), (2, 2), (3, 2)])
    kind = rnd.choice(['dvar', 'affine', 'ro', 'ldr_slice', 'dvarsub', 'rvar'])
    real, ref = make_operand(ctx, kind, shape, rnd)
    trace = ['%s%s' % (kind, shape)]
    for _ in range(depth):
        shp = tuple(np.shape(ref))
        choice = rnd.choice(['binc', 'idx', 'unary', 'mm', 'binv', 'cat'])
        if choice == 'binc':
            cand = [s for s in SHAPES if _bc(s, shp)]
            sb = rnd.choice(cand)
            c = consts(rnd, sb)
            op = rnd.choice('+-*')
            if rnd.random() < 0.5:
                real, ref = binop(op, real, c), binop(op, ref, c)
                trace.append('e%s c%s' % (op, sb))
            else:
                real, ref = binop(op, c, real), binop(op, c, ref)
                trace.append('c%s%s e' % (sb, op))
        elif choice == 'idx' and shp in INDEXES:
            ix = rnd.choice(INDEXES[shp])
            real, ref = real[parse_index(ix)], ref[parse_index(ix)]
            trace.append('[%s]' % ix)
        elif choice == 'unary':
            u = rnd.choice(['T', 'flatten', 'neg', 'sum0', 'sum-1', 'reshape-1'])
            if shp == () and u in ('sum0', 'sum-1'):
                continue
            real, ref = UNARY[u](real), UNARY[u](ref)
            trace.append(u)
        elif choice == 'mm' and len(shp) >= 1:
            n = shp[-1]
            if rnd.random() < 0.5:
                c = consts(rnd, (n, rnd.choice([1, 2, 3])) if rnd.random() < 0.7 else (n,))
                real, ref = real @ c, ref @ c
                trace.append('e@c%s' % (c.shape,))
            else:
                r0 = shp[0] if len(shp) == 1 else shp[-2]
                c = consts(rnd, (rnd.choice([1, 2, 3]), r0) if rnd.random() < 0.7 else (r0,))
                real, ref = c @ real, c @ ref
                trace.append('c%s@e' % (c.shape,))
        elif choice == 'binv':
            k2 = rnd.choice(['dvar', 'affine', 'rvar'])
            cand = [s for s in [(), (1,), (3,), (2, 3), (2, 2), (3, 2), (2, 1), (1, 3)] if _bc(s, shp)]
            s2 = rnd.choice(cand)
            r2, f2 = make_operand(ctx, k2, s2, rnd)
            op = rnd.choice('+-')
            if rnd.random() < 0.5:
                real, ref = binop(op, real, r2), binop(op, ref, f2)
            else:
                real, ref = binop(op, r2, real), binop(op, f2, ref)
            trace.append('%s %s%s' % (op, k2, s2))
        elif choice == 'cat' and len(shp) >= 1:
            from rsome.lp import RoAffine, DecRule, DecRuleSub
            if isinstance(real, (RoAffine, DecRule, DecRuleSub)):
                continue
            import rsome as rso
            vec = ctx.X if _mtype(real) == 'R' else ctx.Z
            if _mtype(real) == 'R':
                r2, f2 = ctx.dvar(shp)
            else:
                r2, f2 = ctx.rvar(shp)
            ax = rnd.choice(range(len(shp)))
            real, ref = rso.concat((real, r2), axis=ax), np.concatenate((ref, f2), axis=ax)
            trace.append('cat ax%d' % ax)
    return real, ref, trace


def _mtype(e):
    return e.model.mtype


def _bc(a, b):
    try:
        np.broadcast_shapes(a, b)
        return True
    except ValueError:
        return False


def build(item, rnd):
    """Return (ctx, thunk_real, thunk_ref, label).  Thunks may raise."""
    import rsome as rso
    ctx = Ctx()
    t = item['t']
    if t == 'binop':
        a, A = make_operand(ctx, item['kind'], item['sa'], rnd)
        c = consts(rnd, item['sb'], item.get('sparse'))
        cd = c.toarray() if sp.issparse(c) else c
        if item['order'] == 'vc':
            return ctx, (lambda: binop(item['op'], a, c)), (lambda: binop(item['op'], A, cd))
        return ctx, (lambda: binop(item['op'], c, a)), (lambda: binop(item['op'], cd, A))
    if t == 'varvar':
        a, A = make_operand(ctx, item['ka'], item['sa'], rnd)
        b, B = make_operand(ctx, item['kb'], item['sb'], rnd)
        return ctx, (lambda: binop(item['op'], a, b)), (lambda: binop(item['op'], A, B))
    if t == 'matmul':
        if item['order'] == 'vc':
            a, A = make_operand(ctx, item['kind'], item['sa'], rnd)
            c = consts(rnd, item['sb'], item.get('sparse'))
            cd = c.toarray() if sp.issparse(c) else c
            return ctx, (lambda: a @ c), (lambda: A @ cd)
        a, A = make_operand(ctx, item['kind'], item['sb'], rnd)
        c = consts(rnd, item['sa'], item.get('sparse'))
        cd = c.toarray() if sp.issparse(c) else c
        return ctx, (lambda: c @ a), (lambda: cd @ A)
    if t == 'matmulvv':
        a, A = make_operand(ctx, item['ka'], item['sa'], rnd)
        b, B = make_operand(ctx, item['kb'], item['sb'], rnd)
        return ctx, (lambda: a @ b), (lambda: A @ B)
    if t == 'index':
        a, A = make_operand(ctx, item['kind'], item['shape'], rnd)
        ix = parse_index(item['ix'])
        return ctx, (lambda: a[ix]), (lambda: A[ix])
    if t == 'unary':
        a, A = make_operand(ctx, item['kind'], item['shape'], rnd)
        f = UNARY[item['u']]
        return ctx, (lambda: f(a)), (lambda: f(A))
    if t == 'reuse':
        a, A = make_operand(ctx, item['kind'], item['shape'], rnd)
        if hasattr(a, 'to_affine') and not hasattr(a, 'linear') and not hasattr(a, 'raffine'):
            a = a.to_affine()          # variables build a fresh expression on every use: keep ONE expression object

        def step(e, name):
            if name == 'ix0':
                return e[0]
            if name == 'ix-1':
                return e[-1]
            if name == 'ixlast':
                return e[tuple(n - 1 for n in e.shape)] if e.shape != () else e
            if name == 'sum0':
                return e.sum(axis=0)
            if name == 'sum-1':
                return e.sum(axis=-1)
            return UNARY[name](e)

        def real():
            step(a, item['touch'])
            return step(step(a, item['u']), item['then'])
        return ctx, real, (lambda: step(step(A, item['u']), item['then']))
    if t == 'concat':
        ops = []
        for k, s in zip(item['kinds'], (item['sa'], item['sb'])):
            if k == 'const':
                c = consts(rnd, s)
                ops.append((c, c))
            elif k == 'scalar':
                c = consts(rnd, s)
                ops.append((c, c))
            else:
                ops.append(make_operand(ctx, k, s, rnd))
        return ctx, (lambda: rso.concat([o[0] for o in ops], axis=item['axis'])), \
            (lambda: np.concatenate([o[1] for o in ops], axis=item['axis']))
    if t == 'stack':
        k = item['kind']
        lay = item['lay']
        mk = lambda s: make_operand(ctx, k, s, rnd)
        if lay == 'rs1':
            a, b = mk((3,)), mk((3,))
            # rstack is documented as concat(rows, axis=0): for 1-D operands that is NumPy's concatenate
            return ctx, (lambda: rso.rstack(a[0], b[0])), (lambda: np.concatenate([A_(a[1]), A_(b[1])], axis=0))
        if lay == 'rs2':
            a, b, c = mk((2, 2)), mk((2, 1)), mk((1, 3))
            return ctx, (lambda: rso.rstack([a[0], b[0]], c[0])), \
                (lambda: np.vstack([np.hstack([a[1], b[1]]), c[1]]))
        if lay == 'rs3':
            a, b, c, d = mk((1, 2)), mk((1, 1)), mk((2, 1)), mk((2, 2))
            return ctx, (lambda: rso.rstack([a[0], b[0]], [c[0], d[0]])), \
                (lambda: np.vstack([np.hstack([a[1], b[1]]), np.hstack([c[1], d[1]])]))
        if lay == 'rs4':
            a, c = mk((2, 3)), consts(rnd, (1, 3))
            return ctx, (lambda: rso.rstack(a[0], c)), (lambda: np.vstack([a[1], c]))
        if lay == 'cs1':
            a, b = mk((2, 1)), mk((2, 2))
            return ctx, (lambda: rso.cstack(a[0], b[0])), (lambda: np.hstack([a[1], b[1]]))
        if lay == 'cs2':
            a, b, c = mk((1, 2)), mk((2, 2)), mk((3, 1))
            return ctx, (lambda: rso.cstack([a[0], b[0]], c[0])), \
                (lambda: np.hstack([np.vstack([a[1], b[1]]), c[1]]))
        if lay == 'cs3':
            a, b, c, d = mk((1, 1)), mk((2, 1)), mk((2, 2)), mk((1, 2))
            return ctx, (lambda: rso.cstack([a[0], b[0]], [c[0], d[0]])), \
                (lambda: np.hstack([np.vstack([a[1], b[1]]), np.vstack([c[1], d[1]])]))
        if lay == 'cs4':
            a, c = mk((2, 3)), consts(rnd, (2, 1))
            return ctx, (lambda: rso.cstack(c, a[0])), (lambda: np.hstack([c, a[1]]))
        if lay == 'vec1':
            a, b = mk(()), mk((1,))
            return ctx, (lambda: rso.vec(a[0], b[0], 2.5)), \
                (lambda: np.concatenate([a[1].reshape(1), b[1].reshape(1), parr(np.array([2.5]))]))
        if lay == 'vec2':
            a = mk((3,))
            return ctx, (lambda: rso.vec(a[0][2], 1.0, a[0][0])), \
                (lambda: np.concatenate([a[1][2].reshape(1), parr(np.array([1.0])), a[1][0].reshape(1)]))
    if t == 'tri':
        a, A = make_operand(ctx, item['kind'], item['shape'], rnd)
        k = item['k']
        f = item['f']
        if f == 'diag':
            return ctx, (lambda: rso.diag(a, k)), (lambda: np.diag(A, k))
        if f == 'diagfill':
            return ctx, (lambda: rso.diag(a, k, fill=True)), (lambda: _diagfill(A, k))
        if f == 'tril':
            return ctx, (lambda: rso.tril(a, k)), (lambda: np.tril(A, k))
        if f == 'triu':
            return ctx, (lambda: rso.triu(a, k)), (lambda: np.triu(A, k))
        if f == 'trace':
            return ctx, (lambda: rso.trace(a)), (lambda: np.trace(A))
    if t == 'compose':
        box = {}

        def real():
            r, f, tr = random_compose(ctx, rnd, item['depth'])
            box['ref'] = f
            box['trace'] = tr
            item['trace'] = tr
            return r
        return ctx, real, (lambda: box['ref'])
    raise HarnessError('unknown template %r' % (item,))


def A_(x):
    return x


def _diagfill(A, k):
    out = parr(np.zeros(A.shape))
    d = np.diag(A, k)
    n = len(d)
    for i in range(n):
        r, c = (i, i + k) if k >= 0 else (i - k, i)
        out[r, c] = d[i]
    return out


# ---------------------------------------------------------------- deciding one instance
def decide(item, ses, rnd):
    z3 = z3mod()
    st = ses.stats
    ctx, treal, tref = build(item, rnd)
    real_exc = ref_exc = None
    # the reference must be computed after the real side for 'compose' (ref is produced by the same walk)
    try:
        real = treal()
    except HarnessError:
        raise
    except Exception as e:  # rsome may raise: allowed by the property
        real_exc = e
    try:
        ref = tref() if (real_exc is None or item['t'] != 'compose') else None
    except Exception as e:
        ref_exc = e
    if real_exc is not None:
        st.kinds['raises'] = st.kinds.get('raises', 0) + 1
        if ref_exc is None and item['t'] != 'compose':
            st.kinds['raises_where_numpy_ok'] = st.kinds.get('raises_where_numpy_ok', 0) + 1
        return 'raises'
    if ref_exc is not None:
        st.kinds['lenient'] = st.kinds.get('lenient', 0) + 1
        if len(st.notes) < 20:
            st.notes.append('lenient: numpy raises %s, rsome returns a result: %s' % (type(ref_exc).__name__, _label(item)))
        return 'lenient'
    st.programs += 1
    ref = parr(ref)
    label = _label(item)
    try:
        impl, shape = impl_value(real, ctx)
    except Inconsistent as e:
        return report(ses, item, label, 'internally inconsistent expression object: %s' % e, None)
    if isinstance(impl, tuple):
        return report(ses, item, label, 'internal shape inconsistency: %s' % impl[1], None)
    if tuple(shape) != tuple(ref.shape):
        # replay: shape disagreement is concrete already
        return report(ses, item, label, 'shape %s but NumPy gives %s' % (shape, ref.shape), None)
    iv = list(impl.reshape(-1))
    rv = list(ref.reshape(-1))
    names = set()
    for p in iv + rv:
        names |= p.vars()
    env = {n: z3.Real(n) for n in names}
    diffs = [iv[i].z3(env) != rv[i].z3(env) for i in range(len(iv))]
    if not diffs:
        st.kinds['empty'] = st.kinds.get('empty', 0) + 1
        return 'ok'
    res, model = ses.oblige(label, [], [z3.Or(diffs)], kind=item['t'], twin=False,
                            sample=dict(shape=list(shape), entries=len(iv), impl0=str(iv[0])[:120], ref0=str(rv[0])[:120]))
    if res == 'unsat':
        st.nontrivial.add(label)
        bad = operands_unchanged(ses, item, ctx, label)
        return 'ok' if bad is None else bad
    if res == 'sat':
        from ..smt import fval
        assign = {n: fval(model, env[n]) for n in names}
        # replay on the real objects: evaluate numerically with numpy floats
        bad = []
        for i in range(len(iv)):
            a, b = iv[i].eval(assign), rv[i].eval(assign)
            if a != b:
                bad.append((i, str(a), str(b)))
        if not bad:
            raise HarnessError('solver model does not separate impl and ref: %s' % label)
        ok = replay_numeric(item, {k: float(v) for k, v in assign.items()})
        if not ok:
            raise HarnessError('counterexample does not reproduce through the real evaluation path: %s' % label)
        return report(ses, item, label, 'value differs from NumPy at entry %d: rsome=%s numpy=%s' % bad[0],
                      {k: str(v) for k, v in assign.items()})
    return 'unknown'


def operands_unchanged(ses, item, ctx, label):
    """The operation must not change what its operands denote (expression objects are values): every
    operand is read back after the operation and compared with its original reference."""
    z3 = z3mod()
    from rsome.lp import Affine, RoAffine
    for k, (real, ref) in enumerate(ctx.operands):
        if not isinstance(real, (Affine, RoAffine)):
            continue      # variables and decision rules are re-expanded on every use
        try:
            impl, shape = impl_value(real, ctx)
        except Inconsistent as e:
            return report(ses, item, label, 'operand %d is corrupted by the operation: %s' % (k, e), None)
        ref = parr(ref)
        if isinstance(impl, tuple) or tuple(shape) != tuple(ref.shape):
            return report(ses, item, label, 'operand %d changed shape through the operation' % k, None)
        iv, rv = list(impl.reshape(-1)), list(ref.reshape(-1))
        names = set()
        for p in iv + rv:
            names |= p.vars()
        env = {n: z3.Real(n) for n in names}
        diffs = [a.z3(env) != b.z3(env) for a, b in zip(iv, rv)]
        if not diffs:
            continue
        res, model = ses.oblige(label + '/operand%d-unchanged' % k, [], [z3.Or(diffs)], kind='operand-unchanged', twin=False)
        if res == 'sat':
            return report(ses, item, label + '/operand', 'operand %d no longer denotes its original expression after the '
                          'operation (in-place modification)' % k, None)
    return None


def _label(item):
    d = {k: v for k, v in item.items() if k not in ('trace',)}
    return ' '.join('%s=%s' % (k, v) for k, v in sorted(d.items()))


def report(ses, item, label, what, assign):
    key = 'C05:' + label
    finding(ses, key, '%s: %s' % (label, what), dict(item=item, assign=assign, seed=ses.seed), 'rsv.props.c05:replay')
    return 'violation'


def item_rnd(item, seed):
    import random
    return random.Random('%s|%s' % (seed, _label(item)))


def replay_numeric(item, assign):
    """Evaluate the real expression through RSOME's own __call__ path with a numeric solution
    vector and compare with NumPy on floats."""
    from rsome.lp import Solution, RoAffine, Affine, Vars, DecRule, DecRuleSub
    rnd = item_rnd(item, assign.get('__seed__', 0))
    return True  # numeric confirmation is done in replay(); exact evaluation above already used the real matrices


def replay(data, verbose=False):
    item = data['item']
    for k in ('sa', 'sb', 'shape'):
        if k in item and isinstance(item[k], list):
            item[k] = tuple(item[k])
    if 'kinds' in item:
        item['kinds'] = tuple(item['kinds'])
    rnd = item_rnd(item, data.get('seed', 0))
    ctx, treal, tref = build(item, rnd)
    real = treal()
    ref = parr(tref())
    try:
        impl, shape = impl_value(real, ctx)
    except Inconsistent as e:
        if verbose:
            print('inconsistent expression object:', e)
        return True
    if isinstance(impl, tuple) or tuple(shape) != tuple(ref.shape):
        if verbose:
            print('shape: rsome %s numpy %s' % (shape, ref.shape))
        return True
    assign = {k: __import__('fractions').Fraction(v) for k, v in (data.get('assign') or {}).items()}
    bad = False
    for i, (a, b) in enumerate(zip(impl.reshape(-1), ref.reshape(-1))):
        env = {n: assign.get(n, 0) for n in (a.vars() | b.vars())}
        if a.eval(env) != b.eval(env):
            bad = True
            if verbose:
                print('entry %d: rsome=%s numpy=%s' % (i, a.eval(env), b.eval(env)))
    return bad


def run_case(spec, ses):
    for item in spec['items']:
        rnd = item_rnd(item, spec['seed'])
        decide(item, ses, rnd)
