"""C03 - DRO solutions are safe for every distribution in the ambiguity set.

The real dro.Model.do_math() output P is read with exact rationals; the event-wise decisions are
identified through the real DecVar.get() (sentinel solution).  With Lemma J (vertex spreading) a
distribution is a weight vector on (scenario, support vertex) pairs and the ambiguity set a
polytope W whose vertices are enumerated exactly.  z3 decides for ALL compiled-feasible points
    exists v: P(v) /\\ [ some vertex distribution makes an E-row / the expected objective exceed its bound
                       or some scenario and support vertex violates a plain row ]      -> unsat
Layer B: for the vector returned by the real solve(): exists w in W (LRA over the weights, no vertex
enumeration of W): expected objective worse than get() + tol  -> unsat.
"""
from fractions import Fraction
import numpy as np

from ..poly import z3mod, Poly
from ..dromodels import CompiledDRO, dro_viol, dro_hold, dro_row_terms, piece_polys
from ..drogen import members, lookup
from ..smt import HarnessError, fval
from ..harness import finding
from ..util import quiet

PROP = 'C03'
LEVEL = 'translation_validation'
TIMEOUT_MS = 60000

META = dict(
    functions=['rsome.dro.Model.do_math/rule_var/ro_to_roc/dro_to_roc', 'rsome.dro.Ambiguity.mix_support/suppset/exptset/probset',
               'rsome.lp.Scen.suppset/exptset', 'rsome.lp.RoConstr.le_to_rc', 'rsome.lp.DecVar.get (interface read-back)',
               'rsome.lp.ExpPiecewiseConvex', 'rsome.lp.DecAffine/DecRoAffine comparisons'],
    rule='one case = one dro model of the family; per semantic row (plain row, E-row, expected objective) one inclusion '
         'obligation over all compiled-feasible points; non-trivial = compiled program feasible and every row decided; '
         'distinct by member name',
    bounds='1-3 scenarios (integer / string labels), event-wise static and affinely adaptive decisions, supports: boxes, '
           'singletons, lifted |z| <= u sets; expectation sets on all scenarios and on sub-events (boxes/equalities); '
           'probability sets: fixed, lower bounds, box, 1-norm ball; objectives minsup/maxinf with affine, bi-affine, '
           'E(maxof)/E(minof); E-constraints and plain robust constraints; per-constraint ambiguity sets; weight polytopes '
           'with <= 64 vertices',
    outside='KL / entropy probability sets and exp-cone supports (dual exponential cone); norm-2 supports or expectation '
            'sets; integrands that are not convex piecewise-affine in z',
    assumptions=['Lemma J (vertex spreading / Jensen) for convex piecewise-affine integrands over polytope supports',
                 'Lemma V as in C01', 'interface columns through the real DecVar.get() with a sentinel solution'],
)


def cases(tier, seed, rnd):
    n = 12 if tier == 'quick' else 400
    return [dict(name=n_) for n_ in members()] + [dict(name='rand%d' % rnd.randint(0, 10 ** 6)) for _ in range(n)]


def run_case(case, ses):
    z3 = z3mod()
    name = case['name']
    desc = lookup(name)
    try:
        with quiet():
            cm = CompiledDRO(desc)
    except HarnessError:
        raise
    except Exception as e:
        if name.startswith('rand'):
            # a seeded random member that rsome itself rejects (raises while formulating) carries no information
            ses.stats.kinds['member-rejected-by-rsome'] = ses.stats.kinds.get('member-rejected-by-rsome', 0) + 1
            if len(ses.stats.notes) < 10:
                ses.stats.notes.append('%s: rsome raised %s: %s' % (name, type(e).__name__, str(e)[:80]))
            return
        raise
    ses.stats.programs += 1
    cp = cm.cp
    vs = cp.z3vars()
    P = cp.constraints(vs)
    r0, _ = ses.solve(P, label=name + '/feasible')
    if r0 != 'sat':
        raise HarnessError('dro family member %s: compiled program infeasible (%s)' % (name, r0))
    blocks = cp.blocks(cm.iface.values())
    cache = {}
    ok = True
    rows = cm.rows()
    for row in rows:
        label = '%s/%s' % (name, row['label'])
        env = cm.env(vs)
        vt = dro_viol(cm, row, env, z3, cache)
        kind = 'dro-' + row['kind']
        sample = dict(model=name, row=row['label'], row_kind=row['kind'], terms=len(vt),
                      weight_vertices=(len(cache[row['F']][2]) if row['F'] in cache else None))
        res, model = ses.oblige(label, P + env.defs, [z3.Or(vt)], kind=kind, sample=sample)
        if res == 'sat':
            ok = False
            vstar = [float(fval(model, v)) for v in vs]
            data = dict(name=name, row=row['label'], v=vstar)
            good, info = replay(data, want_info=True)
            if not good:
                raise HarnessError('C03 counterexample does not reproduce: %s (%s)' % (label, info))
            finding(ses, 'C03:%s:%s' % (name, row['label']),
                    'dro model %s row %s: a compiled-feasible point is unsafe: %s' % (name, row['label'], info.get('what')),
                    data, 'rsv.props.c03:replay')
        elif res != 'unsat':
            ok = False
    if ok:
        ses.stats.nontrivial.add(name)
    layer_b(ses, name, cm, rows, cache)


def layer_b(ses, name, cm, rows, cache):
    """The point returned by the real solve(): is there a distribution in W (weights symbolic) that
    makes a row fail by more than tol?"""
    z3 = z3mod()
    with quiet():
        try:
            cm.r.m.solve(display=False)
            val = cm.r.m.get()
        except Exception as e:
            ses.stats.notes.append('%s: solve failed: %s' % (name, str(e)[:80]))
            return
    x = np.array(cm.r.m.solution.x, dtype=float)
    assign = {n: Fraction(float(x[c])) for n, c in cm.iface.items()}
    o = cm.o
    for row in rows:
        if row['kind'] != 'E':
            continue
        F = row['F']
        if F not in cache:
            cache[F] = cm.weights(F)
        names, sv, wverts, (ineq, eq) = cache[F]
        W = {nm: z3.Real(nm) for nm in names}
        wc = []
        for coef, rhs in ineq:
            wc.append(z3.Sum([W[n] * z3.RealVal(str(c)) for n, c in coef.items()] or [z3.RealVal(0)]) <= z3.RealVal(str(rhs)))
        for coef, rhs in eq:
            wc.append(z3.Sum([W[n] * z3.RealVal(str(c)) for n, c in coef.items()] or [z3.RealVal(0)]) == z3.RealVal(str(rhs)))
        groups, sense = piece_polys(row['cons'])
        for g in groups:
            terms = []
            for s in range(o.ns):
                inst = [cm.inst(p, s).subs(assign) for p in g]
                for k, v in enumerate(sv[s]):
                    vals = [q.subs(v).constant() for q in inst]
                    terms.append(W['w%d_%d' % (s, k)] * z3.RealVal(str(max(vals))))
            tot = z3.Sum(terms)
            tol = z3.RealVal(str(Fraction(1, 10 ** 5) * (1 + abs(Fraction(float(val))))))
            res, model = ses.oblige('%s/%s@solver' % (name, row['label']), wc, [tot > tol], kind='solver-point-distribution',
                                    core=False, twin=True)
            if res == 'sat':
                w = {n: float(fval(model, W[n])) for n in names}
                data = dict(name=name, row=row['label'], v=[float(t) for t in x])
                good, info = replay(data, want_info=True)
                if good:
                    finding(ses, 'C03:%s:%s' % (name, row['label']),
                            'dro model %s: the solution returned by solve() is unsafe under the distribution %s' % (name, w),
                            data, 'rsv.props.c03:replay')
                else:
                    raise HarnessError('C03 solver-point counterexample does not reproduce: %s' % name)


def replay(data, verbose=False, want_info=False):
    """The point is accepted by the real compiled program (exact check) and, with the decisions read
    from it, an explicit distribution of the ambiguity set (a vertex of W) or a scenario/realisation
    violates the row (evaluated with exact rationals from the oracle and listed)."""
    name = data['name']
    with quiet():
        cm = CompiledDRO(lookup(name))
    v = data['v']
    info = {}
    bad = cm.cp.check_point(v, tol=Fraction(1, 10 ** 7))
    if bad:
        info['what'] = 'point rejected by the real program: %s' % bad[:2]
        if verbose:
            print(info['what'])
        return (False, info) if want_info else False
    assign = {n: Fraction(float(v[c])) for n, c in cm.iface.items()}
    row = [r for r in cm.rows() if r['label'] == data['row']][0]
    o = cm.o
    groups, sense = piece_polys(row['cons'])
    worst, wdesc = None, None
    if row['kind'] == 'plain':
        for g in groups:
            for s in range(o.ns):
                inst = [cm.inst(p, s).subs(assign) for p in g]
                pts = cm.supports[(row['F'], s)].vertices() if row['F'] is not None else [{}]
                for vert in pts:
                    for q in inst:
                        val = q.subs(vert)
                        val = val.constant() if val.degree() == 0 else None
                        if val is None:
                            continue
                        val = abs(val) if sense == 'eq' else val
                        if worst is None or val > worst:
                            worst, wdesc = val, 'scenario %d, z=%s' % (s, {k: float(t) for k, t in vert.items()})
    else:
        names, sv, wverts, _ = cm.weights(row['F'])
        for g in groups:
            for w in wverts:
                tot = Fraction(0)
                for s in range(o.ns):
                    inst = [cm.inst(p, s).subs(assign) for p in g]
                    for k, vert in enumerate(sv[s]):
                        vals = [q.subs(vert).constant() for q in inst]
                        tot += w['w%d_%d' % (s, k)] * max(vals)
                if worst is None or tot > worst:
                    worst = tot
                    wdesc = 'distribution %s on support vertices %s' % (
                        {k: float(t) for k, t in w.items() if t != 0},
                        {s: [{k: float(t) for k, t in vv.items()} for vv in sv[s]] for s in sv})
    info['what'] = 'row value %.6g > 0 at %s' % (float(worst), wdesc)
    if verbose:
        print('dro model %s row %s: compiled program accepts the point; %s' % (name, data['row'], info['what']))
    ok = worst is not None and worst > Fraction(1, 10 ** 6)
    return (ok, info) if want_info else ok
