"""C03 - DRO solutions are safe for every distribution in the ambiguity set.

The real dro.Model.do_math() output P is read with exact rationals; the event-wise decisions are
identified through the real DecVar.get() (sentinel solution).  With Lemma J (vertex spreading) a
distribution is a weight vector on (scenario, support vertex) pairs and the ambiguity set a
polytope W whose vertices are enumerated exactly.  z3 decides for ALL compiled-feasible points
    exists v: P(v) /\\ [ some vertex distribution makes an E-row / the expected objective exceed its bound
                       or some scenario and support vertex violates a plain row ]      -> unsat
Layer B: for the vector returned by the real solve(): exists w in W (LRA over the weights, no vertex
enumeration of W): expected objective worse than get() + tol  -> unsat.
"""
from fractions import Fraction
import numpy as np

from ..poly import z3mod, Poly
from ..dromodels import CompiledDRO, dro_viol, dro_hold, dro_row_terms, piece_polys
from ..drogen import members, kl_members, soc_members, lookup, MAY_RAISE
from .. import dromoments as dm
from ..smt import HarnessError, fval
from ..harness import finding
from ..util import quiet

PROP = 'C03'
LEVEL = 'translation_validation'
TIMEOUT_MS = 60000

META = dict(
    functions=['rsome.dro.Model.do_math/rule_var/ro_to_roc/dro_to_roc', 'rsome.dro.Ambiguity.mix_support/suppset/exptset/probset',
               'rsome.lp.Scen.suppset/exptset', 'rsome.lp.RoConstr.le_to_rc', 'rsome.lp.DecVar.get (interface read-back)',
               'rsome.lp.ExpPiecewiseConvex', 'rsome.lp.DecAffine/DecRoAffine comparisons'],
    rule='one case = one dro model of the family; per semantic row (plain row, E-row, expected objective) one inclusion '
         'obligation over all compiled-feasible points; non-trivial = compiled program feasible and every row decided; '
         'distinct by member name',
    bounds='1-3 scenarios (integer / string labels), event-wise static and affinely adaptive decisions, supports: boxes, '
           'singletons, lifted |z| <= u sets; expectation sets on all scenarios and on sub-events (boxes/equalities); '
           'probability sets: fixed, lower bounds, box, 1-norm ball, KL-divergence balls and entropy level sets (cone-pairing '
           'relaxation + reformulation-linearisation, weights symbolic); objectives minsup/maxinf with affine, bi-affine, '
           'E(maxof)/E(minof); E-constraints and plain robust constraints; per-constraint ambiguity sets; weight polytopes '
           'with <= 64 vertices',
    outside='exp-cone supports; exactness under KL / entropy sets (C04); norm-2 supports or expectation sets; integrands that are not convex piecewise-affine in z',
    assumptions=['Lemma J (vertex spreading / Jensen) for convex piecewise-affine integrands over polytope supports',
                 'Lemma V as in C01', 'pairing inequality of the exponential cone (DESIGN.md 3.10)', 'interface columns through the real DecVar.get() with a sentinel solution'],
)


def cases(tier, seed, rnd):
    n = 12 if tier == 'quick' else 400
    return [dict(name=n_) for n_ in members()] + [dict(name=n_) for n_ in kl_members()] + [dict(name=n_) for n_ in soc_members(tier)] + \
        [dict(name='rand%d' % rnd.randint(0, 10 ** 6)) for _ in range(n)] + \
        [dict(name='randkl%d' % rnd.randint(0, 10 ** 6)) for _ in range(6 if tier == 'quick' else 120)] + \
        [dict(name='randsoc%d' % rnd.randint(0, 10 ** 6)) for _ in range(10 if tier == 'quick' else 150)]


def run_case(case, ses):
    z3 = z3mod()
    name = case['name']
    desc = lookup(name)
    try:
        with quiet():
            cm = CompiledDRO(desc)
    except HarnessError:
        raise
    except Exception as e:
        if name.startswith('rand') or name in MAY_RAISE:   # incl. randkl / randsoc
            # a seeded random member that rsome itself rejects (raises while formulating) carries no information
            ses.stats.kinds['member-rejected-by-rsome'] = ses.stats.kinds.get('member-rejected-by-rsome', 0) + 1
            if len(ses.stats.notes) < 10:
                ses.stats.notes.append('%s: rsome raised %s: %s' % (name, type(e).__name__, str(e)[:80]))
            return
        raise
    ses.stats.programs += 1
    cp = cm.cp
    vs = cp.z3vars()
    P = cp.constraints(vs)
    r0, _ = ses.solve(P, label=name + '/feasible')
    if r0 != 'sat':
        if name.startswith('randsoc'):
            # a seeded random conic member may be infeasible (or its feasibility undecided: QF_NRA): no information, skipped
            ses.stats.kinds['skipped-infeasible-member'] = ses.stats.kinds.get('skipped-infeasible-member', 0) + 1
            return
        raise HarnessError('dro family member %s: compiled program infeasible (%s)' % (name, r0))
    blocks = cp.blocks(cm.iface.values())
    cache = {}
    ok = True
    rows = cm.rows()
    for row in rows:
        label = '%s/%s' % (name, row['label'])
        if row['F'] is not None and row['kind'] in ('E', 'plain') and dm.is_conic(cm, row['F']):
            if not conic_row(ses, name, cm, blocks, row, label):
                ok = False
            continue
        if row['kind'] == 'E' and row['F'] is not None and cm.exp_prob(row['F']):
            if not exp_row(ses, name, cm, blocks, row, label):
                ok = False
            continue
        env = cm.env(vs)
        vt = dro_viol(cm, row, env, z3, cache)
        kind = 'dro-' + row['kind']
        sample = dict(model=name, row=row['label'], row_kind=row['kind'], terms=len(vt),
                      weight_vertices=(len(cache[row['F']][2]) if row['F'] in cache else None))
        res, model = ses.oblige(label, P + env.defs, [z3.Or(vt)], kind=kind, sample=sample)
        if res == 'sat':
            ok = False
            vstar = [float(fval(model, v)) for v in vs]
            data = dict(name=name, row=row['label'], v=vstar)
            good, info = replay(data, want_info=True)
            if not good:
                raise HarnessError('C03 counterexample does not reproduce: %s (%s)' % (label, info))
            finding(ses, 'C03:%s:%s' % (name, row['label']),
                    'dro model %s row %s: a compiled-feasible point is unsafe: %s' % (name, row['label'], info.get('what')),
                    data, 'rsv.props.c03:replay')
        elif res != 'unsat':
            ok = False
    if ok:
        ses.stats.nontrivial.add(name)
    layer_b(ses, name, cm, rows, cache)


def row_values(cm, row, assign=None):
    """Per group of the row: dict weight name -> list of piece polynomials (the integrand at that scenario and support
    vertex), over interface names (or numbers when `assign` is given)."""
    o = cm.o
    names, sv, G, H, T, aux = cm._wp(row['F'])
    groups, sense = piece_polys(row['cons'])
    out = []
    for g in groups:
        val = {}
        for s in range(o.ns):
            inst = [cm.inst(p, s) for p in g]
            for k, v in enumerate(sv[s]):
                qs = [q.subs(v) for q in inst]
                if assign is not None:
                    qs = [q.subs(assign).constant() for q in qs]
                val['w%d_%d' % (s, k)] = qs
        out.append(val)
    return out, sense


def exp_row(ses, name, cm, blocks, row, label):
    """Expectation row under a probability set with exponential-cone atoms (KL divergence, entropy).

    Adversary system (2): weights w[s,k] on (scenario, support vertex) - Lemma J - split per piece of a piecewise
    integrand, the probability set with p_s = sum_k w[s,k] (cone memberships weakened to consequences), expectation
    sets.  Compiled block (1).  Coupling: pairing inequalities and  sum_w w * integrand(x) > 0.  Decided by
    reformulation-linearisation (QF_LRA); see tv.rlt_refute."""
    from ..tv import rlt_block
    from ..poly import Poly
    names, sv, G, H, T, aux = cm._wp(row['F'])
    ren = {n: Poly.var('v%d' % j) for n, j in cm.iface.items()}
    vals, sense = row_values(cm, row)
    ok = True
    for gi, val in enumerate(vals):
        G2, H2, vars2 = list(G), list(H), list(names) + list(aux)
        tot = Poly()
        for wn, qs in val.items():
            if len(qs) == 1:
                tot = tot + Poly.var(wn) * qs[0].subs(ren)
            else:
                parts = []
                for j, q in enumerate(qs):
                    nm = '%s_p%d' % (wn, j)
                    parts.append(nm)
                    G2.append(Poly.var(nm))
                    tot = tot + Poly.var(nm) * q.subs(ren)
                H2.append(Poly.var(wn) - sum((Poly.var(n) for n in parts), Poly()))
                vars2 += parts
        viol = [tot] if sense == 'le' else [tot, -tot]
        done = False
        for blk in blocks:
            if not blk.get('xcones'):
                continue
            r = rlt_block(ses, cm.cp, blk, G2, H2, T, vars2, viol, '%s.g%d' % (label, gi), 'dro-E-expset',
                          sample=dict(model=name, row=row['label'], weights=len(names)),
                          timeout_ms=(30000 if ses.tier == 'quick' else 120000))
            if r == 'unsat':
                done = True
                break
        if not done:
            ok = False
            data = numeric_kl_cex(name, cm, row)
            ses.stats.obligations += 1
            ses.stats.kinds['dro-E-expset'] = ses.stats.kinds.get('dro-E-expset', 0) + 1
            if data is not None:
                good, info = replay(data, want_info=True)
                if good:
                    finding(ses, 'C03:%s:%s' % (name, row['label']),
                            'dro model %s row %s: a compiled-feasible point is unsafe: %s' % (name, row['label'], info.get('what')),
                            data, 'rsv.props.c03:replay')
                    continue
            ses.stats.undecided += 1
            ses.stats.notes.append('undecided: %s.g%d (exp-cone probability set; linearised system satisfiable)' % (label, gi))
    return ok


def conic_row(ses, name, cm, blocks, row, label):
    """Rows of models whose supports / expectation sets carry second-order-cone constraints (balls, ellipsoids,
    second-moment liftings square(z) <= u): the adversary in MOMENT form (rsv.dromoments, Lemma M), coupled with the compiled
    block by Cauchy-Schwarz pairings, decided by reformulation-linearisation (QF_LRA; only `unsat` is used).  When the
    linearised system is satisfiable a REAL counterexample is searched (real solver points, numerically worst moments turned
    into an explicit discrete distribution that is checked against the true set); only what replays is reported."""
    from ..tv import rlt_block, whole
    o = cm.o
    F = row['F']
    ren = {n: Poly.var('v%d' % j) for n, j in cm.iface.items()}
    groups, sense = piece_polys(row['cons'])
    kind = 'dro-%s-conic' % row['kind']
    ok = True
    tmo = 15000 if ses.tier == 'quick' else 120000
    for gi, g in enumerate(groups):
        systems = []
        if row['kind'] == 'E':
            sysm = dm.moment_system(cm, F, len(g))
            tot = dm.bilinear_value(cm, g, sysm, len(g), ren=ren)
            systems.append(('', sysm, [tot] if sense == 'le' else [tot, -tot]))
        else:
            for s in range(o.ns):
                ss = dm.scenario_system(cm, F, s)
                viol = []
                for pz in g:
                    t = dm.hom(cm.inst(pz, s).subs(ren), Poly.const(1), ss['msub'])
                    viol += [t] if sense == 'le' else [t, -t]
                systems.append(('.s%d' % s, ss, viol))
        for tag, sysm, viol in systems:
            lab = '%s.g%d%s' % (label, gi, tag)
            done = False
            cands = [b for b in blocks if b['cones'] or b.get('xcones')] + [b for b in blocks if not (b['cones'] or b.get('xcones'))]
            if len(blocks) > 1:
                cands.append(whole(cm.cp))
            for blk in cands:
                r = rlt_block(ses, cm.cp, blk, sysm['G'], sysm['H'], sysm.get('T', []), sysm['vars'], viol, lab, kind,
                              sample=dict(model=name, row=row['label'], moment_vars=len(sysm['vars']), cones=len(sysm['Q'])),
                              timeout_ms=tmo, Q2=sysm['Q'], full_pairing=True)
                if r == 'unsat':
                    done = True
                    break
            if done:
                continue
            ok = False
            ses.stats.obligations += 1
            ses.stats.kinds[kind] = ses.stats.kinds.get(kind, 0) + 1
            data = numeric_conic_cex(name, cm, row)
            if data is not None:
                good, info = replay(data, want_info=True)
                if good:
                    finding(ses, 'C03:%s:%s' % (name, row['label']),
                            'dro model %s row %s: a compiled-feasible point is unsafe: %s' % (name, row['label'], info.get('what')),
                            data, 'rsv.props.c03:replay')
                    return False
            ses.stats.undecided += 1
            ses.stats.notes.append('undecided: %s (conic support; linearised system satisfiable, no real counterexample)' % lab)
    return ok


def conic_worst(cm, row, assign):
    """Numerically worst explicit distribution (E rows) or realisation (plain rows) of the TRUE conic set for the decisions
    `assign`: (value, atoms) with atoms = [scenario, z, mass]."""
    o = cm.o
    F = row['F']
    groups, sense = piece_polys(row['cons'])
    best = None
    for g in groups:
        for sgn in ((1, -1) if sense == 'eq' else (1,)):
            gg = [q * sgn for q in g]
            if row['kind'] == 'E':
                w = dm.worst_moments(cm, F, gg, assign, len(gg))
                if w is None:
                    continue
                atoms = dm.distribution_from_moments(cm, F, w[1], len(gg))
                cand = [atoms]
            else:
                cand = []
                for s in range(o.ns):
                    for pz in gg:
                        z = worst_realisation(cm, F, s, cm.inst(pz, s).subs(assign))
                        if z is not None:
                            cand.append([[s, z, 1.0]])
            for atoms in cand:
                # pull the atoms slightly towards a point well inside, until the distribution is in the true set
                for shrink in (0.0, 1e-7, 1e-5, 1e-3):
                    at = [[s, {k: v * (1 - shrink) + shrink * centre(cm, F, s)[k] for k, v in z.items()}, w_] for s, z, w_ in atoms]
                    if row['kind'] == 'plain':
                        from ..oracle import cons_eval
                        inside = all(cons_eval(c, at[0][1]) <= 1e-9 for c in o.amb[F]['supp'][at[0][0]])
                    else:
                        inside = dm.in_true_set(cm, F, at, 1e-9)[0]
                    if inside:
                        val = dm.expectation_under(cm, gg, at, assign)
                        if best is None or val > best[0]:
                            best = (val, at)
                        break
    return best


_centres = {}


def centre(cm, F, s):
    """A point of the support of scenario s (numeric, Chebyshev-like: minimise the largest constraint value)."""
    key = (id(cm), F, s)
    if key not in _centres:
        from scipy.optimize import minimize
        from ..oracle import cons_eval
        zn = list(cm.o.znames)
        cons = cm.o.amb[F]['supp'][s]
        r = minimize(lambda x: max([cons_eval(c, dict(zip(zn, x))) for c in cons] + [-1e3]), np.zeros(len(zn)), method='Nelder-Mead',
                     options=dict(maxiter=2000, xatol=1e-9, fatol=1e-9))
        _centres[key] = dict(zip(zn, [float(t) for t in r.x]))
    return _centres[key]


def worst_realisation(cm, F, s, poly):
    from scipy.optimize import minimize
    from ..oracle import cons_eval
    zn = list(cm.o.znames)
    cons = [dict(type='ineq', fun=(lambda x, c=c: -cons_eval(c, dict(zip(zn, x))))) for c in cm.o.amb[F]['supp'][s]]
    c0 = centre(cm, F, s)
    x0 = np.array([c0[n] for n in zn])
    try:
        r = minimize(lambda x: -float(poly.evalf(dict(zip(zn, x)))), x0, constraints=cons, method='SLSQP', options=dict(maxiter=300))
    except Exception:  # noqa
        return None
    return dict(zip(zn, [float(t) for t in r.x]))


def solver_points(cm, tries=8, seed=5):
    """Real solutions of the real compiled program for several linear objectives over the interface columns."""
    import random
    from rsome.gcp import GCProg
    from rsome import eco_solver
    f = cm.formula
    rnd = random.Random(seed)
    cols = sorted(set(cm.iface.values()))
    for k in range(tries):
        obj = np.array(f.obj, dtype=float).reshape(-1).copy()
        if k:
            for c in cols:
                obj[c] = rnd.choice([-1, 1, 0.5, -0.5, 0, 2, -2])
        g = GCProg(f.linear, f.const, f.sense, f.vtype, f.ub, f.lb, f.qmat, f.xmat, [], obj)
        with quiet():
            try:
                sol = eco_solver.solve(g, display=False)
            except Exception:  # noqa
                continue
        if sol is None or sol.x is None:
            continue
        yield [float(t) for t in sol.x]


def numeric_conic_cex(name, cm, row):
    for v in solver_points(cm):
        data = dict(name=name, row=row['label'], v=v, tol='1/1000000', conic=True, margin='1/10000')
        if replay(data):
            return data
    return None


def numeric_kl_cex(name, cm, row, tries=10):
    """Real solver points of the real compiled program (several objectives) with the numerically worst distribution of
    the TRUE set: a candidate counterexample for replay."""
    import random
    from rsome.gcp import GCProg
    from rsome import eco_solver
    f = cm.formula
    rnd = random.Random(5)
    cols = sorted(set(cm.iface.values()))
    for k in range(tries):
        obj = np.array(f.obj, dtype=float).reshape(-1).copy()
        if k:
            for c in cols:
                obj[c] = rnd.choice([-1, 1, 0.5, -0.5, 0, 2, -2])
        g = GCProg(f.linear, f.const, f.sense, f.vtype, f.ub, f.lb, f.qmat, f.xmat, [], obj)
        with quiet():
            try:
                sol = eco_solver.solve(g, display=False)
            except Exception:
                continue
        if sol is None or sol.x is None:
            continue
        data = dict(name=name, row=row['label'], v=[float(t) for t in sol.x], tol='1/1000000')
        if replay(data):
            return data
    return None


def layer_b(ses, name, cm, rows, cache):
    """The point returned by the real solve(): is there a distribution in W (weights symbolic) that
    makes a row fail by more than tol?"""
    z3 = z3mod()
    with quiet():
        try:
            if cm.cp.xmat or cm.cp.qmat:
                from rsome import eco_solver
                cm.r.m.solve(eco_solver, display=False)
            else:
                cm.r.m.solve(display=False)
            val = cm.r.m.get()
        except Exception as e:
            ses.stats.notes.append('%s: solve failed: %s' % (name, str(e)[:80]))
            return
    x = np.array(cm.r.m.solution.x, dtype=float)
    assign = {n: Fraction(float(x[c])) for n, c in cm.iface.items()}
    o = cm.o
    for row in rows:
        if row['kind'] != 'E':
            continue
        F = row['F']
        if F is not None and dm.is_conic(cm, F):
            data = dict(name=name, row=row['label'], v=[float(t) for t in x], tol='1/100000', conic=True)
            good, info = replay(data, want_info=True, margin=Fraction(1, 10 ** 4) * (1 + abs(Fraction(float(val)))))
            ses.stats.obligations += 1
            ses.stats.kinds['solver-point-numeric'] = ses.stats.kinds.get('solver-point-numeric', 0) + 1
            if good:
                finding(ses, 'C03:%s:%s' % (name, row['label']),
                        'dro model %s: the solution returned by solve() is unsafe: %s' % (name, info.get('what')),
                        data, 'rsv.props.c03:replay')
            else:
                ses.stats.discharged += 1
            continue
        if cm.exp_prob(F):
            # exp is uninterpreted in the encodings: the solver's point is examined numerically (worst distribution of
            # the true set by maximisation); only a reproduced violation is reported
            data = dict(name=name, row=row['label'], v=[float(t) for t in x], tol='1/100000')
            good, info = replay(data, want_info=True, margin=Fraction(1, 10 ** 5) * (1 + abs(Fraction(float(val)))))
            ses.stats.obligations += 1
            ses.stats.kinds['solver-point-numeric'] = ses.stats.kinds.get('solver-point-numeric', 0) + 1
            if good:
                finding(ses, 'C03:%s:%s' % (name, row['label']),
                        'dro model %s: the solution returned by solve() is unsafe: %s' % (name, info.get('what')),
                        data, 'rsv.props.c03:replay')
            else:
                ses.stats.discharged += 1
            continue
        if F not in cache:
            cache[F] = cm.weights(F)
        names, sv, wverts, (ineq, eq) = cache[F]
        W = {nm: z3.Real(nm) for nm in names}
        wc = []
        for coef, rhs in ineq:
            wc.append(z3.Sum([W[n] * z3.RealVal(str(c)) for n, c in coef.items()] or [z3.RealVal(0)]) <= z3.RealVal(str(rhs)))
        for coef, rhs in eq:
            wc.append(z3.Sum([W[n] * z3.RealVal(str(c)) for n, c in coef.items()] or [z3.RealVal(0)]) == z3.RealVal(str(rhs)))
        groups, sense = piece_polys(row['cons'])
        for g in groups:
            terms = []
            for s in range(o.ns):
                inst = [cm.inst(p, s).subs(assign) for p in g]
                for k, v in enumerate(sv[s]):
                    vals = [q.subs(v).constant() for q in inst]
                    terms.append(W['w%d_%d' % (s, k)] * z3.RealVal(str(max(vals))))
            tot = z3.Sum(terms)
            tol = z3.RealVal(str(Fraction(1, 10 ** 5) * (1 + abs(Fraction(float(val))))))
            res, model = ses.oblige('%s/%s@solver' % (name, row['label']), wc, [tot > tol], kind='solver-point-distribution',
                                    core=False, twin=True)
            if res == 'sat':
                w = {n: float(fval(model, W[n])) for n in names}
                data = dict(name=name, row=row['label'], v=[float(t) for t in x])
                good, info = replay(data, want_info=True)
                if good:
                    finding(ses, 'C03:%s:%s' % (name, row['label']),
                            'dro model %s: the solution returned by solve() is unsafe under the distribution %s' % (name, w),
                            data, 'rsv.props.c03:replay')
                else:
                    raise HarnessError('C03 solver-point counterexample does not reproduce: %s' % name)


def replay(data, verbose=False, want_info=False, margin=None):
    """The point is accepted by the real compiled program (exact check) and, with the decisions read
    from it, an explicit distribution of the ambiguity set (a vertex of W) or a scenario/realisation
    violates the row (evaluated with exact rationals from the oracle and listed)."""
    name = data['name']
    with quiet():
        cm = CompiledDRO(lookup(name))
    v = data['v']
    info = {}
    bad = cm.cp.check_point(v, tol=(Fraction(data['tol']) if data.get('tol') else Fraction(1, 10 ** 7)))
    if bad:
        info['what'] = 'point rejected by the real program: %s' % bad[:2]
        if verbose:
            print(info['what'])
        return (False, info) if want_info else False
    assign = {n: Fraction(float(v[c])) for n, c in cm.iface.items()}
    row = [r for r in cm.rows() if r['label'] == data['row']][0]
    o = cm.o
    groups, sense = piece_polys(row['cons'])
    worst, wdesc = None, None
    if row['F'] is not None and dm.is_conic(cm, row['F']):
        best = conic_worst(cm, row, assign)
        if best is not None:
            worst = Fraction(best[0])
            wdesc = 'explicit distribution of the true set (scenario, realisation, mass): %s' % (
                [(s, {k: round(t, 6) for k, t in z.items()}, round(w_, 6)) for s, z, w_ in best[1]],)
    elif row['kind'] == 'plain':
        for g in groups:
            for s in range(o.ns):
                inst = [cm.inst(p, s).subs(assign) for p in g]
                pts = cm.supports[(row['F'], s)].vertices() if row['F'] is not None else [{}]
                for vert in pts:
                    for q in inst:
                        val = q.subs(vert)
                        val = val.constant() if val.degree() == 0 else None
                        if val is None:
                            continue
                        val = abs(val) if sense == 'eq' else val
                        if worst is None or val > worst:
                            worst, wdesc = val, 'scenario %d, z=%s' % (s, {k: float(t) for k, t in vert.items()})
    elif cm.exp_prob(row['F']):
        fa = {n: float(t) for n, t in assign.items()}
        vals, _ = row_values(cm, row, assign)
        for val in vals:
            num = {wn: float(max(qs)) for wn, qs in val.items()}
            for sgn in ((1, -1) if sense == 'eq' else (1,)):
                best = cm.worst_distribution(row['F'], {k: sgn * t for k, t in num.items()})
                if best is not None and (worst is None or best[0] > worst):
                    worst = Fraction(best[0])
                    wdesc = 'distribution %s (weights on scenario/support-vertex pairs; in the set: %s)' % (
                        {k: round(t, 6) for k, t in best[1].items() if t > 1e-9}, cm.prob_contains(row['F'], best[1]))
    else:
        names, sv, wverts, _ = cm.weights(row['F'])
        for g in groups:
            for w in wverts:
                tot = Fraction(0)
                for s in range(o.ns):
                    inst = [cm.inst(p, s).subs(assign) for p in g]
                    for k, vert in enumerate(sv[s]):
                        vals = [q.subs(vert).constant() for q in inst]
                        tot += w['w%d_%d' % (s, k)] * max(vals)
                if sense == 'eq':
                    tot = abs(tot)
                if worst is None or tot > worst:
                    worst = tot
                    wdesc = 'distribution %s on support vertices %s' % (
                        {k: float(t) for k, t in w.items() if t != 0},
                        {s: [{k: float(t) for k, t in vv.items()} for vv in sv[s]] for s in sv})
    if worst is None:
        info['what'] = 'no candidate distribution / realisation found'
        return (False, info) if want_info else False
    info['what'] = 'row value %.6g > 0 at %s' % (float(worst), wdesc)
    if verbose:
        print('dro model %s row %s: compiled program accepts the point; %s' % (name, data['row'], info['what']))
    margin = Fraction(data['margin']) if data.get('margin') else (margin or Fraction(1, 10 ** 6))
    ok = worst is not None and worst > margin
    return (ok, info) if want_info else ok
