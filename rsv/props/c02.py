"""C02 - the robust counterpart is exact.

(a) projection, per block k of the compiled program (blocks share interface columns only, so
    proj(P) = AND_k proj(Block_k)):
        exists iface: S(iface) /\\ forall locals_k: not Block_k(iface, locals_k)      -> unsat
    where S is the semi-infinite semantics with the adversary eliminated (vertices / support
    function).  Together with C01 (P subset S) this is equality of the feasible sets in the user's
    variables with exactly the declared LDR dependencies, hence equal optima for every objective.
(b) exact optimum of P (z3 Optimize over the real compiled rows) == exact optimum of the oracle's
    finite program  min t s.t. S   (polyhedral sets), and both equal what solve() reports.
(c) SOC-type sets: no point of S is better than the reported optimum by more than delta (QF_NRA).
"""
from fractions import Fraction
import numpy as np

from ..poly import z3mod
from ..tv import Compiled, hold_terms, project_block
from ..rogen import core_specs, random_spec, random_pw_spec, desc_from_spec
from ..smt import HarnessError, fval
from ..harness import finding
from ..util import quiet

PROP = 'C02'
LEVEL = 'translation_validation'
TIMEOUT_MS = 60000

META = dict(
    functions=['rsome.ro.Model.do_math', 'rsome.lp.RoConstr.le_to_rc', 'rsome.lp.Model.do_math(primal=False)',
               'rsome.socp.Model.do_math(primal=False)', 'rsome.lp.DecRule.adapt/to_affine', 'rsome.ro.Model.solve/get'],
    rule='one case = one ro model (same family as C01); per compiled block one exists-forall projection '
         'obligation; per model the exact-optimum equalities; non-trivial = model feasible and bounded and at least '
         'one projection obligation with >= 1 local column discharged',
    bounds='as C01; exists-forall obligations only for blocks without cone membership (polyhedral sets); '
           'blocks with > 40 local columns are stretch; SOC-type sets: optimum sandwich with delta = 1e-5(1+|v|)',
    outside='set equality for SOC-type uncertainty sets (only the optimum for the declared objective is decided); '
            'KL/exp-cone sets',
    assumptions=['uncertainty sets of the family are non-empty and bounded (checked by z3 on the H-representation)',
                 'Lemma V / Lemma S as in C01', 'strong duality holds for the family (Slater) - what the property assumes'],
)


def cases(tier, seed, rnd):
    specs = core_specs()
    n = 16 if tier == 'quick' else 400
    specs += [random_spec(rnd, i) for i in range(n)]
    specs += [random_pw_spec(seed, i) for i in range(6 if tier == 'quick' else 100)]
    return [dict(spec=s) for s in specs]


def semantic(cm, vs):
    """S(iface): conjunction over all semantic rows; returns (terms, defs)."""
    z3 = z3mod()
    env = cm.env(vs)
    terms = []
    for row in cm.rows():
        terms += hold_terms(row, env, z3)
    return terms, env.defs


def run_case(case, ses):
    spec = case['spec']
    z3 = z3mod()
    cm = Compiled(desc_from_spec(spec))
    ses.stats.programs += 1
    cp = cm.cp
    vs = cp.z3vars()
    P = cp.constraints(vs)
    rows = cm.rows()
    kinds = {r['uset'].kind for r in rows if r['uset'] is not None}
    polyonly = kinds <= {'poly'} and not cp.qmat
    for r in rows:
        if r['uset'] is not None and r['uset'].kind == 'poly':
            if not r['uset'].bounded_z3(ses):
                raise HarnessError('family member with unbounded set: %s' % spec['name'])
    S, Sdefs = semantic(cm, vs)
    name = spec['name']
    if name.startswith('rand'):
        r0, _ = ses.solve(P, label=name + '/feasible')
        if r0 != 'sat':
            ses.stats.kinds['skipped-infeasible-member'] = ses.stats.kinds.get('skipped-infeasible-member', 0) + 1
            return
    iface_cols = sorted(set(cm.iface.values()))
    tolmode = bool(spec.get('tol'))

    # ---- real solver value
    with quiet():
        try:
            if cp.qmat:
                from rsome import eco_solver as solver
                cm.r.m.solve(solver, display=False)
            else:
                cm.r.m.solve(display=False)
            reported = cm.r.m.get()
        except Exception as e:
            reported = None
            ses.stats.notes.append('%s: solve/get failed: %s' % (name, e))
    sign = cm.o.obj[0]

    if cp.qmat:
        head_signs(ses, spec, cm, cp, vs, reported)

    if polyonly and not tolmode:
        # ---- (b) exact optima
        sp, vp = ses.optimum(P, vs[0], label=name + '/optP', ints=cp.int_vars(vs))
        so, vo = ses.optimum(S + Sdefs, vs[0], label=name + '/optS', ints=cp.int_vars(vs))
        ses.stats.obligations += 1
        ses.stats.kinds['exact-optimum'] = ses.stats.kinds.get('exact-optimum', 0) + 1
        if sp == 'unknown' or so == 'unknown':
            ses.stats.undecided += 1
            ses.stats.core_undecided += 1
            ses.stats.notes.append('optimum undecided: %s (%s/%s)' % (name, sp, so))
        elif (sp, vp) != (so, vo):
            data = dict(spec=spec, optP=str(vp), optS=str(vo), sp=sp, so=so)
            if replay(data):
                finding(ses, 'C02:%s:optimum' % name,
                        'model %s: exact optimum of the compiled program is %s (%s) but the semi-infinite problem has '
                        '%s (%s)' % (name, vp, sp, vo, so), data, 'rsv.props.c02:replay')
            else:
                raise HarnessError('optimum mismatch does not reproduce: %s' % name)
        else:
            ses.stats.discharged += 1
            if sp == 'optimal':
                ses.stats.nontrivial.add(name)
            if len(ses.stats.samples) < 6:
                ses.stats.samples.append(dict(model=name, exact_optimum=str(vp), status=sp, reported=reported))
        if sp == 'optimal' and reported is not None:
            ses.stats.obligations += 1
            ses.stats.kinds['reported-vs-exact'] = ses.stats.kinds.get('reported-vs-exact', 0) + 1
            if abs(float(vp) * sign - reported) > 1e-5 * (1 + abs(float(vp))):
                data = dict(spec=spec, optP=str(vp), optS=str(vo), reported=reported, sp=sp, so=so)
                finding(ses, 'C02:%s:reported' % name, 'model %s: solve() reports %r, exact optimum is %s'
                        % (name, reported, vp * sign), data, 'rsv.props.c02:replay')
            else:
                ses.stats.discharged += 1

        # ---- (a) projection per block
        blocks = cp.blocks(iface_cols)
        for bi, blk in enumerate(blocks):
            loc = sorted(blk['locals'])
            label = '%s/block%d(%dr,%dl)' % (name, bi, len(blk['rows']), len(loc))
            core = len(loc) <= 40
            res, model = project_block(ses, cp, blk, vs, S + Sdefs, label, 'projection' if loc else 'projection-qf',
                                       core, twin=(bi == 0), timeout_ms=60000,
                                       sample=dict(model=name, rows=len(blk['rows']), locals=len(loc)))
            if res == 'sat':
                pt = {n: fval(model, vs[c]) for n, c in cm.iface.items()}
                data = dict(spec=spec, point={k: str(v) for k, v in pt.items()}, block_rows=blk['rows'])
                if replay(data):
                    finding(ses, 'C02:%s:block%d' % (name, bi),
                            'model %s: a point satisfying every robust constraint for all z is cut off by the compiled '
                            'program (rows %s)' % (name, blk['rows'][:6]), data, 'rsv.props.c02:replay')
                else:
                    raise HarnessError('projection counterexample does not reproduce: %s' % label)
        # bounds on interface columns
        bc = cp.bound_cons(vs, iface_cols)
        if bc:
            rb, mb = ses.oblige(name + '/iface-bounds', S + Sdefs, [z3.Not(z3.And(bc))], kind='projection-qf', twin=False)
            if rb == 'sat':
                pt = {n: fval(mb, vs[c]) for n, c in cm.iface.items()}
                data = dict(spec=spec, point={k: str(v) for k, v in pt.items()})
                if replay(data):
                    finding(ses, 'C02:%s:iface-bounds' % name, 'model %s: a point satisfying every robust constraint for all z violates '
                            'the bounds the compiled program puts on the user\'s columns' % name, data, 'rsv.props.c02:replay')
                else:
                    raise HarnessError('interface-bounds counterexample does not reproduce: %s' % name)
    else:
        # ---- (c) optimum sandwich around the value reported by the real solver
        if reported is None:
            ses.stats.notes.append('%s: no reported value; skipped' % name)
            return
        t = vs[0]
        val = Fraction(reported * sign)
        delta = Fraction(1, 10 ** 5) * (1 + abs(val))
        box = []
        for n, c in cm.iface.items():
            box += [vs[c] <= 64, vs[c] >= -64]
        sres, spt = scenario_sandwich(ses, name, cm, vs, rows, box, t <= z3.RealVal(str(val - delta)), reported, S + Sdefs)
        if sres == 'unsat':
            ses.stats.nontrivial.add(name)
            return
        if sres == 'sat':
            data = dict(spec=spec, point={k: str(v) for k, v in spt.items()}, reported=reported)
            if replay(data):
                finding(ses, 'C02:%s:conservative' % name,
                        'model %s: a robustly feasible point (exact semantic check by z3) has objective %s, better than the '
                        'reported optimum %r, and is cut off by the compiled program' % (name, spt.get('t'), reported),
                        data, 'rsv.props.c02:replay')
                return
            ses.stats.notes.append('%s: better semantic point found by the scenario loop is accepted by the compiled program '
                                   '(solver inaccuracy rather than conservatism)' % name)
        res, model = ses.oblige(name + '/no-better-semantic-point', S + Sdefs + box,
                                [t <= z3.RealVal(str(val - delta))], kind='optimum-sandwich', core=False, twin=True,
                                timeout_ms=30000, sample=dict(model=name, reported=reported))
        if res == 'sat':
            pt = {n: fval(model, vs[c]) for n, c in cm.iface.items()}
            data = dict(spec=spec, point={k: str(v) for k, v in pt.items()}, reported=reported)
            if replay(data):
                finding(ses, 'C02:%s:conservative' % name,
                        'model %s: a robustly feasible point has objective %s, better than the reported optimum %r'
                        % (name, pt.get('t'), reported), data, 'rsv.props.c02:replay')
            else:
                raise HarnessError('sandwich counterexample does not reproduce: %s' % name)
        elif res == 'unsat':
            ses.stats.nontrivial.add(name)


def exact_member(ses, U, zf, centre, z3):
    """An exact rational point of U close to the float point zf (pulled towards `centre` until z3 confirms membership of
    the rational point in the TRUE set - a ground query), or None."""
    from ..oracle import Z3Env
    for eta in (Fraction(1, 10 ** 8), Fraction(1, 10 ** 6), Fraction(1, 10 ** 4), Fraction(1, 100)):
        pt = {}
        for n in U.names:
            c = Fraction(centre.get(n, 0)).limit_denominator(10 ** 6)
            v = Fraction(float(zf[n])).limit_denominator(10 ** 10)
            pt[n] = c + (1 - eta) * (v - c)
        e2 = Z3Env({n: z3.RealVal(str(v)) for n, v in pt.items()})
        cons = U.z3(e2)
        r, _ = ses.solve(list(cons) + list(e2.defs), 5000, None, 'member')
        if r == 'sat':
            return pt
    return None


def scenario_sandwich(ses, name, cm, vs, rows, box, better, reported, Sfull, rounds=8):
    """Scenario (cutting-plane) relaxation of the semi-infinite semantics for SOC-type / mixed sets:  a robust row holds for
    ALL z in U, hence at every member of a finite list of exact rational points z_k of U (membership of each point in the TRUE
    set is confirmed by z3).  S is contained in the polyhedron S_K so obtained; `S_K /\ t <= reported - delta` unsat (QF_LRA,
    plus the atoms of deterministic rows) proves that no robustly feasible point beats the reported optimum.  The points are
    chosen numerically (worst realisations at the solver's point and at the models of earlier rounds - Kelley's loop); they
    only make the relaxation tight, the verdict is z3's over all values of the decisions."""
    from .c01 import maximise_linear
    from ..tv import affine_in_z
    from ..poly import Poly
    z3 = z3mod()
    sol = cm.r.m.solution
    if sol is None or sol.x is None:
        return 'unknown', None
    x = np.array(sol.x, dtype=float)
    assign = {n: float(x[c]) for n, c in cm.iface.items()}
    env = cm.env(vs)
    terms, robust = [], []
    for row in rows:
        U = row['uset']
        if row['cons'].is_atom() or not row['robust'] or U.kind == 'poly':
            terms += hold_terms(row, env, z3)
        elif U.kind in ('soc', 'mixed'):
            robust.append(row)
        else:
            return 'unknown', None
    centres, npts = {}, 0

    def centre_of(U):
        if id(U) not in centres:
            n = len(U.names)
            pts = []
            for i in range(n):
                for sg in (1.0, -1.0):
                    a = np.zeros(n)
                    a[i] = sg
                    pts.append(maximise_linear(U, a))
            centres[id(U)] = ({k: float(np.mean([p[k] for p in pts])) for k in U.names}, pts)
        return centres[id(U)]

    def add_cuts(row, point):
        nonlocal npts
        U = row['uset']
        (p,) = row['cons'].polys()
        a, _ = affine_in_z(p, U.names)
        av = np.array([a.get(n, Poly()).evalf(point) for n in U.names])
        c, base = centre_of(U)
        cands = [maximise_linear(U, av), maximise_linear(U, -av)] if row['cons'].sense == 'eq' else [maximise_linear(U, av)]
        if not row.get('_based'):
            cands += base
            row['_based'] = True
        for zf in cands:
            pt = exact_member(ses, U, zf, c, z3)
            if pt is None:
                continue
            tt = env.p(p.subs(pt))
            terms.append(tt <= 0 if row['cons'].sense == 'le' else tt == 0)
            npts += 1

    point = assign
    res = 'unknown'
    for rd in range(rounds):
        for row in robust:
            add_cuts(row, point)
        res, model = ses.solve(terms + list(env.defs) + box + [better], 20000, None, name + '/scenario-round%d' % rd)
        if res != 'sat':
            break
        point = {n: float(fval(model, vs[c])) for n, c in cm.iface.items()}
    for row in robust:
        row.pop('_based', None)
    if res == 'sat':
        # the loop converges to the optimum of S from outside: move the last model towards the solver's (robustly feasible)
        # point and let z3 check the TRUE semantics at the pinned rational point (ground query) - a real witness of conservatism
        for lam in (Fraction(1), Fraction(999, 1000), Fraction(99, 100), Fraction(9, 10), Fraction(1, 2)):
            pt = {n: Fraction(assign[n]).limit_denominator(10 ** 9) + lam * (Fraction(point[n]).limit_denominator(10 ** 9)
                                                                        - Fraction(assign[n]).limit_denominator(10 ** 9))
                  for n in cm.iface}
            pins = [vs[c] == z3.RealVal(str(pt[n])) for n, c in cm.iface.items()]
            r2, _ = ses.solve(list(Sfull) + pins + [better], 10000, None, name + '/semantic-witness')
            if r2 == 'sat':
                return 'sat', pt
    if res != 'unsat':
        ses.stats.notes.append('%s: scenario relaxation not tight after %d points (%s)' % (name, npts, res))
        return 'unknown', None
    r, _ = ses.oblige(name + '/no-better-point-in-scenario-relaxation(%dpts)' % npts, terms + list(env.defs) + box, [better],
                      kind='optimum-sandwich-scenarios', core=False, twin=True, timeout_ms=20000,
                      sample=dict(model=name, reported=reported, scenario_points=npts))
    return r, None


def head_signs(ses, spec, cm, cp, vs, reported):
    """The optimum must not depend on the interface's way of stating a cone.  Gurobi receives  tail'tail <= head^2 , which
    is the second-order cone only where head >= 0: rows and bounds of the compiled program alone must imply head >= 0 for every
    cone (QF_LRA); if they do not, the quadratic reading of ALL cones is tried (QF_NRA).  A cone whose head can be negative under
    that reading is vacuous there: the robust constraint it protects is switched off.  Replayed by solving the real model through
    the Gurobi and the ECOS interface."""
    z3 = z3mod()
    name = spec['name']
    lin = cp.row_cons(vs) + cp.bound_cons(vs, list(range(cp.n)))
    quad = [z3.Sum([vs[j] * vs[j] for j in q[1:]]) <= vs[q[0]] * vs[q[0]] for q in cp.qmat]
    for k, q in enumerate(cp.qmat):
        label = '%s/cone%d-head-sign' % (name, k)
        res, _ = ses.oblige(label, lin, [vs[q[0]] < 0], kind='interface-reading-head-sign', core=False, twin=(k == 0))
        if res == 'unsat':
            continue
        ses.retract(label, kind='interface-reading-head-sign', core=False) if res == 'unknown' else None
        res2, _ = ses.oblige(label + '/quadratic-reading', lin + quad, [vs[q[0]] < 0], kind='interface-reading-head-sign',
                             core=False, twin=False, timeout_ms=10000)
        if res2 == 'unsat':
            if res == 'sat':
                ses.dismiss(label, 'head sign follows from the quadratic reading of all cones')
            continue
        data = dict(spec=spec, grb_reading=True, cone=k, head=int(q[0]), eco=reported)
        if replay(data):
            finding(ses, 'C02:%s:grb-reading' % name, 'model %s: the head of cone %d (column %d) of the compiled program is not '
                    'sign-constrained; through the Gurobi interface (tail\'tail <= head^2) the optimum differs from the ECOS value %r'
                    % (name, k, q[0], reported), data, 'rsv.props.c02:replay')
            return
        ses.stats.notes.append('undecided: %s (head may be negative under the quadratic reading; the Gurobi interface did not return a different optimum)' % label)


def replay(data, verbose=False):
    if data.get('grb_reading'):
        try:
            from rsome import grb_solver, eco_solver
        except Exception:  # noqa
            return False
        vals = {}
        for nm, solver in (('eco', eco_solver), ('grb', grb_solver)):
            with quiet():
                cm = Compiled(desc_from_spec(data['spec']))
                try:
                    cm.r.m.solve(solver, display=False, params=({'TimeLimit': 20} if nm == 'grb' else {}))
                    vals[nm] = cm.r.m.get()
                except Exception as e:  # noqa
                    vals[nm] = 'no solution (%s)' % str(e)[:60]
        if verbose:
            print('model %s: ECOS %r, Gurobi %r' % (data['spec']['name'], vals['eco'], vals['grb']))
        a, b = vals['eco'], vals['grb']
        if isinstance(a, str):
            return False
        return isinstance(b, str) or abs(a - b) > 1e-4 * (1 + abs(a))
    """Reproduce on the real code: the semantic point is rejected by the real compiled program
    (HiGHS/ECOS on the real formula with the interface columns pinned is infeasible) or the real
    solver's optimum differs from the exact semantic optimum."""
    import scipy.optimize as opt
    spec = data['spec']
    cm = Compiled(desc_from_spec(spec))
    f = cm.formula
    if 'point' in data:
        pt = {k: float(Fraction(v)) for k, v in data['point'].items()}
        lb = np.array(f.lb, dtype=float).copy()
        ub = np.array(f.ub, dtype=float).copy()
        for n, c in cm.iface.items():
            if n in pt:
                lb[c] = max(lb[c], pt[n] - 1e-9)
                ub[c] = min(ub[c], pt[n] + 1e-9)
        with quiet():
            if cm.cp.qmat:
                import ecos
                from rsome.gcp import GCProg
                from rsome import eco_solver
                g = GCProg(f.linear, f.const, f.sense, f.vtype, ub, lb, f.qmat, [], [], f.obj)
                sol = eco_solver.solve(g, display=False)
                infeasible = sol is None or sol.x is None
            else:
                A = f.linear
                eq = f.sense == 1
                res = opt.linprog(np.zeros(A.shape[1]), A_ub=A[~eq], b_ub=f.const[~eq], A_eq=A[eq] if eq.any() else None,
                                  b_eq=f.const[eq] if eq.any() else None, bounds=list(zip(lb, ub)))
                infeasible = res.status == 2
        if verbose:
            print('semantic point %s pinned into the real compiled program: %s' % (pt, 'INFEASIBLE' if infeasible else 'feasible'))
        if 'reported' in data and not infeasible:
            return False
        return bool(infeasible)
    with quiet():
        cm.r.m.solve(display=False)
    try:
        rep = cm.r.m.get()
    except Exception:
        rep = None
    if verbose:
        print('real solve(): %r ; exact optimum of compiled program %s (%s) ; of semi-infinite problem %s (%s)'
              % (rep, data.get('optP'), data.get('sp'), data.get('optS'), data.get('so')))
    if data.get('so') == 'optimal':
        sign = cm.o.obj[0]
        return rep is None or abs(rep - sign * float(Fraction(data['optS']))) > 1e-6
    return data.get('sp') != data.get('so')
