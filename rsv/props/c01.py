"""C01 - robust solutions are feasible for every realisation in the uncertainty set.

Layer A (all compiled-feasible points):  exists v: P(v) /\\ [some z in U_i violates row i at
iface(v)]  -> unsat, with z eliminated by Lemma V (polytopes: vertices), Lemma S
(balls/ellipsoids: support function) or kept symbolic (generic, dim z <= 2).
Layer B (the point a real solver returns): exists z in U_i: row_i(x*, z) > tol -> unsat.
"""
import numpy as np
from fractions import Fraction

from ..poly import Poly, parr, z3mod
from ..tv import Compiled, viol_terms, affine_in_z, discharge_row
from ..util import quiet
from ..oracle import Z3Env, cons_eval
from ..rogen import core_specs, expset_specs, random_spec, random_pw_spec, random_expset_spec, desc_from_spec
from ..smt import HarnessError, fval
from ..harness import finding

PROP = 'C01'
LEVEL = 'translation_validation'
TIMEOUT_MS = 60000

META = dict(
    functions=['rsome.ro.Model.do_math/st/minmax/maxmin', 'rsome.lp.RoConstr.forall/le_to_rc',
               'rsome.lp.DecRule.adapt/to_affine', 'rsome.lp.Affine.__mul__/__matmul__ (bi-affine)',
               'rsome.lp.Model.do_math(primal=False) / socp / gcp dual formulas (supports)',
               'rsome.lp.Vars.get / DecRule.get (interface read-back)'],
    rule='one case = one ro model of the family (curated core + seeded random members); non-trivial = compiled '
         'program feasible (reachability twin sat) and at least one robust row decided; distinct by spec name',
    bounds='models: <=3 here-and-now arrays (<=3 entries), <=2 random arrays (<=4 components), LDRs with arbitrary '
           'dependency masks (<=2 entries), <=4 robust rows, min/max/minmax/maxmin with affine, bi-affine, '
           'maxof/minof objectives, piecewise (maxof) robust rows with <=3 pieces incl. one piecewise constraint object used with two sets; sets: boxes (zero/non-zero/one-sided), linear (in)equalities, 1/2/inf-norm '
           '(shifted/scaled), quad, sumsqr, lifted budget sets, KL-divergence balls / entropy level sets on the simplex and sum-exp / sum-log sets (dimension 2-3), intersections, per-constraint forall sets; '
           'coefficients on the dyadic grid (+ multiples of 1/8 in thorough)',
    outside='exactness for exponential-cone sets (only soundness is claimed, through the cone-pairing relaxation; a '
            'satisfiable relaxation without a reproduced real point is undecided); general p-norm sets; models beyond the structural bound; numeric solver behaviour beyond tol=1e-6',
    assumptions=['Lemma V (vertex sufficiency for rows affine in z over a polytope)',
                 'pairing inequality of the exponential cone <K_exp, K_exp*> >= 0 and Cauchy-Schwarz for second-order cones '
                 '(hypothesis-side relaxation, DESIGN.md 3.10)',
                 'Lemma S (support function of an ellipsoid)',
                 'interface columns are identified through the real get() read-back with a sentinel solution',
                 'quad() sets: sqrtm rounding => interface boxed to [-8,8], violation margin 1e-6'],
)


def cases(tier, seed, rnd):
    specs = core_specs() + expset_specs()
    n = 24 if tier == 'quick' else 600
    specs += [random_spec(rnd, i) for i in range(n)]
    specs += [random_expset_spec(rnd, i) for i in range(6 if tier == 'quick' else 120)]
    specs += [random_pw_spec(seed, i) for i in range(8 if tier == 'quick' else 120)]
    return [dict(spec=s) for s in specs]


def run_case(case, ses):
    spec = case['spec']
    z3 = z3mod()
    cm = Compiled(desc_from_spec(spec))
    ses.stats.programs += 1
    cp = cm.cp
    vs = cp.z3vars()
    P = cp.constraints(vs)
    tolmode = bool(spec.get('tol'))
    extra = []
    eps = 0
    if tolmode:
        eps = Fraction(1, 10 ** 6)
        for n, c in cm.iface.items():
            extra += [vs[c] <= 8, vs[c] >= -8]
    rows = cm.rows()
    blocks = cp.blocks(cm.iface.values())
    r0, _ = ses.solve(P, label=spec['name'] + '/feasible')
    if r0 != 'sat':
        if spec['name'].startswith('rand'):
            # a seeded random member may be robustly infeasible (or its feasibility undecided within the time
            # limit): it carries no information, skip it
            ses.stats.kinds['skipped-infeasible-member'] = ses.stats.kinds.get('skipped-infeasible-member', 0) + 1
            return
        raise HarnessError('compiled program of family member %s is not feasible (%s): vacuous' % (spec['name'], r0))
    decided = 0
    for row in rows:
        if not row['robust'] and not row['cons'].is_atom():
            kind = 'det-row'
        else:
            kind = 'robust-' + (row['uset'].kind if row['uset'] is not None else 'det')
        label = '%s/%s' % (spec['name'], row['label'])
        core = not (row['uset'] is not None and row['uset'].kind in ('mixed', 'other', 'exp'))
        if spec['name'].startswith('rand') and row['uset'] is not None and row['uset'].kind != 'poly':
            core = False     # nonlinear rows of seeded random members are stretch obligations (curated members stay core)
        res, model = discharge_row(ses, cm, vs, P, blocks, row, label, kind, eps, extra, core=core,
                                   sample=dict(model=spec['name'], row=str(row['cons'])[:160],
                                               set=(row['uset'].kind if row['uset'] else None),
                                               vertices=(len(row['uset'].vertices()) if row['uset'] is not None
                                                         and row['uset'].kind == 'poly' else None)))
        if res == 'unsat':
            decided += 1
        elif res == 'sat':
            handle_cex(ses, spec, cm, row, model, vs)
        elif row['uset'] is not None and row['uset'].kind == 'exp':
            # the relaxed query (cone memberships weakened to pairing inequalities) was not refuted: that proves
            # nothing either way.  Look for a REAL counterexample: real solver points of the real compiled
            # program for several objectives, worst realisation by numeric maximisation over the true set.
            data = numeric_expset_cex(spec, cm, row)
            if data is not None:
                ok, info = replay(data, want_info=True)
                if ok:
                    finding(ses, 'C01:%s:%s' % (spec['name'], row['label']),
                            'model %s row %s: compiled-feasible point violates the robust row at z=%s by %.3g'
                            % (spec['name'], row['label'], info.get('z'), info.get('viol', 0)), data, 'rsv.props.c01:replay')
                    continue
            ses.stats.undecided += 1
            ses.stats.notes.append('undecided: %s (exp-cone set, relaxation %s)' % (label, res))
    if decided:
        ses.stats.nontrivial.add(spec['name'])
    layer_b(ses, spec, cm, rows)
    cross_validate(ses, spec, cm, rows, vs, P)


# ------------------------------------------------------------------ counterexample handling
def numeric_expset_cex(spec, cm, row, tries=12):
    import random
    from rsome.gcp import GCProg
    from rsome import eco_solver
    f = cm.formula
    rnd = random.Random(11)
    cols = sorted(set(cm.iface.values()))
    for k in range(tries):
        obj = np.array(f.obj, dtype=float).reshape(-1).copy()
        if k:
            for c in cols:
                obj[c] = rnd.choice([-1, 1, 0.5, -0.5, 0, 2, -2])
        g = GCProg(f.linear, f.const, f.sense, f.vtype, f.ub, f.lb, f.qmat, f.xmat, [], obj)
        with quiet():
            try:
                sol = eco_solver.solve(g, display=False)
            except Exception:
                continue
        if sol is None or sol.x is None:
            continue
        data = dict(spec=spec, row=row['label'], v=[float(t) for t in sol.x], tol='1/1000000')
        ok, info = replay(data, want_info=True)
        if ok:
            return data
    return None


def worst_z(row, assign, U):
    """A realisation in U (floats) maximising the row at the numeric interface assignment."""
    (p,) = row['cons'].polys()
    zn = U.names
    if U.kind == 'poly':
        best, bz = None, None
        for v in U.vertices():
            val = p.subs(v).evalf(assign)
            val = abs(val) if row['cons'].sense == 'eq' else val
            if best is None or val > best:
                best, bz = val, v
        return {k: float(x) for k, x in bz.items()}
    a, b = affine_in_z(p, zn)
    av = np.array([a.get(n, Poly()).evalf(assign) for n in zn])
    return maximise_linear(U, av, sign=1), maximise_linear(U, -av, sign=1)


def maximise_linear(U, a, sign=1):
    """argmax a'z over U for SOC-type sets (numeric, used for replay only)."""
    from scipy.optimize import minimize
    zn = U.names
    cons = []
    for c in U.cons:
        cons.append(dict(type='ineq', fun=(lambda zz, c=c: -cons_eval(c, dict(zip(zn, zz))))))
    best = None
    for start in (np.zeros(len(zn)), 0.1 * np.ones(len(zn))):
        r = minimize(lambda zz: -float(a @ zz), start, constraints=cons, method='SLSQP')
        if best is None or r.fun < best.fun:
            best = r
    return dict(zip(zn, [float(v) for v in best.x]))


def handle_cex(ses, spec, cm, row, model, vs):
    vstar = [float(fval(model, v)) for v in vs]
    data = dict(spec=spec, row=row['label'], v=vstar)
    ok, info = replay(data, verbose=False, want_info=True)
    if not ok and cm.cp.xmat:
        # programs with exponential cones: exp is uninterpreted in the encoding, a model need not be a real point
        ses.stats.undecided += 1
        ses.stats.notes.append('undecided: %s/%s (abstract counterexample without a real witness)' % (spec['name'], row['label']))
        ses.dismiss_last('model of an abstraction (uninterpreted exp) without a real witness')
        return
    if not ok:
        raise HarnessError('soundness counterexample does not reproduce on the real code: %s/%s (%s)'
                           % (spec['name'], row['label'], info))
    finding(ses, 'C01:%s:%s' % (spec['name'], row['label']),
            'model %s row %s: compiled-feasible point violates the robust row at z=%s by %.3g'
            % (spec['name'], row['label'], info.get('z'), info.get('viol', 0)), data, 'rsv.props.c01:replay')


def replay(data, verbose=False, want_info=False, tol=Fraction(1, 10 ** 7)):
    """Re-build the model with the real code; check that v* is accepted by the real compiled
    program and that the user's row, evaluated by the real expression at a realisation of the set,
    is violated."""
    spec = data['spec']
    cm = Compiled(desc_from_spec(spec))
    v = data['v']
    info = {}
    tol = Fraction(data['tol']) if data.get('tol') else tol
    bad = cm.cp.check_point(v, tol=tol)
    info['program_violations'] = bad[:3]
    if bad:
        if verbose:
            print('point is not feasible for the real compiled program:', bad[:3])
        return (False, info) if want_info else False
    rows = {r['label']: r for r in cm.rows()}
    row = rows[data['row']]
    assign = {n: v[c] for n, c in cm.iface.items()}
    U = row['uset']
    cands = []
    if U is None:
        cands = [{}]
    else:
        w = worst_z(row, assign, U)
        cands = list(w) if isinstance(w, tuple) else [w]
    worst, wz = -1e300, None
    for z in cands:
        if U is not None and not U.contains(z, tol=1e-7):
            continue
        full = dict(assign)
        full.update(z)
        val = cons_eval(row['cons'], full)
        if val > worst:
            worst, wz = val, z
    info['z'] = wz
    info['viol'] = worst
    # the same through the real expression objects (RoAffine.__call__ with the injected solution)
    real_val = real_row_value(cm, spec, data['row'], v, wz)
    info['real_eval'] = real_val
    if verbose:
        print('model %s, row %s' % (spec['name'], data['row']))
        print('  compiled program accepts the point (exact check of rows/bounds/cones)')
        print('  realisation z* = %s (in the set)' % wz)
        print('  oracle row value (<=0 required): %.6g ; real expression call: %s' % (worst, real_val))
    # The meaning of the user's row is NumPy's (C05): the violation is established by the exact check of the point against the
    # real compiled program plus the NumPy evaluation of the row at a realisation of the set.  RSOME's own __call__ is a
    # cross-check only: when the expression algebra itself is broken (e.g. a wrong transpose) it agrees with the wrong
    # program, which must not turn a genuine violation into a harness error.
    if worst > 1e-6 and real_val is not None and not real_val > 1e-6:
        info['note'] = 'RSOME evaluates its own expression object to %r at this point where NumPy semantics give %r' % (real_val, worst)
        if verbose:
            print('  ' + info['note'])
    ok = worst > 1e-6
    return (ok, info) if want_info else ok


def real_row_value(cm, spec, label, v, z):
    """Evaluate the user's constraint with RSOME's own __call__ at solution v and realisation z."""
    from rsome.lp import Solution, RoAffine
    r = cm.r
    if z is None:
        return None
    try:
        kind, idx = label.split('.')[0], int(label.split('.')[1])
        sol = Solution('replay', 0.0, np.array(v, dtype=float), 0, 0.0)
        r.m.rc_model.solution = sol
        r.m.solution = sol
        assigns = []
        for k, zr in enumerate(r.rvars):
            names = ['z%d' % k if zr.shape == () else None]
            from ..poly import pvars
            from ..models import p_name
            zn = [p_name(p) for p in pvars('z%d' % k, zr.shape).reshape(-1)]
            vals = np.array([z.get(n, 0.0) for n in zn]).reshape(zr.shape)
            assigns.append(zr.assign(vals))
        if kind == 'obj':
            notes = [n for n in r.notes if n[0] == 'obj']
            _, e, _, okind = notes[0]
            sign = 1 if okind in ('min', 'minmax') else -1
            if hasattr(e, 'pieces'):
                return None
            val = e(*assigns) if isinstance(e, RoAffine) else e()
            return float(np.array(sign * val).reshape(-1)[0] - v[0])
        ci = int(kind[1:])
        # rows are noted in the order they were added after the bound constraints
        nb = sum((1 if b.get('lo') is not None else 0) + (1 if b.get('hi') is not None else 0)
                 for b in spec.get('bounds', []))
        notes = [n for n in r.notes if n[0] == 'row']
        _, e, rhs, sense = notes[ci - nb]
        val = e(*assigns) if isinstance(e, RoAffine) else e()
        d = np.array(val - rhs, dtype=float).reshape(-1)[idx]
        if sense == 'ge':
            d = -d
        if sense == 'eq':
            d = abs(d)
        return float(d)
    except Exception as ex:  # evaluation path itself may be what is broken; report, do not hide
        return None


# ------------------------------------------------------------------ layer B: the solver's point
def layer_b(ses, spec, cm, rows):
    z3 = z3mod()
    m = cm.r.m
    with quiet():
        try:
            if cm.cp.qmat or cm.cp.xmat:
                from rsome import eco_solver as solver
                m.solve(solver, display=False)
            else:
                m.solve(display=False)
        except Exception as e:
            ses.stats.notes.append('solve failed for %s: %s' % (spec['name'], e))
            return
    sol = m.solution
    if sol is None or sol.x is None:
        ses.stats.notes.append('no solution for %s' % spec['name'])
        return
    x = np.array(sol.x, dtype=float)
    assign = {n: Fraction(float(x[c])) for n, c in cm.iface.items()}
    # reported objective equals sign * epigraph variable
    tol = Fraction(1, 10 ** 5)
    for row in rows:
        if not row['robust']:
            continue
        U = row['uset']
        if U.kind == 'exp':
            # exp is uninterpreted in the encodings: the solver's point is examined numerically (worst realisation by
            # maximisation over the true set); only a reproduced violation is reported
            data = dict(spec=spec, row=row['label'], v=[float(t) for t in x], tol='1/1000000')
            ok, info = replay(data, want_info=True)
            ses.stats.obligations += 1
            ses.stats.kinds['solver-point-numeric'] = ses.stats.kinds.get('solver-point-numeric', 0) + 1
            if ok:
                finding(ses, 'C01:%s:%s' % (spec['name'], row['label']),
                        'model %s row %s: solution returned by solve() violates the row at z=%s'
                        % (spec['name'], row['label'], info.get('z')), data, 'rsv.props.c01:replay')
            else:
                ses.stats.discharged += 1
            continue
        (p,) = row['cons'].polys()
        q = p.subs(assign)
        env = Z3Env()
        zc = U.z3(env)
        t = env.p(q)
        margin = z3.RealVal(str(tol * (1 + abs(q.constant()))))
        neg = [t > margin] if row['cons'].sense == 'le' else [z3.Or(t > margin, t < -margin)]
        label = '%s/%s@solver' % (spec['name'], row['label'])
        res, model = ses.oblige(label, zc + env.defs, neg, kind='solver-point', core=False, twin=False)
        if res == 'sat':
            zstar = {n: float(fval(model, env[n])) for n in U.names}
            data = dict(spec=spec, row=row['label'], v=[float(t) for t in x])
            ok, info = replay(data, want_info=True)
            if ok:
                finding(ses, 'C01:%s:%s' % (spec['name'], row['label']),
                        'model %s row %s: solution returned by solve() violates the row at z=%s'
                        % (spec['name'], row['label'], zstar), data, 'rsv.props.c01:replay')
            else:
                raise HarnessError('solver-point counterexample does not reproduce: %s' % label)


# ------------------------------------------------------------------ Lemma V / S cross validation (dim <= 2)
def cross_validate(ses, spec, cm, rows, vs, P):
    """For sets of dimension <= 2 the vertex / support-function elimination is cross-checked by the
    direct query with z symbolic (QF_NRA, bilinear), block-sliced; stretch obligations."""
    z3 = z3mod()
    from ..tv import row_cols
    blocks = cm.cp.blocks(cm.iface.values())
    for row in rows:
        U = row['uset']
        if U is None or len(U.names) > 2 or row['cons'].is_atom() or spec.get('tol') or U.kind in ('mixed', 'other', 'exp'):
            continue
        cols = row_cols(row, cm)
        label = '%s/%s/direct' % (spec['name'], row['label'])
        done = False
        for blk in blocks:
            if not (blk['iface'] & cols):
                continue
            env = cm.env(vs)
            for n in U.names:
                env.m[n] = z3.Real('zz_' + n)
            zc = U.z3(env)
            (p,) = row['cons'].polys()
            t = env.p(p)
            neg = [t > 0] if row['cons'].sense == 'le' else [t != 0]
            res, _ = ses.solve(cm.cp.block_cons(blk, vs) + zc + env.defs + neg, timeout_ms=8000, label=label)
            if res == 'unsat':
                done = True
                break
        ses.stats.obligations += 1
        ses.stats.kinds['lemma-crosscheck'] = ses.stats.kinds.get('lemma-crosscheck', 0) + 1
        if done:
            ses.stats.discharged += 1
        else:
            ses.stats.undecided += 1
        break
