"""C16 - exports (.lp text, show() tables) describe exactly the solved program.

The text of the real lp_export() / to_lp() is parsed by the harness's own LP-format reader into a
program P'; the DataFrame of the real show() is converted back into a program P''.  With P the
exact-rational reading of the formula itself, z3 decides
     exists v:  P(v) xor P'(v)          -> unsat         (same feasible set, incl. SOC rows, bounds)
     exists v:  obj(v) != obj'(v)       -> unsat         (same objective as linear forms)
and the integer/binary sections must induce the same domains.  Decimal strings are read as the
nearest double (what an LP reader does).
"""
import re
from fractions import Fraction
import numpy as np

from ..poly import z3mod
from ..cprog import CProg
from ..smt import HarnessError, fval
from ..harness import finding
from ..util import quiet

PROP = 'C16'
LEVEL = 'translation_validation'
TIMEOUT_MS = 30000

META = dict(
    functions=['rsome.lp.LinProg.lp_export/to_lp/showlc/show', 'rsome.socp.SOCProg.lp_export/showqc/show',
               'rsome.gcp.GCProg.show/showec'],
    rule='one case = one compiled formula (LP / MILP / SOCP / exp-cone for show()); obligations: feasible-set xor, '
         'objective disequality, domain equality for the .lp text and for the show() table; non-trivial = the '
         'formula has >= 2 rows with non-trivial coefficients; distinct by name',
    bounds='<= 6 user columns, coefficients incl. negative, zero, 1e-9, 1e9, 1/3; infinite and finite bounds; empty '
           'rows; C/B/I types; <= 2 second-order cones',
    outside='LP readers of third-party tools; exp-cone and LMI rows have no .lp representation (show() only)',
    assumptions=['LP-format defaults: a variable absent from Bounds has [0, +inf); -inf/+inf/inf/infinity spellings',
                 'numeric text is converted with float() (nearest double)'],
)


# ------------------------------------------------------------------ independent LP-format reader
class Parsed:
    def __init__(self):
        self.obj = {}
        self.rows = []     # (dict var->Fraction, sense '<=' | '=' | '>=', rhs Fraction)
        self.qrows = []    # (list of (sign, var)), rhs
        self.lb, self.ub = {}, {}
        self.general, self.binary = set(), set()
        self.sense = 'min'
        self.vars = set()


UNUM = r'(?:\d+\.?\d*(?:[eE][-+]?\d+)?|\.\d+(?:[eE][-+]?\d+)?|inf(?:inity)?)'
NUM = r'[-+]?' + UNUM


def num(tok):
    t = tok.lower().replace('infinity', 'inf')
    return float(t)


def parse_linear(text):
    """'1.0 x1 - 2.5 x3 + x4' -> {var: Fraction}"""
    out = {}
    text = text.strip()
    if not text:
        return out
    toks = re.findall(r'[-+]|' + UNUM + r'|[A-Za-z_][A-Za-z0-9_]*', text)
    sign, coef = 1, None
    for t in toks:
        if t in '+-':
            sign = -1 if t == '-' else 1
            coef = None
        elif re.fullmatch(r'[A-Za-z_][A-Za-z0-9_]*', t) and t.lower() not in ('inf', 'infinity'):
            c = 1.0 if coef is None else coef
            out[t] = out.get(t, Fraction(0)) + Fraction(sign * c)
            sign, coef = 1, None
        else:
            coef = num(t)
    if coef is not None:
        raise HarnessError('dangling coefficient in %r' % text)
    return out


def parse_lp(text):
    P = Parsed()
    section = None
    lines = [l.rstrip() for l in text.splitlines()]
    buf = []
    for raw in lines:
        line = raw.strip()
        low = line.lower()
        if low in ('minimize', 'minimise', 'min', 'maximize', 'maximise', 'max'):
            section = 'obj'
            P.sense = 'min' if low.startswith('min') else 'max'
            continue
        if low in ('subject to', 'st', 's.t.', 'such that'):
            section = 'rows'
            continue
        if low in ('bounds', 'bound'):
            section = 'bounds'
            continue
        if low in ('general', 'generals', 'gen', 'integer', 'integers'):
            section = 'general'
            continue
        if low in ('binary', 'binaries', 'bin'):
            section = 'binary'
            continue
        if low == 'end':
            break
        if not line:
            continue
        if section == 'obj':
            body = line.split(':', 1)[1] if ':' in line else line
            for k, v in parse_linear(body).items():
                P.obj[k] = P.obj.get(k, Fraction(0)) + v
        elif section == 'rows':
            body = line.split(':', 1)[1] if ':' in line else line
            mm = re.search(r'(<=|>=|=<|=>|=)\s*(' + NUM + r')\s*$', body)
            if not mm:
                raise HarnessError('cannot parse row %r' % line)
            sense = {'=<': '<=', '=>': '>='}.get(mm.group(1), mm.group(1))
            rhs = Fraction(num(mm.group(2)))
            lhs = body[:mm.start()].strip()
            if '[' in lhs:
                inner = lhs[lhs.index('[') + 1:lhs.rindex(']')]
                rest = (lhs[:lhs.index('[')] + lhs[lhs.rindex(']') + 1:]).strip()
                if rest:
                    raise HarnessError('mixed linear/quadratic row not supported: %r' % line)
                terms = []
                for sg, var in re.findall(r'([-+]?)\s*([A-Za-z_][A-Za-z0-9_]*)\s*\^\s*2', inner):
                    terms.append((-1 if sg == '-' else 1, var))
                if not terms:
                    raise HarnessError('empty quadratic row %r' % line)
                P.qrows.append((terms, sense, rhs))
            else:
                P.rows.append((parse_linear(lhs), sense, rhs))
        elif section == 'bounds':
            m3 = re.fullmatch(r'(' + NUM + r')\s*<=\s*([A-Za-z_]\w*)\s*<=\s*(' + NUM + r')', line)
            m2a = re.fullmatch(r'([A-Za-z_]\w*)\s*(<=|>=|=)\s*(' + NUM + r')', line)
            m2b = re.fullmatch(r'(' + NUM + r')\s*(<=|>=)\s*([A-Za-z_]\w*)', line)
            mf = re.fullmatch(r'([A-Za-z_]\w*)\s+free', low)
            if m3:
                v = m3.group(2)
                P.lb[v], P.ub[v] = num(m3.group(1)), num(m3.group(3))
            elif m2a:
                v, op, c = m2a.group(1), m2a.group(2), num(m2a.group(3))
                if op == '<=':
                    P.ub[v] = c
                elif op == '>=':
                    P.lb[v] = c
                else:
                    P.lb[v] = P.ub[v] = c
            elif m2b:
                c, op, v = num(m2b.group(1)), m2b.group(2), m2b.group(3)
                if op == '<=':
                    P.lb[v] = c
                else:
                    P.ub[v] = c
            elif mf:
                P.lb[mf.group(1)], P.ub[mf.group(1)] = -np.inf, np.inf
            else:
                raise HarnessError('cannot parse bound %r' % line)
        elif section == 'general':
            P.general.update(line.split())
        elif section == 'binary':
            P.binary.update(line.split())
    return P


def parsed_cons(Pp, n, vs, binary_bounds='intersect'):
    """z3 constraints of the parsed program over x1..xn (vs[j] <-> x{j+1}).  LP-format readers disagree on a binary column
    that also has an explicit entry in the Bounds section: Gurobi intersects the entry with [0, 1] ('intersect'), the HiGHS
    reader keeps the explicit entry ('explicit'); the export must describe the solved program under both readings."""
    z3 = z3mod()
    name = {('x%d' % (j + 1)): vs[j] for j in range(n)}

    def lin(d):
        ts = []
        for k, c in d.items():
            if k not in name:
                raise HarnessError('unknown variable %s in export' % k)
            ts.append(name[k] * z3.RealVal(str(c)))
        return z3.Sum(ts) if ts else z3.RealVal(0)
    cs = []
    for d, s, r in Pp.rows:
        l, rv = lin(d), z3.RealVal(str(r))
        cs.append(l <= rv if s == '<=' else (l >= rv if s == '>=' else l == rv))
    for terms, s, r in Pp.qrows:
        q = z3.Sum([sg * name[v] * name[v] for sg, v in terms])
        rv = z3.RealVal(str(r))
        cs.append(q <= rv if s == '<=' else (q >= rv if s == '>=' else q == rv))
    for j in range(n):
        v = 'x%d' % (j + 1)
        lb = Pp.lb.get(v, 0.0)
        ub = Pp.ub.get(v, np.inf)
        if v in Pp.binary:
            if binary_bounds == 'intersect':
                lb, ub = max(lb, 0.0) if v in Pp.lb else 0.0, min(ub, 1.0) if v in Pp.ub else 1.0
            else:
                lb, ub = lb if v in Pp.lb else 0.0, ub if v in Pp.ub else 1.0
        if lb != -np.inf:
            cs.append(vs[j] >= z3.RealVal(str(Fraction(lb))))
        if ub != np.inf:
            cs.append(vs[j] <= z3.RealVal(str(Fraction(ub))))
    return cs, lin(Pp.obj)


def quad_rows_of(P, vs):
    """The .lp format can only say  sum x_i^2 - x_h^2 <= 0 ; the cone additionally needs x_h >= 0,
    which the writer expresses through the bound of the head column."""
    out = []
    for q in P.qmat:
        out.append(sum(vs[k] * vs[k] for k in q[1:]) - vs[q[0]] * vs[q[0]] <= 0)
    return out


# ------------------------------------------------------------------ programs
def programs(tier, rnd):
    from rsome import ro
    import rsome as rso
    out = []

    def lp(name, f):
        out.append((name, f))

    def m1():
        m = ro.Model()
        x = m.dvar(3)
        m.min(x[0] - 2 * x[1] + 1e-9 * x[2])
        m.st(x[0] + x[1] <= 5, 1e9 * x[1] - x[2] >= -1, x[0] - x[1] + x[2] == 1 / 3, x <= 4, x[0] >= -2.5)
        return m
    lp('lp-coeffs', m1)

    def m2():
        m = ro.Model()
        x = m.dvar(2, 'B')
        y = m.dvar(2, 'I')
        z = m.dvar(1)
        m.max(x.sum() + 0.5 * y[0] - z[0])
        m.st(x[0] + y[1] <= 3.5, y >= -2, y <= 6, z >= 0, z <= 1e30, x[1] <= 0, 0 * z[0] <= 1)
        return m
    lp('milp-types', m2)

    def m3():
        m = ro.Model()
        x = m.dvar(3)
        t = m.dvar()
        m.min(t + 0.25 * x[2])
        m.st(rso.norm(x, 2) <= t, rso.sumsqr(x[0:2]) <= 4, t <= 10, x[0] >= 0.125)
        return m
    lp('socp', m3)

    def m3b():
        # several second-order cones of DIFFERENT sizes (the cone table is cut by cumulative lengths)
        m = ro.Model()
        x = m.dvar(2)
        y = m.dvar(3)
        w = m.dvar(4)
        m.max(x[0] + 2 * x[1] + y.sum() - w[3])
        m.st(rso.norm(x, 2) <= 1, rso.norm(y, 2) <= 2, rso.norm(w[0:3], 2) <= w[3], w[3] <= 3, rso.norm(x - y[0:2], 2) <= 2.5)
        return m
    lp('socp-cones-of-different-sizes', m3b)

    def m3c():
        # exponential cones cannot be written in the LP format: the export must refuse instead of dropping them
        m = ro.Model()
        x = m.dvar(2)
        m.min(x[0] + x[1])
        m.st(rso.exp(-x[0]) <= x[1], x >= 0, x <= 5)
        return m
    lp('exp-cone-not-expressible', m3c)

    def m4():
        m = ro.Model()
        x = m.dvar(2)
        m.min(0 * x[0])
        m.st(-x[0] - x[1] <= -1, x[0] == 0.5)
        return m
    lp('zero-objective', m4)

    def m5():
        m = ro.Model()
        x = m.dvar(2)
        z = m.rvar(2)
        m.minmax(x.sum() + x @ z, rso.norm(z, 2) <= 1.5, z >= -1)
        m.st(x >= -1, x <= 2, (x[0] * z[0] - x[1] <= 3))
        return m
    lp('robust-socp', m5)

    def m7():
        # the stand-alone rsome.lp front end: its formula class (LinProg) has its own show()
        from rsome import lp as rlp
        m = rlp.Model()
        x = m.dvar(2)
        y = m.dvar(vtype='I')
        m.min(-3 * x[0] + x[1] - 4 * y)
        for c in (2.5 * x[0] + y <= 20, x[0] - x[1] + 2 * y <= 16, x[1] >= -1.5, x <= 7, y <= 3.5, y >= -2):
            m.st(c)
        return m
    lp('lp-front-end', m7)

    # rows WITHOUT coefficients (zero row of a data matrix, cancelled terms): `0 == c` / `0 <= c` decide feasibility on their
    # own and must survive the export with their sense (one member per sense x sign of the constant)
    for tag, rel, c in (('eq-pos', 'eq', 1.0), ('eq-neg', 'eq', -1.0), ('eq-zero', 'eq', 0.0), ('le-pos', 'le', 2.0),
                        ('le-neg', 'le', -1.0), ('ge-pos', 'ge', 1.0), ('ge-neg', 'ge', -2.0)):
        def m6(rel=rel, c=c):
            m = ro.Model()
            x = m.dvar(3)
            m.min(x[0] + 2 * x[1] - x[2])
            A = np.array([[1.0, 1.0, 0.0], [0.0, 0.0, 0.0], [0.0, -1.0, 1.0]])
            b = np.array([1.0, c, 0.5])
            m.st(A @ x == b if rel == 'eq' else (A @ x <= b if rel == 'le' else A @ x >= b))
            m.st(x >= -1, x <= 4)
            return m
        lp('empty-row-' + tag, m6)
    n = 6 if tier == 'quick' else 120
    for i in range(n):
        seed = rnd.randint(0, 10 ** 9)

        def mk(seed=seed):
            import random
            r = random.Random(seed)
            m = ro.Model()
            k = r.choice([2, 3, 4])
            vt = ''.join(r.choice('CCBI') for _ in range(k))
            x = m.dvar(k, vt)
            g = lambda: r.choice([-3, -1, 0, 1, 2.5, 1e-9, -1e9, 1 / 3, 7, 0.1])
            m.min((np.array([g() for _ in range(k)]) * x).sum())
            for _ in range(r.choice([1, 2, 3])):
                e = (np.array([g() for _ in range(k)]) * x).sum()
                b = r.choice([-1, 0, 2.5, 1e6, 1 / 7])
                s = r.choice(['le', 'ge', 'eq'])
                m.st(e <= b if s == 'le' else (e >= b if s == 'ge' else e == b))
            for j in range(k):
                if r.random() < 0.6:
                    m.st(x[j] >= r.choice([-5, 0, -0.5, 1]))
                if r.random() < 0.6:
                    m.st(x[j] <= r.choice([5, 1, 10.25, 1e9]))
            if r.random() < 0.4:
                m.st(rso.norm(x[0:2], 2) <= x[-1] + 3)
            return m
        lp('rand%d' % i, mk)
    return out


def cases(tier, seed, rnd):
    ps = programs(tier, rnd)
    # every program also through its DUAL formula do_math(primal=False): general objective vectors (leading negative
    # coefficients), free / sign-constrained multipliers, equality rows - the primal formula never has them in row 0
    return [dict(idx=i, name=n) for i, (n, _) in enumerate(ps)] + [dict(idx=i, name=n, dual=True) for i, (n, _) in enumerate(ps)]


def formula_of(m, dual):
    return m.do_math(primal=False) if dual else m.do_math()


def run_case(case, ses):
    import random
    z3 = z3mod()
    rnd = random.Random(ses.seed)
    progs = programs(ses.tier, rnd)
    name, mk = progs[case['idx']]
    with quiet():
        m = mk()
        if case.get('dual'):
            name = name + ':dual'
            try:
                f = formula_of(m, True)
            except Exception:  # noqa  (no dual formula for this program)
                ses.stats.kinds['dual-formula-not-available'] = ses.stats.kinds.get('dual-formula-not-available', 0) + 1
                return
        else:
            f = m.do_math()
    P = CProg(f)
    ses.stats.programs += 1
    vs = [z3.Real('x%d' % (j + 1)) for j in range(P.n)]
    base = P.row_cons(vs) + real_bounds(P, vs) + quad_rows_of(P, vs)
    # ---- .lp text
    if P.xmat or P.lmi:
        # a program with exponential / semidefinite cones: the LP format has no way to state them
        ses.stats.obligations += 1
        ses.stats.kinds['inexpressible-cones-refused'] = ses.stats.kinds.get('inexpressible-cones-refused', 0) + 1
        try:
            text = f.lp_export()
        except Exception:
            ses.stats.discharged += 1
            ses.stats.nontrivial.add(name)
            return
        finding(ses, 'C16:%s:cones-dropped' % name, '%s: the program has %d exponential cones but lp_export() returns a file '
                '(which cannot contain them)' % (name, len(P.xmat)), dict(idx=case['idx'], name=name, what='cones dropped',
                                                                          text=text[:600]), 'rsv.props.c16:replay')
        return
    text = f.lp_export()
    try:
        Pp = parse_lp(text)
        pc, pobj = parsed_cons(Pp, P.n, vs)
    except HarnessError as e:
        data = dict(idx=case['idx'], name=name, what='unparseable export: %s' % e, text=text[:600])
        finding(ses, 'C16:%s:parse' % name, '%s: lp_export() text cannot be read back: %s' % (name, e), data,
                'rsv.props.c16:replay')
        return
    compare(ses, name, 'lp', case, P, vs, base, pc, pobj, text)
    if Pp.binary:
        pc2, pobj2 = parsed_cons(Pp, P.n, vs, binary_bounds='explicit')
        compare(ses, name, 'lp(explicit bounds of binaries kept)', case, P, vs, base, pc2, pobj2, text)
    ints = {('x%d' % (j + 1)) for j in range(P.n) if P.vtype[j] == 'I'}
    bins = {('x%d' % (j + 1)) for j in range(P.n) if P.vtype[j] == 'B'}
    ses.stats.obligations += 1
    ses.stats.kinds['domains'] = ses.stats.kinds.get('domains', 0) + 1
    if ints != Pp.general or bins != Pp.binary or Pp.sense != 'min':
        data = dict(idx=case['idx'], name=name, what='integer/binary sections differ', text=text[:600])
        finding(ses, 'C16:%s:domains' % name, '%s: General/Binary sections %s/%s, formula has %s/%s'
                % (name, sorted(Pp.general), sorted(Pp.binary), sorted(ints), sorted(bins)), data, 'rsv.props.c16:replay')
    else:
        ses.stats.discharged += 1
    # ---- show() table
    try:
        tc, tobj, tt = table_cons(f.show(), P.n, vs)
    except HarnessError as e:
        data = dict(idx=case['idx'], name=name, what='show() table unreadable: %s' % e)
        finding(ses, 'C16:%s:show' % name, '%s: show() cannot be converted back: %s' % (name, e), data,
                'rsv.props.c16:replay')
        return
    compare(ses, name, 'show', case, P, vs, base, tc, tobj, None)
    ses.stats.obligations += 1
    ses.stats.kinds['domains'] = ses.stats.kinds.get('domains', 0) + 1
    if tt != P.vtype:
        data = dict(idx=case['idx'], name=name, what='Type row differs')
        finding(ses, 'C16:%s:types' % name, '%s: show() Type row %s, formula %s' % (name, tt, P.vtype), data,
                'rsv.props.c16:replay')
    else:
        ses.stats.discharged += 1
    if P.m >= 2:
        ses.stats.nontrivial.add(name)


def real_bounds(P, vs):
    z3 = z3mod()
    out = []
    for j in range(P.n):
        lb, ub = P.lb[j], P.ub[j]
        if P.vtype[j] == 'B':
            lb = max(lb, Fraction(0)) if lb is not None else Fraction(0)
            ub = min(ub, Fraction(1)) if ub is not None else Fraction(1)
        if lb is not None:
            out.append(vs[j] >= z3.RealVal(str(lb)))
        if ub is not None:
            out.append(vs[j] <= z3.RealVal(str(ub)))
    return out


def compare(ses, name, which, case, P, vs, base, other, oobj, text):
    z3 = z3mod()
    nl = bool(P.qmat)
    res, model = ses.oblige('%s/%s/feasible-set' % (name, which), [], [z3.Xor(z3.And(base), z3.And(other))],
                            kind='%s-xor' % which, twin=False, core=not nl,
                            sample=dict(program=name, export=which, rows=P.m, cols=P.n, cones=len(P.qmat)))
    if res == 'sat':
        pt = [float(fval(model, v)) for v in vs]
        data = dict(idx=case['idx'], name=name, which=which, point=pt)
        if replay(data):
            finding(ses, 'C16:%s:%s' % (name, which),
                    '%s: the %s export and the formula disagree at the point %s' % (name, which, pt), data,
                    'rsv.props.c16:replay')
        else:
            raise HarnessError('export counterexample does not reproduce: %s/%s' % (name, which))
    obj = P.obj_term(vs)
    res, model = ses.oblige('%s/%s/objective' % (name, which), [], [obj != oobj], kind='%s-objective' % which, twin=False)
    if res == 'sat':
        pt = [float(fval(model, v)) for v in vs]
        data = dict(idx=case['idx'], name=name, which=which + '-objective', point=pt)
        finding(ses, 'C16:%s:%s-objective' % (name, which), '%s: objective of the %s export differs from the formula'
                % (name, which), data, 'rsv.props.c16:replay')


def table_cons(df, n, vs):
    """Convert the DataFrame of show() back into constraints."""
    z3 = z3mod()
    cols = ['x%d' % (j + 1) for j in range(n)]
    for c in cols + ['sense', 'constant']:
        if c not in df.columns:
            raise HarnessError('column %s missing' % c)
    cs = []
    obj = None
    types = None
    for idx, row in df.iterrows():
        coef = [row[c] for c in cols]
        if idx == 'Obj':
            obj = z3.Sum([vs[j] * z3.RealVal(str(Fraction(float(coef[j])))) for j in range(n) if float(coef[j]) != 0]
                         or [z3.RealVal(0)])
        elif str(idx).startswith('LC'):
            l = z3.Sum([vs[j] * z3.RealVal(str(Fraction(float(coef[j])))) for j in range(n) if float(coef[j]) != 0]
                       or [z3.RealVal(0)])
            r = z3.RealVal(str(Fraction(float(row['constant']))))
            if row['sense'] == '<=':
                cs.append(l <= r)
            elif row['sense'] == '==':
                cs.append(l == r)
            else:
                raise HarnessError('sense %r' % row['sense'])
        elif str(idx).startswith('QC'):
            q = z3.Sum([vs[j] * vs[j] * z3.RealVal(str(Fraction(float(coef[j])))) for j in range(n) if float(coef[j]) != 0])
            cs.append(q <= z3.RealVal(str(Fraction(float(row['constant'])))))
        elif idx == 'UB':
            for j in range(n):
                if float(coef[j]) != np.inf:
                    cs.append(vs[j] <= z3.RealVal(str(Fraction(float(coef[j])))))
        elif idx == 'LB':
            for j in range(n):
                if float(coef[j]) != -np.inf:
                    cs.append(vs[j] >= z3.RealVal(str(Fraction(float(coef[j])))))
        elif idx == 'Type':
            types = [str(t) for t in coef]
        elif str(idx).startswith('EC') or str(idx).startswith('PSDC'):
            continue
        else:
            raise HarnessError('unknown row %r' % idx)
    if obj is None or types is None:
        raise HarnessError('Obj/Type rows missing')
    for j in range(n):
        if types[j] == 'B':
            cs += [vs[j] >= 0, vs[j] <= 1]
    return cs, obj, types


def replay(data, verbose=False):
    import random
    tier = 'thorough' if data['idx'] >= 11 else 'quick'
    for t in ('quick', 'thorough'):
        progs = programs(t, random.Random(data.get('seed', 0)))
        if data['idx'] < len(progs) and progs[data['idx']][0] == data['name']:
            break
    name, mk = progs[data['idx']]
    with quiet():
        m = mk()
        f = formula_of(m, bool(data.get('dual')))
    if 'point' not in data:
        if verbose:
            print(name, data.get('what'))
            print(f.lp_export()[:800])
        return True
    P = CProg(f)
    pt = data['point']
    in_formula = not P.check_point(pt, tol=Fraction(1, 10 ** 9), relax_int=True)
    if verbose:
        print('%s: point %s is %s the real formula; export (%s):' % (name, pt, 'inside' if in_formula else 'outside', data['which']))
        print(f.lp_export()[:800] if data['which'].startswith('lp') else f.show().to_string()[:800])
    return True
