"""C08 - do_math(primal=False) is a true dual: optimal values are negatives.

P = real do_math(), D = real do_math(primal=False), both read as exact-rational programs.
  (i)   weak duality over ALL feasible pairs:  exists x,y: P(x) /\\ D(y) /\\ c'x + d'y < 0   -> unsat
  (ii)  zero gap: LP: exact optima (z3 Optimize) satisfy opt(D) == -opt(P);
        SOC: exists x,y: P(x) /\\ D(y) /\\ c'x + d'y <= eps  -> sat
  (iii) D is solvable whenever P is feasible and bounded (status from the exact optimiser).
Bound patterns per variable (free, >=0, <=0, finite lower, finite upper, both, fixed at zero,
fixed at a non-zero value) are enumerated; equality and inequality rows; cone variables in one
or two cones; ro models (robust counterparts) as well.

Exponential-cone blocks (gcp.py:314-340).  RSOME states the dual cone through the primal one:
(u, v, w) in K_exp*  <=>  (d0, d1, d2) = (u - w, v, -u) in K_exp, and links d to the multipliers of the
primal triple.  The only fact about exp that weak duality needs is the pairing inequality
    (a, b, c) in K_exp  and  (d0, d1, d2) in K_exp   ==>   -d2*a + d1*b - (d0 + d2)*c >= 0
(the inner product of a cone point with a dual-cone point; for c, d2 > 0 it is  b*d1 >= c*d2*e^{a/c + d0/d2}
>= c*d2*(1 + a/c + d0/d2)).  Cone memberships occur only as hypotheses of the weak-duality query, so they
are replaced by their consequences (this inequality per primal/dual cone pair in order, b, c, d1, d2 >= 0):
unsat of the relaxed QF_NRA query proves weak duality for the true cone.  The zero gap and the solvability of
the dual are existential claims and are shown by witnesses (the real ECOS solutions of both real formulas,
checked against both programs with the true exp, tolerance 1e-6).
"""
from fractions import Fraction
import itertools
import numpy as np

from ..poly import z3mod
from ..cprog import CProg
from ..smt import HarnessError, fval
from ..harness import finding
from ..util import quiet

PROP = 'C08'
LEVEL = 'translation_validation'
TIMEOUT_MS = 30000

PATTERNS = ['free', 'ge0', 'le0', 'lo', 'hi', 'both', 'fix0', 'fixnz', 'lo0hi', 'lohi0', 'hineg', 'lopos', 'bothneg', 'bothpos',
            'hi2', 'lo2']

META = dict(
    functions=['rsome.lp.Model.do_math(primal=False)', 'rsome.socp.Model.do_math(primal=False)',
               'rsome.gcp.Model.do_math(primal=False) (no exp/LMI blocks)', 'rsome.ro.Model.do_math(primal=False)'],
    rule='one case = one model (bound-pattern tuple x row configuration, SOC member, or ro member); non-trivial = '
         'primal feasible and bounded (exact optimiser) so that the precondition of the property holds; distinct by name',
    bounds='LP: <= 3 variables, every tuple of the 16 bound patterns for 2 variables (quick) / 3 variables (thorough, '
           'seeded subset), 1-3 rows mixing <=, >=, ==; SOC: norm-2/sumsqr/rsocone members with shared cone variables; '
           'ro: members of the C01 core family with LP/SOC counterparts',
    outside='LMI dual blocks (gcp.py:341-373); exponential-cone blocks: weak duality is decided for all feasible pairs '
            '(relaxed QF_NRA), the zero gap only at the ECOS witnesses (tolerance 1e-6)',
    assumptions=['LP strong duality is not assumed: optima of both programs are computed exactly and compared',
                 'exp-cone pairing inequality <(a,b,c),(u,v,w)> >= 0 for K_exp x K_exp* (textbook fact about exp), '
                 'instantiated for the i-th primal cone with the i-th dual cone'],
)


def lp_desc(spec):
    pats, rows, c = spec['pats'], spec['rows'], spec['c']

    def build():
        from rsome import ro
        m = ro.Model()
        n = len(pats)
        x = m.dvar(n)
        for i, p in enumerate(pats):
            if p == 'ge0':
                m.st(x[i] >= 0)
            elif p == 'le0':
                m.st(x[i] <= 0)
            elif p == 'lo':
                m.st(x[i] >= -1.5)
            elif p == 'hi':
                m.st(x[i] <= 2.5)
            elif p == 'both':
                m.st(x[i] >= -1.0, x[i] <= 2.0)
            elif p == 'fix0':
                m.st(x[i] >= 0, x[i] <= 0)
            elif p == 'fixnz':
                m.st(x[i] >= 0.5, x[i] <= 0.5)
            elif p == 'lo0hi':
                m.st(x[i] >= 0, x[i] <= 3.0)
            elif p == 'lohi0':
                m.st(x[i] >= -3.0, x[i] <= 0)
            elif p == 'hineg':
                m.st(x[i] <= -0.5)
            elif p == 'lopos':
                m.st(x[i] >= 0.5)
            elif p == 'bothneg':
                m.st(x[i] >= -3.0, x[i] <= -1.0)
            elif p == 'bothpos':
                m.st(x[i] >= 1.0, x[i] <= 3.0)
            elif p == 'hi2':
                m.st(x[i] <= 1.5)
                m.st(x[i] <= 2.5)          # a second, looser bound object on the same entry
            elif p == 'lo2':
                m.st(x[i] >= -0.5)
                m.st(x[i] >= -2.0)
        for (a, s, b) in rows:
            e = (np.array(a, dtype=float) * x).sum()
            m.st(e <= b if s == 'le' else (e >= b if s == 'ge' else e == b))
        m.min((np.array(c, dtype=float) * x).sum())
        return m
    return build


def soc_desc(k):
    def build():
        from rsome import ro
        import rsome as rso
        m = ro.Model()
        x = m.dvar(3)
        if k == 0:
            m.st(rso.norm(x, 2) <= 2, x[0] >= -1)
            m.min((np.array([1.0, -1.0, 0.5]) * x).sum())
        elif k == 1:
            t = m.dvar()
            m.st(rso.norm(x - np.array([1.0, 0, 0]), 2) <= t, t <= 3, x.sum() >= 1)
            m.min(t + x[2] * 0.5)
        elif k == 2:
            m.st(rso.sumsqr(x) <= 4, x[1] >= 0.5, x[0] + x[1] == 1)
            m.min(x[2] - x[0])
        elif k == 3:
            y = m.dvar()
            z = m.dvar()
            m.st(rso.rsocone(x[0:2], y, z), y <= 2, z <= 1.5, x[2] == 0.25)
            m.min(-x[0] - 0.5 * x[1] + x[2])
        elif k == 4:
            m.st(rso.norm(x[0:2], 2) <= x[2], rso.norm(x[1:3], 2) <= 2.5, x[2] <= 2, x[0] >= 0.5, x[0] <= 0.5)
            m.min(-x[0] - x[1])
        elif k == 5:
            m.st(rso.square(x[0:2]) <= np.array([1.0, 2.0]), x[2] >= -1, x[2] <= 1)
            m.min(x.sum())
        return m
    return build


def exp_desc(k):
    def build():
        from rsome import ro
        import rsome as rso
        m = ro.Model()
        x = m.dvar(3)
        if k == 0:
            m.st(rso.exp(x[1]) <= x[0], x[1] >= 0.5, x[2] == 1)
            m.min(x[0] + x[2])
        elif k == 1:
            m.st(rso.log(x[0]) >= x[1], x[0] <= 4, x[2] >= 0, x[2] <= 1)
            m.max(x[1] - x[2])
        elif k == 2:
            m.st(rso.expcone(x[0], x[1], x[2]), x[1] >= -1, x[2] >= 0.5, x[2] <= 2)
            m.min(x[0] - 0.5 * x[1] + 0.25 * x[2])
        elif k == 3:
            m.st(rso.pexp(x[1], x[2]) <= x[0], x[1] >= 0.25, x[2] >= 1, x[2] <= 3)
            m.min(x[0] + x[2] * 0.5)
        elif k == 4:
            # exponential and second-order cones together (the keep_idx branch of the dual)
            m.st(rso.exp(x[1]) <= x[0], rso.norm(x[1:3], 2) <= 1.5, x[1] + x[2] >= 1)
            m.min(x[0] - x[2])
        elif k == 5:
            m.st(rso.softplus(x[0:1]) <= x[1], x[0] >= 0.5, x[2] == 0)
            m.min(x[1] + x[2])
        elif k == 6:
            m.st(rso.entropy(x[0:2]) >= 0.5, x[0] + x[1] == 1, x >= 0, x[2] <= 1)
            m.min(x[0] - x[2])
        elif k == 7:
            m.st(rso.entropy(x) >= 0.5, x.sum() == 1, x >= 0)
            m.min(x[0] - x[1])
        elif k == 8:
            m.st(rso.kldiv(x, np.array([0.25, 0.25, 0.5]), 0.125), x.sum() == 1, x >= 0)
            m.min(x[0] - 2 * x[1])
        elif k == 9:
            m.st(rso.exp(x[0:2]).sum() <= x[2], x[0] - x[1] == 0.5, x[0] >= -1)
            m.min(x[2] - x[1])
        elif k in (10, 11, 12):
            # robust model: second-order cones on the multipliers of a ball set (identity form for a plain ball, general
            # form for a scaled one) TOGETHER with exponential cones
            x4 = m.dvar(4)
            z = m.rvar(2)
            A = {10: np.eye(2), 11: np.diag([2.0, 1.0]), 12: np.array([[1.0, 0.5], [0.0, 2.0]])}[k]
            m.minmax(np.array([-2.0, -1.0, 0, 0]) @ x4 + z @ x4[:2], rso.norm(A @ z) <= 1)
            m.st(rso.exp(x4[0]) <= (2.0 if k == 10 else 0.25))
            m.st(rso.norm(x4, 1) <= 2.0)
        elif k in (13, 14, 15):
            # robust model over norm(A @ z) <= 1 with a ZERO row in A (a cone member without any coefficient) next to a row
            # with two unit coefficients: the cone rows of the LP dual are not an identity block
            A = {13: np.array([[1.0, 1.0], [0.0, 0.0]]), 14: np.array([[1.0, -1.0], [0.0, 0.0]]),
                 15: np.array([[1.0, 0.0, -1.0], [0.0, 0.0, 0.0]])}[k]
            n_ = A.shape[1]
            xx = m.dvar(n_)
            z = m.rvar(n_)
            m.min(-xx.sum())
            m.st(((1 + 0.5 * z) @ xx <= 2).forall(rso.norm(A @ z) <= 1, z >= -2, z <= 2))
            m.st(xx >= 0, xx <= 5)
        return m
    return build


EXP_QUICK = [0, 1, 2, 3, 4, 5, 6, 10, 11, 12, 13, 14, 15]
EXP_ALL = list(range(16))


def soc_paired(P, D):
    return len(P.qmat) == len(D.qmat) and all(len(a) == len(b) for a, b in zip(P.qmat, D.qmat))


def relaxed(C, vs, soc=True):
    """Linear rows, bounds, (optionally) second-order cones, and for each exponential-cone triple only
    b >= 0, c >= 0; with soc=False only head >= 0 is kept of each second-order cone."""
    cs = C.row_cons(vs) + C.bound_cons(vs)
    if soc:
        cs += C.soc_cons(vs)
    else:
        cs += [vs[q[0]] >= 0 for q in C.qmat]
    for (a, b, c) in C.xmat:
        cs += [vs[b] >= 0, vs[c] >= 0]
    return cs


def pairing(P, D, xs, ys, soc=False):
    """True facts about pairs of cone members (consequences of the dropped memberships):
    K_exp x K_exp (RSOME's image of the dual cone): -d2*a + d1*b - (d0+d2)*c >= 0;
    SOC x SOC: h*g +/- <u, v> >= 0 (Cauchy-Schwarz; the cone is symmetric in the tail)."""
    out = []
    for (a, b, c), (d0, d1, d2) in zip(P.xmat, D.xmat):
        out.append(-ys[d2] * xs[a] + ys[d1] * xs[b] - (ys[d0] + ys[d2]) * xs[c] >= 0)
    if soc:
        for qp, qd in zip(P.qmat, D.qmat):
            tail = sum(xs[i] * ys[j] for i, j in zip(qp[1:], qd[1:]))
            out.append(xs[qp[0]] * ys[qd[0]] + tail >= 0)
            out.append(xs[qp[0]] * ys[qd[0]] - tail >= 0)
    return out


def weak_duality_rlt(ses, P, D, name, kind, sample):
    """Weak duality of a conic pair by reformulation-linearisation: products of the rows of P with the rows of D (this is
    the textbook proof y'(Ax - b)), cone memberships replaced by the pairing inequalities; QF_LRA.  True iff proved."""
    from ..tv import whole, block_polys, block_socs, pairing_poly, rlt_refute
    from ..poly import Poly
    if len(P.xmat) != len(D.xmat) or not soc_paired(P, D):
        return False
    bp, bd = whole(P), whole(D)
    G1, H1, c1 = block_polys(P, bp, 'x')
    G2, H2, c2 = block_polys(D, bd, 'y')
    if len(G1) * len(G2) + len(H1) * D.n + len(H2) * P.n > 6000:
        return False            # the linearised system would be too large for exact simplex (z3 does not poll its timer there)
    pairs = [pairing_poly(a, b) for a, b in zip(c1, c2)]
    for (h1, t1), (h2, t2) in zip(block_socs(P, bp, 'x'), block_socs(D, bd, 'y')):
        dot = sum((a * b for a, b in zip(t1, t2)), Poly())
        pairs += [h1 * h2 + dot, h1 * h2 - dot]
    obj = sum((Poly.var('x%d' % j) * c for j, c in enumerate(P.obj) if c != 0), Poly()) + \
        sum((Poly.var('y%d' % j) * c for j, c in enumerate(D.obj) if c != 0), Poly())
    (res, _), lincs = rlt_refute(ses, G1, H1, ['x%d' % j for j in range(P.n)], G2, H2, ['y%d' % j for j in range(D.n)],
                                 pairs, [-obj], name + '/weak-duality', timeout_ms=30000)
    if res != 'unsat':
        return False
    st = ses.stats
    st.obligations += 1
    st.kinds[kind] = st.kinds.get(kind, 0) + 1
    st.twins += 1
    r2, _ = (ses.solve_external if len(lincs) > 800 else ses.solve)(
        lincs, timeout_ms=30000, tactic=('simplify', 'solve-eqs', 'smt'), label=name + '/weak-duality/rlt-twin')
    if r2 == 'sat':
        st.twins_ok += 1
    elif r2 == 'unsat':
        raise HarnessError('vacuous weak-duality obligation (rlt): %s' % name)
    st.discharged += 1
    if len(st.samples) < 12:
        st.samples.append(dict(label=name + '/weak-duality', kind=kind, result='unsat', via='rlt', linear_constraints=len(lincs),
                               **sample))
    return True


def run_exp(case, ses, m, fp, fd, P, D):
    z3 = z3mod()
    name = case['name']
    if P.lmi or len(P.xmat) != len(D.xmat):
        finding_or = 'the dual formula has %d exponential cones, the primal %d' % (len(D.xmat), len(P.xmat))
        data = dict(case=case, primal='?', dual='?', dual_status=finding_or)
        if replay(data):
            finding(ses, 'C08:%s:gap' % name, '%s: %s' % (name, finding_or), data, 'rsv.props.c08:replay')
            return
        raise HarnessError('%s: %s, but the real solver sees no gap' % (name, finding_or))
    xs = P.z3vars(relax=True)
    ys = D.z3vars()
    # witnesses: the real ECOS solutions of the real formulas
    w = exp_witness(fp, fd, P, D)
    ses.stats.obligations += 1
    ses.stats.kinds['exp-zero-gap-witness'] = ses.stats.kinds.get('exp-zero-gap-witness', 0) + 1
    if w['vp'] is None:
        ses.stats.obligations -= 1
        ses.stats.kinds['precondition-not-met'] = ses.stats.kinds.get('precondition-not-met', 0) + 1
        return
    ses.stats.nontrivial.add(name)
    sample = dict(model=name, primal=P.summary(), dual=D.summary(), primal_opt=w['vp'], dual_opt=w['vd'])
    if w['vd'] is None or abs(w['vd'] + w['vp']) > 1e-6 * (1 + abs(w['vp'])) or w['bad']:
        data = dict(case=case, primal=str(w['vp']), dual=str(w['vd']), dual_status='ecos')
        if w['vd'] is not None and not w['bad'] and replay(data):
            finding(ses, 'C08:%s:gap' % name, '%s: primal optimum %r, dual formula optimum %r (expected %r)'
                    % (name, w['vp'], w['vd'], -w['vp']), data, 'rsv.props.c08:replay')
            return
        ses.stats.undecided += 1
        ses.stats.notes.append('%s: no usable ECOS witness for the dual (%s)' % (name, w['bad'] or 'not solved'))
    else:
        ses.stats.discharged += 1
        if len(ses.stats.samples) < 8:
            ses.stats.samples.append(sample)
    # weak duality for ALL feasible pairs of the true programs (relaxation: see module docstring)
    if weak_duality_rlt(ses, P, D, name, 'exp-weak-duality', sample):
        return
    drop = bool(P.qmat) and soc_paired(P, D)
    hyp = relaxed(P, xs, not drop) + relaxed(D, ys, not drop) + pairing(P, D, xs, ys, drop)
    neg = [P.obj_term(xs) + D.obj_term(ys) < 0]
    small = len(P.xmat) <= 1
    to = 20000 if ses.tier == 'quick' else 120000
    res, model = ses.oblige(name + '/weak-duality/nlsat', hyp, neg, kind='exp-weak-duality', core=small, sample=sample,
                            twin=True, timeout_ms=to, tactic=('simplify', 'solve-eqs', 'qfnra-nlsat'))
    if res == 'unknown':
        ses.retract(name + '/weak-duality/nlsat', 'exp-weak-duality', small)
        res, model = ses.oblige(name + '/weak-duality', hyp, neg, kind='exp-weak-duality', core=small, sample=sample,
                                twin=True, timeout_ms=to)
    if res == 'sat':
        # the relaxation admits the pair; it is a violation only if the real programs do (true exp)
        data = dict(case=case, x=[float(fval(model, v)) for v in xs], y=[float(fval(model, v)) for v in ys])
        if replay(data):
            finding(ses, 'C08:%s:weak' % name, '%s: feasible pair with c\'x + d\'y < 0 (weak duality fails)' % name,
                    data, 'rsv.props.c08:replay')
        else:
            gap = dict(case=case, primal=str(w['vp']), dual=str(w['vd']), dual_status='ecos')
            if w['vd'] is not None and replay(gap):
                finding(ses, 'C08:%s:gap' % name, '%s: primal optimum %r, dual formula optimum %r (expected %r)'
                        % (name, w['vp'], w['vd'], -w['vp']), gap, 'rsv.props.c08:replay')
            else:
                ses.stats.discharged -= 0
                ses.stats.undecided += 1
                ses.stats.notes.append('%s: relaxed weak-duality query has a model that is not a real pair (undecided)' % name)


def exp_witness(fp, fd, P, D):
    with quiet():
        from rsome import eco_solver as S
        try:
            sp = S.solve(fp, display=False)
        except Exception:
            sp = None
        try:
            sd = S.solve(fd, display=False)
        except Exception:
            sd = None
    out = dict(vp=None, vd=None, bad='')
    if sp is not None and sp.x is not None:
        out['vp'] = float(sp.objval)
        bad = P.check_point(sp.x, relax_int=True)
        if bad:
            out['bad'] += 'primal witness infeasible %s ' % (bad[:2],)
    if sd is not None and sd.x is not None:
        out['vd'] = float(sd.objval)
        bad = D.check_point(sd.x)
        if bad:
            out['bad'] += 'dual witness infeasible %s' % (bad[:2],)
    return out


def ro_desc(name):
    def build():
        from ..rogen import core_specs, expset_specs, desc_from_spec
        from ..models import RealRO
        spec = [s for s in core_specs() + expset_specs() if s['name'] == name][0]
        r = RealRO()
        desc_from_spec(spec)(r)
        return r.m
    return build


def det_desc(name):
    def build():
        from .. import detgen
        from ..models import RealRO
        spec = [s for s in detgen.core_specs() if s['name'] == name][0]
        r = RealRO(None, spec.get('front', 'ro'))
        detgen.desc_from_spec(spec)(r)
        return r.m
    return build


def dro_desc(name):
    def build():
        from ..drogen import lookup
        from ..dromodels import RealDRO
        r = RealDRO()
        lookup(name)(r)
        return r.m
    return build


RO_MEMBERS = ['static-box', 'static-box-zero-lb', 'static-box-zero-ub', 'static-box-negative', 'static-norm1', 'ldr-full',
              'static-ball', 'static-lifted', 'min-forall', 'static-ellipsoid-wide', 'static-ellipsoid-narrow', 'static-ball3',
              'static-box-overlap', 'vector-rows-mixed-zero']


def cases(tier, seed, rnd):
    cs = []
    rowsets = [
        [([1, 1], 'le', 4), ([1, -1], 'ge', -3)],
        [([1, 2], 'eq', 1), ([1, -1], 'le', 3)],
        [([2, 1], 'ge', -2), ([1, 1], 'le', 5), ([1, -2], 'eq', 0.5)],
    ]
    costs = [[1, 2], [-1, 1], [1, -1]]
    k = 0
    for pats in itertools.product(PATTERNS, repeat=2):
        rows = rowsets[k % len(rowsets)]
        c = costs[k % len(costs)]
        k += 1
        cs.append(dict(kind='lp', name='lp2-%s-%s-r%d' % (pats[0], pats[1], k % len(rowsets)),
                       pats=list(pats), rows=rows, c=c))
    n3 = 40 if tier == 'quick' else 500
    for i in range(n3):
        pats = [rnd.choice(PATTERNS) for _ in range(3)]
        nr = rnd.choice([1, 2, 3])
        rows = [([rnd.choice([-2, -1, 0, 1, 2]) for _ in range(3)], rnd.choice(['le', 'ge', 'eq', 'le']),
                 rnd.choice([-2, -0.5, 0, 1, 2.5, 4])) for _ in range(nr)]
        c = [rnd.choice([-2, -1, 0, 1, 2]) for _ in range(3)]
        cs.append(dict(kind='lp', name='lp3-%d-%s' % (i, '-'.join(pats)), pats=pats, rows=rows, c=c))
    for k in range(6):
        cs.append(dict(kind='soc', name='soc%d' % k, k=k))
    for nm in RO_MEMBERS:
        cs.append(dict(kind='ro', name='ro-' + nm, member=nm))
    for k in (EXP_QUICK if tier == 'quick' else EXP_ALL):
        cs.append(dict(kind='exp', name='exp%d' % k, k=k))
    # every member of the ro core family, the dro families and the deterministic atom family as well
    from ..rogen import core_specs, expset_specs
    from ..drogen import members, kl_members
    from .. import detgen
    for sp_ in core_specs() + expset_specs():
        if 'ro-' + sp_['name'] not in [c['name'] for c in cs] and not sp_.get('tol'):
            cs.append(dict(kind='ro', name='ro-' + sp_['name'], member=sp_['name']))
    for nm in list(members()) + list(kl_members()):
        cs.append(dict(kind='dro', name='dro-' + nm, member=nm))
    det = [sp_ for sp_ in detgen.core_specs() if sp_.get('front', 'ro') == 'ro' or tier != 'quick']
    if tier == 'quick':
        det = [sp_ for sp_ in det if sp_['form'] in ('le', 'obj', 'cons', 'bcast_scaled', 'tight_first', 'vector_y', 'var_r')]
    for sp_ in det:
        cs.append(dict(kind='det', name='det-' + sp_['name'], member=sp_['name']))
    return cs


def builder(case):
    if case['kind'] == 'lp':
        return lp_desc(case)
    if case['kind'] == 'soc':
        return soc_desc(case['k'])
    if case['kind'] == 'exp':
        return exp_desc(case['k'])
    if case['kind'] == 'det':
        return det_desc(case['member'])
    if case['kind'] == 'dro':
        return dro_desc(case['member'])
    return ro_desc(case['member'])


def run_case(case, ses):
    z3 = z3mod()
    name = case['name']
    try:
        with quiet():
            m = builder(case)()
            fp = m.do_math()
            fd = m.do_math(primal=False)
    except HarnessError:
        raise
    except Exception as e:
        from ..drogen import MAY_RAISE
        if (case['kind'] == 'dro' and case.get('member') in MAY_RAISE) or \
                (case['kind'] == 'det' and case.get('member', '').split('-')[0].split(':')[-1] in ('sumpexp', 'sumplog', 'sumexpnest')):
            # members RSOME may refuse loudly
            ses.stats.kinds['member-rejected-by-rsome'] = ses.stats.kinds.get('member-rejected-by-rsome', 0) + 1
            return
        raise
    P = CProg(fp, 'x')
    D = CProg(fd, 'y')
    ses.stats.programs += 1
    if any(t != 'C' for t in P.vtype) and (P.qmat or P.xmat):
        # the property is about continuous programs; for a mixed-integer conic program do_math(primal=False) is the dual
        # of the continuous relaxation (RSOME warns), whose value is not minus the integer optimum
        ses.stats.kinds['mixed-integer-conic-skipped'] = ses.stats.kinds.get('mixed-integer-conic-skipped', 0) + 1
        return
    if P.xmat or D.xmat or P.lmi:
        if P.lmi:
            ses.stats.notes.append('%s: LMI blocks - outside the bound' % name)
            return
        return run_exp(case, ses, m, fp, fd, P, D)
    xs = P.z3vars(relax=True)
    ys = D.z3vars()
    Pc = P.constraints(xs)
    Dc = D.constraints(ys)
    px, dy = P.obj_term(xs), D.obj_term(ys)
    lp = not P.qmat and not D.qmat
    # precondition: primal feasible and bounded
    if lp:
        sp, vp = ses.optimum(Pc, px, label=name + '/optP')
    else:
        sp, vp = soc_status(ses, case, m, Pc)
    if sp != 'optimal':
        ses.stats.kinds['precondition-not-met'] = ses.stats.kinds.get('precondition-not-met', 0) + 1
        return
    ses.stats.nontrivial.add(name)
    sample = dict(model=name, primal=P.summary(), dual=D.summary(), primal_opt=str(vp))
    # (iii) dual solvable / (ii) zero gap
    if lp:
        sd, vd = ses.optimum(Dc, dy, label=name + '/optD')
        ses.stats.obligations += 1
        ses.stats.kinds['lp-zero-gap'] = ses.stats.kinds.get('lp-zero-gap', 0) + 1
        if sd == 'unknown':
            ses.stats.undecided += 1
            ses.stats.core_undecided += 1
        elif sd != 'optimal' or vd != -vp:
            data = dict(case=case, primal=str(vp), dual=str(vd), dual_status=sd)
            if replay(data):
                finding(ses, 'C08:%s:gap' % bucket(case), '%s: primal optimum %s, dual formula is %s with value %s (expected %s)'
                        % (name, vp, sd, vd, -vp), data, 'rsv.props.c08:replay')
            else:
                raise HarnessError('dual gap does not reproduce with the real solver: %s' % name)
            return
        else:
            ses.stats.discharged += 1
            if len(ses.stats.samples) < 8:
                ses.stats.samples.append(dict(sample, dual_opt=str(vd)))
    # (i) weak duality for all feasible pairs
    res = None
    if not lp and weak_duality_rlt(ses, P, D, name, 'weak-duality', sample):
        res = 'unsat'
    elif not lp and soc_paired(P, D):
        # cone-pairing relaxation: memberships are only hypotheses here, so they may be replaced by consequences
        hyp = relaxed(P, xs, False) + relaxed(D, ys, False) + pairing(P, D, xs, ys, True)
        res, model = ses.oblige(name + '/weak-duality/paired', hyp, [px + dy < 0], kind='weak-duality', core=False,
                                sample=sample, twin=True, timeout_ms=10000, tactic=('simplify', 'solve-eqs', 'qfnra-nlsat'))
        if res == 'unknown':
            ses.retract(name + '/weak-duality/paired', 'weak-duality', False)
        elif res == 'sat':
            ses.stats.obligations -= 1          # a model of the relaxation proves nothing: decide the full query
            ses.stats.kinds['weak-duality'] -= 1
    if res != 'unsat':
        res, model = ses.oblige(name + '/weak-duality', Pc + Dc, [px + dy < 0], kind='weak-duality',
                                core=lp, sample=sample, twin=True,
                                timeout_ms=(None if lp else (10000 if ses.tier == 'quick' else 60000)))
    if res == 'sat':
        data = dict(case=case, x=[float(fval(model, v)) for v in xs], y=[float(fval(model, v)) for v in ys])
        if replay(data):
            finding(ses, 'C08:%s:weak' % bucket(case), '%s: feasible pair with c\'x + d\'y < 0 (weak duality fails)' % name,
                    data, 'rsv.props.c08:replay')
        else:
            raise HarnessError('weak-duality counterexample does not reproduce: %s' % name)
        return
    if not lp:
        # zero gap and dual solvability are existential claims: witnesses first (the real ECOS solutions of both real
        # formulas, checked against the exact programs, tolerance 1e-6); the exact query only if there is no witness
        w = exp_witness(fp, fd, P, D)
        res = None
        if w['vp'] is not None and w['vd'] is not None and not w['bad']:
            ses.stats.obligations += 1
            ses.stats.kinds['soc-zero-gap-witness'] = ses.stats.kinds.get('soc-zero-gap-witness', 0) + 1
            if abs(w['vp'] + w['vd']) <= 1e-6 * (1 + abs(w['vp'])):
                ses.stats.discharged += 1
                return
            data = dict(case=case, primal=str(w['vp']), dual=str(w['vd']), dual_status='ecos')
            if abs(w['vp'] + w['vd']) > 1e-5 * (1 + abs(w['vp'])) and replay(data):
                finding(ses, 'C08:%s:gap' % bucket(case), '%s: primal optimum %r, dual formula optimum %r (expected %r)'
                        % (name, w['vp'], w['vd'], -w['vp']), data, 'rsv.props.c08:replay')
                return
            ses.stats.obligations -= 1
            ses.stats.kinds['soc-zero-gap-witness'] -= 1
        eps = Fraction(1, 10 ** 4) * (1 + abs(vp))
        res, _ = ses.expect_sat(name + '/zero-gap', Pc + Dc + [px + dy <= z3.RealVal(str(eps))], kind='soc-zero-gap',
                                core=False)
        if res == 'unsat':
            data = dict(case=case, primal=str(vp), dual='gap', dual_status='gap>eps')
            if replay(data):
                finding(ses, 'C08:%s:gap' % bucket(case), '%s: no primal/dual pair closes the duality gap' % name,
                        data, 'rsv.props.c08:replay')
            else:
                raise HarnessError('SOC gap does not reproduce: %s' % name)


def bucket(case):
    """Key used for known findings: the branch of the dualisation that is exercised."""
    if case['kind'] == 'lp':
        return 'lp:' + ('fixnz' if 'fixnz' in case['pats'] else case['name'])
    return case['name']


def soc_status(ses, case, m, Pc):
    """Feasible and bounded?  Use the real ECOS solve as the witness for boundedness, z3 for feasibility."""
    r, _ = ses.solve(Pc, label=case['name'] + '/feas')
    if r != 'sat':
        return 'infeasible', None
    with quiet():
        from rsome import eco_solver
        m.solve(eco_solver, display=False)
    try:
        v = m.get()
    except Exception:
        return 'unknown', None
    return 'optimal', Fraction(float(v)).limit_denominator(10 ** 9)


def replay(data, verbose=False):
    """Solve the real primal and the real dual formula with real solvers and compare."""
    case = data['case']
    with quiet():
        m = builder(case)()
        fp = m.do_math()
        fd = m.do_math(primal=False)
        if getattr(fp, 'qmat', None) or getattr(fd, 'qmat', None) or getattr(fp, 'xmat', None) or getattr(fd, 'xmat', None):
            from rsome import eco_solver as S
            sp, sd = S.solve(fp, display=False), S.solve(fd, display=False)
        else:
            from rsome.lp import def_sol
            sp, sd = def_sol(fp, display=False), def_sol(fd, display=False)
    vp = None if sp is None or sp.x is None else float(sp.objval)
    vd = None if sd is None or sd.x is None else float(sd.objval)
    if verbose:
        print('%s: real primal optimum %r, real dual-formula optimum %r (expected %r)'
              % (case['name'], vp, vd, None if vp is None else -vp))
    if 'x' in data:
        P, D = CProg(fp), CProg(fd)
        okp = not P.check_point(data['x'], relax_int=True)
        okd = not D.check_point(data['y'])
        gap = float(sum(float(c) * v for c, v in zip(P.obj, data['x'])) + sum(float(c) * v for c, v in zip(D.obj, data['y'])))
        if verbose:
            print('  pair feasible for the real formulas: %s/%s, c\'x + d\'y = %.6g' % (okp, okd, gap))
        return okp and okd and gap < -1e-9
    if vp is None:
        return False
    return vd is None or abs(vd + vp) > 1e-6 * (1 + abs(vp))
