"""C11 - all solver interfaces solve the same program and agree.

The interface code hands data to C libraries and is executed concretely on generated programs;
what the SMT solver decides is the CERTIFICATE for each (program, interface) pair, against the
exact-rational reading P of the real compiled formula:
  (a) feasibility: exists v: P(v) /\\ |v - x*|_inf <= tol (integrality included)           -> sat
  (b) optimality:  exists v: P(v) /\\ c'v < objval - tol                                   -> unsat
                   and |c'x* - objval| <= tol
  (c) infeasible / unbounded programs (decided by z3): the interface reports NaN / None and
      get() raises.
Agreement between interfaces follows from (b).
"""
from fractions import Fraction
import numpy as np

from ..poly import z3mod
from ..cprog import CProg
from ..smt import HarnessError, fval
from ..harness import finding
from ..util import quiet

PROP = 'C11'
LEVEL = 'translation_validation'
TIMEOUT_MS = 30000

META = dict(
    functions=['rsome.lp.def_sol', 'rsome.ort_solver.solve', 'rsome.grb_solver.solve', 'rsome.eco_solver.solve',
               'rsome.ro.Model.solve/get', 'rsome.lp.Model.get'],
    rule='one case = one generated program; it is solved through every installed interface that supports its cone '
         'types, each on a freshly built model; non-trivial = at least one interface returned a solution and its '
         'optimality certificate was decided; distinct by program name',
    bounds='LP <= 4 columns / 3 rows; MILP with binaries/integers and user bounds incl. bounds cutting into [0,1] and '
           'fixing binaries; SOCP with <= 2 cones; infeasible and unbounded members; display on/off',
    outside='the C libraries themselves; exp-cone programs (ECOS only: feasibility of the returned point is checked '
            'with float exp, no optimality certificate); MOSEK/CPLEX/COPT/CLP (not installed)',
    assumptions=['tol = 1e-6 (1 + |value|) for LP/MILP, 1e-4 for interior-point SOC solutions'],
)

IFACES = ['default', 'ort', 'grb', 'eco']


def get_solver(name):
    if name == 'default':
        return None
    import importlib
    return importlib.import_module('rsome.%s_solver' % name)


def programs(tier, rnd):
    ps = []
    # --- hand-written members
    ps.append(dict(name='bin-ub0', kind='milp', n=2, vt='B', c=[-1, -1], rows=[], lo=[None, None], hi=[0, None]))
    ps.append(dict(name='bin-lb1', kind='milp', n=2, vt='B', c=[1, 1], rows=[], lo=[1, None], hi=[None, None]))
    ps.append(dict(name='bin-cut', kind='milp', n=3, vt='B', c=[-2, -1, -3], rows=[([1, 1, 1], 'le', 2)],
                   lo=[None, 0.5, None], hi=[None, None, 0.5]))
    ps.append(dict(name='int-bounds', kind='milp', n=2, vt='I', c=[-1, -2], rows=[([2, 3], 'le', 7.5)],
                   lo=[-1.5, 0], hi=[2.5, None]))
    # fractional bounds of integer / binary columns that BIND at the optimum (both rounding directions matter)
    ps.append(dict(name='int-frac-lb', kind='milp', n=2, vt='I', c=[3, 2], rows=[([1, 1], 'ge', 3.5)],
                   lo=[1.5, 0.5], hi=[6, 4.4]))
    ps.append(dict(name='int-frac-ub', kind='milp', n=2, vt='I', c=[-3, -2], rows=[([1, 1], 'le', 7.5)],
                   lo=[-2.5, 0], hi=[2.5, 3.4]))
    ps.append(dict(name='bin-frac-lb', kind='milp', n=3, vt='B', c=[4, 1, 2], rows=[([1, 1, 1], 'ge', 1)],
                   lo=[0.5, None, None], hi=[None, None, 0.5]))
    ps.append(dict(name='mixed-frac', kind='milp', n=3, vt='M', c=[1, 2, 3], rows=[([1, 1, 1], 'ge', 2.25)],
                   lo=[0.25, 0.5, 0.5], hi=[3.5, 2.5, None]))
    # integer AND binary columns in one program, the binaries without any user bound and rewarded for leaving [0, 1]
    ps.append(dict(name='mixed-free-binary-neg', kind='milp', n=3, vt='M', c=[1, 1, 2], rows=[([1, 1, 2], 'ge', 1.5)],
                   lo=[0, 0, None], hi=[3, 3, None]))
    ps.append(dict(name='mixed-free-binary-pos', kind='milp', n=3, vt='M', c=[1, 1, -2], rows=[([1, 1, -1], 'ge', 0.5)],
                   lo=[0, 0, None], hi=[3, 3, None]))
    ps.append(dict(name='lp-basic', kind='lp', n=3, vt='C', c=[1, 2, -1], rows=[([1, 1, 1], 'ge', 1), ([1, -1, 0], 'eq', 0.5)],
                   lo=[0, -1, None], hi=[None, 2, 3]))
    ps.append(dict(name='lp-infeasible', kind='lp', n=2, vt='C', c=[1, 1], rows=[([1, 1], 'le', -1)], lo=[0, 0], hi=[None, None]))
    ps.append(dict(name='lp-unbounded', kind='lp', n=2, vt='C', c=[-1, 0], rows=[([1, -1], 'le', 1)], lo=[0, 0], hi=[None, None]))
    # unbounded along an integer ray: heuristics of a MIP solver find incumbents before the ray is proven
    ps.append(dict(name='milp-unbounded-ray', kind='milp', n=2, vt='I', c=[1, -1], rows=[([1, -2], 'le', 4)], lo=[0, 0],
                   hi=[None, None], integer_ray=True))
    ps.append(dict(name='milp-unbounded-ray-mixed', kind='milp', n=3, vt='M', c=[-1, -1, 0.5], rows=[([1, -1, 1], 'le', 2)],
                   lo=[0, 0, None], hi=[None, None, None], integer_ray=True))
    ps.append(dict(name='milp-infeasible', kind='milp', n=2, vt='I', c=[1, 1], rows=[([2, 2], 'eq', 3)], lo=[0, 0], hi=[5, 5]))
    ps.append(dict(name='soc-basic', kind='soc', k=0))
    ps.append(dict(name='soc-two-cones', kind='soc', k=1))
    ps.append(dict(name='soc-infeasible', kind='soc', k=2))
    # exponential-cone models through soc_solve(): the program every SOC-capable interface receives is the real to_socp() output
    ps.append(dict(name='socx-exp', kind='socx', k=0))
    ps.append(dict(name='socx-log-utility', kind='socx', k=1))
    # market-split members: branch and bound needs thousands of nodes (iteration limits of an interface become visible)
    for i in range(2 if tier == 'quick' else 8):
        ps.append(dict(name='msplit%d' % i, kind='msplit', n=18, k=3, seed=100 + i))
    n = 14 if tier == 'quick' else 200
    for i in range(n):
        kind = rnd.choice(['lp', 'milp', 'milp'])
        nv = rnd.choice([2, 3, 4])
        vt = 'C' if kind == 'lp' else rnd.choice(['B', 'I', 'M'])
        rows = [([rnd.choice([-2, -1, 0, 1, 2, 3]) for _ in range(nv)], rnd.choice(['le', 'le', 'ge', 'eq']),
                 rnd.choice([0.5, 1, 2.5, 4, -1])) for _ in range(rnd.choice([1, 2, 3]))]
        lo = [rnd.choice([None, 0, -1, -2.5, 0.5]) if vt != 'B' else rnd.choice([None, None, 0, 1, 0.5]) for _ in range(nv)]
        hi = [rnd.choice([None, 1, 2, 3.5]) if vt != 'B' else rnd.choice([None, None, 1, 0, 0.5]) for _ in range(nv)]
        if kind == 'milp' and vt != 'B':
            lo = [l if l is not None else -3 for l in lo]
            hi = [h if h is not None else 4 for h in hi]
        ps.append(dict(name='rand%d-%s-%s' % (i, kind, vt), kind=kind, n=nv, vt=vt,
                       c=[rnd.choice([-2, -1, 1, 2, 0.5]) for _ in range(nv)], rows=rows, lo=lo, hi=hi))
    return ps


def build(p):
    from rsome import ro
    import rsome as rso
    m = ro.Model()
    if p['kind'] == 'soc':
        x = m.dvar(3)
        if p['k'] == 0:
            m.st(rso.norm(x, 2) <= 2, x[0] >= 0.5)
            m.min((np.array([1.0, -1.0, 0.5]) * x).sum())
        elif p['k'] == 1:
            t = m.dvar()
            m.st(rso.norm(x[0:2], 2) <= t, rso.sumsqr(x[1:3]) <= 4, t <= 3, x.sum() >= 1)
            m.min(t - x[2])
        else:
            m.st(rso.norm(x, 2) <= 1, x[0] >= 2)
            m.min(x.sum())
        return m
    if p['kind'] == 'socx':
        if p['k'] == 0:
            x = m.dvar()
            m.st(rso.exp(x) <= 5, x >= -2)
            m.min(-1.0 * x)
        else:
            x = m.dvar(2)
            t = m.dvar(2)
            m.st(t <= rso.log(x), x[0] + 2 * x[1] <= 4, x <= 6, t >= -5)
            m.min(-1.0 * t.sum())
        return m
    if p['kind'] == 'msplit':
        import random
        r = random.Random(p['seed'])
        A = np.array([[float(r.randint(10, 99)) for _ in range(p['n'])] for _ in range(p['k'])])
        b = np.floor(A.sum(axis=1) / 2)
        x = m.dvar(p['n'], 'B')
        s_ = m.dvar(p['k'])
        m.st(A @ x - b <= s_, b - A @ x <= s_)
        m.min(s_.sum())
        return m
    n = p['n']
    vt = p['vt']
    if vt == 'M':
        vt = ''.join('CIB'[i % 3] for i in range(n))
    x = m.dvar(n, vt)
    for i in range(n):
        if p['lo'][i] is not None:
            m.st(x[i] >= p['lo'][i])
        if p['hi'][i] is not None:
            m.st(x[i] <= p['hi'][i])
    for a, s, b in p['rows']:
        e = (np.array(a, dtype=float) * x).sum()
        m.st(e <= b if s == 'le' else (e >= b if s == 'ge' else e == b))
    m.min((np.array(p['c'], dtype=float) * x).sum())
    return m


def supported(p, iface):
    if p['kind'] in ('soc', 'socx'):
        return iface in ('grb', 'eco')
    return True


def cases(tier, seed, rnd):
    return [dict(p=p) for p in programs(tier, rnd)]


def run_case(case, ses):
    z3 = z3mod()
    p = case['p']
    name = p['name']
    with quiet():
        m0 = build(p)
        f0 = m0.do_math()
        if p['kind'] == 'socx':
            f0 = f0.to_socp()
    P = CProg(f0)
    ses.stats.programs += 1
    vs = P.z3vars()
    Pc = P.constraints(vs)
    obj = P.obj_term(vs)
    # exact status
    if not P.qmat:
        if p.get('integer_ray'):
            # unbounded along an INTEGER direction (enumeration of better points would not end): z3 certificate = a feasible
            # point and an integral recession direction that improves the objective
            status, opt = unbounded_certificate(ses, P, vs, Pc, name), None
        else:
            status, opt = ses.optimum(Pc, obj, label=name + '/exact', ints=P.int_vars(vs))
    elif p['kind'] == 'socx':
        status, opt = 'optimal?', None
    else:
        r, _ = ses.solve(Pc, label=name + '/feas')
        status, opt = ('infeasible', None) if r == 'unsat' else ('optimal?', None)
    for iface in IFACES:
        if not supported(p, iface):
            continue
        for display in ((False, True) if iface == 'default' and ses.tier == 'thorough' else (False,)):
            check_iface(ses, p, P, vs, Pc, obj, status, opt, iface, display)


def unbounded_certificate(ses, P, vs, Pc, name):
    z3 = z3mod()
    d = [z3.Int('d%d' % j) if P.vtype[j] in 'BI' else z3.Real('d%d' % j) for j in range(P.n)]
    cone = []
    for coefs, const, sense in P.rows:
        t = z3.Sum([z3.RealVal(str(c)) * d[j] for j, c in coefs.items()]) if coefs else z3.RealVal(0)
        cone.append(t == 0 if sense == 1 else t <= 0)
    for j in range(P.n):
        if P.lb[j] is not None or P.vtype[j] == 'B':
            cone.append(d[j] >= 0)
        if P.ub[j] is not None or P.vtype[j] == 'B':
            cone.append(d[j] <= 0)
    cone.append(z3.Sum([z3.RealVal(str(c)) * d[j] for j, c in enumerate(P.obj)]) < 0)
    r, _ = ses.solve(list(Pc) + cone, label=name + '/ray')
    if r == 'sat':
        return 'unbounded'
    raise HarnessError('C11: member %s is declared unbounded along an integer ray but no certificate exists (%s)' % (name, r))


def check_iface(ses, p, P, vs, Pc, obj, status, opt, iface, display):
    z3 = z3mod()
    name = p['name']
    label = '%s@%s' % (name, iface)
    out = solve_in_child(p, iface, display, 25 if ses.tier == 'quick' else 60)
    if out is None:
        ses.stats.notes.append('%s: interface did not return within the time limit (inconclusive)' % label)
        ses.stats.kinds['iface-timeout'] = ses.stats.kinds.get('iface-timeout', 0) + 1
        return
    if out.get('err') is not None:
        # an interface may refuse a program class loudly; that is not a fabricated solution
        ses.stats.notes.append('%s: interface raised %s' % (label, out['err'][:80]))
        ses.stats.kinds['iface-raised'] = ses.stats.kinds.get('iface-raised', 0) + 1
        return
    has, get_raises = out['has'], out['get_raises']

    class _S:
        pass
    sol = _S()
    sol.x, sol.objval = out['x'], out['objval']
    soc = bool(P.qmat)
    tol = Fraction(1, 10 ** 4) if (soc or iface == 'eco') else Fraction(1, 10 ** 6)      # ECOS(_BB) is an interior-point code
    ses.stats.obligations += 1
    ses.stats.kinds['status-agreement'] = ses.stats.kinds.get('status-agreement', 0) + 1
    if status in ('infeasible', 'unbounded'):
        if has or not get_raises:
            report(ses, p, iface, '%s program but the interface returns objective %r' % (status, sol.objval if sol else None))
        else:
            ses.stats.discharged += 1
        return
    if status == 'unknown':
        ses.stats.undecided += 1
        return
    if not has:
        report(ses, p, iface, 'program has an optimum (%s) but the interface reports no solution' % (opt,))
        return
    ses.stats.discharged += 1
    if p['kind'] == 'socx':
        # the to_socp() program has 7+ coupled cones per exponential cone: "a feasible point nearby" is undecided for nlsat
        # within minutes.  Ground check instead: the returned vector itself satisfies rows, bounds and CONE MEMBERSHIPS of the
        # real program (exact rational arithmetic, tolerance 1e-5), and the value agrees with the closed form within the 1e-3
        # the approximation promises.
        import math
        ses.stats.obligations += 1
        ses.stats.kinds['returned-point-in-program(ground)'] = ses.stats.kinds.get('returned-point-in-program(ground)', 0) + 1
        bad = P.check_point(sol.x, tol=Fraction(1, 10 ** 5))
        exact = -math.log(5.0) if p['k'] == 0 else -math.log(2.0)
        if bad:
            report(ses, p, iface, 'soc_solve: the returned vector violates the program handed to the interface: %s' % (bad[:3],))
        elif abs(float(sol.objval) - exact) > 2e-3 * (1 + abs(exact)):
            report(ses, p, iface, 'soc_solve: reported optimum %r, closed form %r' % (float(sol.objval), exact))
        else:
            ses.stats.discharged += 1
            ses.stats.nontrivial.add(name)
        return
    x = [Fraction(float(t)) for t in sol.x]
    objval = Fraction(float(sol.objval))
    scale = 1 + abs(objval)
    # (a) a truly feasible point within tol of the returned vector
    near = []
    for j, v in enumerate(vs):
        near += [v - z3.RealVal(str(x[j])) <= z3.RealVal(str(tol * (1 + abs(x[j])))),
                 z3.RealVal(str(x[j])) - v <= z3.RealVal(str(tol * (1 + abs(x[j]))))]
    res, _ = ses.expect_sat(label + '/feasible-near', Pc + near, kind='returned-point-feasible', core=not soc)
    if res == 'unsat':
        report(ses, p, iface, 'returned vector %s is not within tolerance of any feasible point of the compiled program '
               '(violations: %s)' % ([float(t) for t in x], P.check_point(sol.x)[:3]))
        return
    # objective value consistent with the vector
    cx = sum(c * xv for c, xv in zip(P.obj, x))
    if abs(cx - objval) > tol * scale * 10:
        report(ses, p, iface, 'objval %r differs from c\'x = %r' % (float(objval), float(cx)))
        return
    # (b) optimality certificate
    res, model = ses.oblige(label + '/optimal', Pc, [obj < z3.RealVal(str(objval - tol * scale * 10))],
                            kind='optimality-certificate', core=not soc, twin=False,
                            sample=dict(program=name, interface=iface, objval=float(objval), exact=str(opt)))
    if res == 'sat':
        better = float(fval(model, obj))
        report(ses, p, iface, 'reported optimum %r but the compiled program has a feasible point with objective %r'
               % (float(objval), better))
        return
    if res == 'unsat':
        ses.stats.nontrivial.add(name)


def _child(conn, p, iface, display):
    try:
        with quiet():
            m = build(p)
            try:
                if p['kind'] == 'socx':
                    m.soc_solve(get_solver(iface), display=display)
                else:
                    m.solve(get_solver(iface), display=display)
            except Exception as e:
                conn.send(dict(err='%s: %s' % (type(e).__name__, e)))
                return
        sol = m.solution
        has = sol is not None and sol.x is not None and not np.isnan(sol.objval)
        try:
            m.get()
            get_raises = False
        except RuntimeError:
            get_raises = True
        conn.send(dict(err=None, has=bool(has), get_raises=get_raises,
                       x=None if not has else [float(t) for t in sol.x],
                       objval=None if sol is None else float(sol.objval)))
    except BaseException as e:  # noqa
        try:
            conn.send(dict(err='child failure %s: %s' % (type(e).__name__, e)))
        except Exception:
            pass


def solve_in_child(p, iface, display, timeout):
    """Solver interfaces call C libraries that may loop (ECOS_BB) or crash; run them in a child."""
    import multiprocessing as mp
    ctx = mp.get_context('fork')
    a, b = ctx.Pipe(duplex=False)
    pr = ctx.Process(target=_child, args=(b, p, iface, display))
    pr.start()
    b.close()
    out = None
    if a.poll(timeout):
        try:
            out = a.recv()
        except EOFError:
            out = dict(err='child died without an answer')
    pr.join(0.5)
    if pr.is_alive():
        pr.kill()
        pr.join()
    a.close()
    return out


def report(ses, p, iface, what):
    data = dict(p=p, iface=iface)
    if not replay(data):
        raise HarnessError('C11 finding does not reproduce: %s %s' % (p['name'], what))
    key = 'C11:%s:%s' % (bucket(p), iface)
    finding(ses, key, 'program %s via %s: %s' % (p['name'], iface, what), data, 'rsv.props.c11:replay')


def bucket(p):
    """Known-finding key: binaries whose user bounds cut into [0,1] form one bucket."""
    if p.get('vt') in ('B', 'M') and any(v is not None for v in p['lo'] + p['hi']):
        return 'binary-with-user-bounds'
    if p.get('vt') == 'I' and any(v is not None and v != int(v) for v in p['lo'] + p['hi']):
        return 'integer-with-fractional-bounds'
    return p['name']


def replay(data, verbose=False):
    """Solve with the interface under test and with every other interface; compare with the exact optimum."""
    z3 = z3mod()
    p, iface = data['p'], data['iface']
    from ..smt import Session
    ses = Session('C11', 'replay', 0)
    with quiet():
        m0 = build(p)
        P = CProg(m0.do_math())
    vs = P.z3vars()
    if not P.qmat:
        status, opt = ses.optimum(P.constraints(vs), P.obj_term(vs), ints=P.int_vars(vs))
    else:
        status, opt = 'soc', None
    vals = {}
    points = {}
    for f in IFACES:
        if not supported(p, f):
            continue
        out = solve_in_child(p, f, False, 30)
        if out is not None and not out.get('err') and out.get('has') and out.get('x') is not None:
            points[f] = out['x']
        if out is None:
            vals[f] = 'timeout'
        elif out.get('err'):
            vals[f] = 'raised (%s)' % out['err'][:40]
        elif out['has'] and not out['get_raises']:
            vals[f] = float(out['objval'])
        else:
            vals[f] = 'no solution'

    if verbose:
        print('program %s: exact status %s optimum %s; interfaces: %s' % (p['name'], status, opt, vals))
    v = vals.get(iface)
    if iface in points and isinstance(v, (float, np.floating)):
        # the returned vector itself must be a point of the compiled program (rows, bounds, cones, integrality, binary domain)
        bad = P.check_point(points[iface], tol=Fraction(1, 10 ** 4))
        if verbose:
            print('returned vector %s: violations of the compiled program: %s' % ([round(t, 6) for t in points[iface]], bad[:3]))
        if bad:
            return True
    if status == 'optimal':
        return not (isinstance(v, (float, np.floating)) and abs(v - float(opt)) <= 1e-5 * (1 + abs(float(opt))))
    if status in ('infeasible', 'unbounded'):
        return isinstance(v, (float, np.floating))
    others = [t for k, t in vals.items() if k != iface and isinstance(t, (float, np.floating))]
    if isinstance(v, (float, np.floating)) and others:
        return abs(v - others[0]) > 1e-3 * (1 + abs(v))
    return True
