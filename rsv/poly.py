"""Exact rational polynomials used as entries of NumPy object arrays.

The harness's reference semantics is "NumPy on symbolic entries": every oracle
expression is a numpy object array whose entries are Poly objects, so array
algebra (broadcasting, @, indexing, sum, concatenate, ...) is literally NumPy's.
Poly keeps coefficients as fractions.Fraction (floats are converted to the exact
rational they denote) and converts to z3 terms on demand.
"""
from fractions import Fraction
import numbers
import numpy as np

_Z3 = None


def z3mod():
    global _Z3
    if _Z3 is None:
        import z3
        _Z3 = z3
    return _Z3


def frac(c):
    if isinstance(c, Fraction):
        return c
    if isinstance(c, (bool, np.bool_)):
        return Fraction(int(c))
    if isinstance(c, (int, np.integer)):
        return Fraction(int(c))
    if isinstance(c, (float, np.floating)):
        return Fraction(float(c))
    if isinstance(c, numbers.Rational):
        return Fraction(c.numerator, c.denominator)
    raise TypeError('not a scalar: %r' % (c,))


def is_scalar(c):
    return isinstance(c, (int, float, Fraction, np.integer, np.floating, bool, np.bool_))


class Poly:
    """Sparse multivariate polynomial: {monomial(tuple of var names, sorted): Fraction}."""
    __slots__ = ('t',)

    def __init__(self, terms=None):
        self.t = terms if terms is not None else {}

    # -- constructors
    @staticmethod
    def var(name):
        return Poly({(name,): Fraction(1)})

    @staticmethod
    def const(c):
        c = frac(c)
        return Poly({(): c} if c != 0 else {})

    @staticmethod
    def lift(o):
        if isinstance(o, Poly):
            return o
        return Poly.const(o)

    # -- algebra
    def __add__(self, o):
        if isinstance(o, np.ndarray):
            return NotImplemented
        if not isinstance(o, Poly):
            if not is_scalar(o):
                return NotImplemented
            o = Poly.const(o)
        r = dict(self.t)
        for m, c in o.t.items():
            v = r.get(m, 0) + c
            if v == 0:
                r.pop(m, None)
            else:
                r[m] = v
        return Poly(r)

    __radd__ = __add__

    def __neg__(self):
        return Poly({m: -c for m, c in self.t.items()})

    def __pos__(self):
        return self

    def __sub__(self, o):
        if isinstance(o, np.ndarray):
            return NotImplemented
        if not isinstance(o, Poly):
            if not is_scalar(o):
                return NotImplemented
            o = Poly.const(o)
        return self + (-o)

    def __rsub__(self, o):
        return (-self) + o

    def __mul__(self, o):
        if isinstance(o, np.ndarray):
            return NotImplemented
        if not isinstance(o, Poly):
            if not is_scalar(o):
                return NotImplemented
            c = frac(o)
            if c == 0:
                return Poly()
            return Poly({m: k * c for m, k in self.t.items()})
        r = {}
        for m1, c1 in self.t.items():
            for m2, c2 in o.t.items():
                m = tuple(sorted(m1 + m2))
                v = r.get(m, 0) + c1 * c2
                if v == 0:
                    r.pop(m, None)
                else:
                    r[m] = v
        return Poly(r)

    __rmul__ = __mul__

    def __truediv__(self, o):
        c = frac(o)
        return Poly({m: k / c for m, k in self.t.items()})

    def __pow__(self, n):
        n = int(n)
        r = Poly.const(1)
        for _ in range(n):
            r = r * self
        return r

    # -- inspection
    def degree(self):
        return max((len(m) for m in self.t), default=0)

    def vars(self):
        s = set()
        for m in self.t:
            s.update(m)
        return s

    def is_zero(self):
        return not self.t

    def constant(self):
        return self.t.get((), Fraction(0))

    def coeff(self, *names):
        return self.t.get(tuple(sorted(names)), Fraction(0))

    def equals(self, o):
        return (self - Poly.lift(o)).is_zero()

    def subs(self, env):
        """Substitute {name: scalar|Poly}; unknown names stay symbolic."""
        r = Poly()
        for m, c in self.t.items():
            term = Poly.const(c)
            for v in m:
                if v in env:
                    term = term * Poly.lift(env[v])
                else:
                    term = term * Poly.var(v)
            r = r + term
        return r

    def split(self, names):
        """Return {monomial over `names`: Poly over the rest}."""
        names = set(names)
        out = {}
        for m, c in self.t.items():
            a = tuple(v for v in m if v in names)
            b = tuple(v for v in m if v not in names)
            p = out.setdefault(a, Poly())
            p.t[b] = p.t.get(b, 0) + c
        for a in list(out):
            out[a].t = {m: c for m, c in out[a].t.items() if c != 0}
        return out

    def eval(self, env):
        r = Fraction(0)
        for m, c in self.t.items():
            v = c
            for x in m:
                v = v * frac(env[x])
            r += v
        return r

    def evalf(self, env):
        r = 0.0
        for m, c in self.t.items():
            v = float(c)
            for x in m:
                v = v * float(env[x])
            r += v
        return r

    def z3(self, env):
        """env: name -> z3 term (missing names raise KeyError)."""
        z3 = z3mod()
        terms = []
        for m, c in sorted(self.t.items()):
            t = None
            for x in m:
                t = env[x] if t is None else t * env[x]
            cv = z3.RealVal(str(c)) if c.denominator != 1 else z3.RealVal(c.numerator)
            if t is None:
                terms.append(cv)
            elif c == 1:
                terms.append(t)
            else:
                terms.append(cv * t)
        if not terms:
            return z3.RealVal(0)
        if len(terms) == 1:
            return terms[0]
        return z3.Sum(terms)

    def __repr__(self):
        if not self.t:
            return '0'
        parts = []
        for m, c in sorted(self.t.items()):
            mono = '*'.join(m)
            if mono:
                parts.append(('%s*%s' % (c, mono)) if c != 1 else mono)
            else:
                parts.append(str(c))
        return ' + '.join(parts)

    __str__ = __repr__

    def __float__(self):
        if self.degree() > 0:
            raise TypeError('non-constant Poly')
        return float(self.constant())


def pvars(prefix, shape):
    """Object array of fresh Poly variables named prefix[i,j,..]."""
    if shape == ():
        a = np.empty((), dtype=object)
        a[()] = Poly.var(prefix)
        return a
    a = np.empty(shape, dtype=object)
    for idx in np.ndindex(*shape):
        a[idx] = Poly.var('%s[%s]' % (prefix, ','.join(str(i) for i in idx)))
    return a


def parr(x):
    """Coerce scalars / numeric arrays / Poly arrays to an object array of Poly."""
    if isinstance(x, Poly):
        a = np.empty((), dtype=object)
        a[()] = x
        return a
    a = np.array(x, dtype=object) if not isinstance(x, np.ndarray) else x
    out = np.empty(a.shape, dtype=object)
    if a.shape == ():
        out[()] = Poly.lift(a[()])
        return out
    for idx in np.ndindex(*a.shape):
        out[idx] = Poly.lift(a[idx])
    return out


def pflat(x):
    return list(parr(x).reshape(-1))
