"""Translation validation of compiled ro programs against the semi-infinite semantics."""
from fractions import Fraction
import numpy as np

from .poly import Poly, parr, frac, z3mod
from .oracle import OAtom, OCons, OCustom, osub, cons_z3, Z3Env, cons_eval
from .usets import USet, inverse_exact
from .cprog import CProg
from .models import OracleRO, RealRO, p_name
from .smt import HarnessError, fval


import contextlib
import time


@contextlib.contextmanager
def abstract_ipcone(record):
    """Harness-side stub (part of the claim): IPCone.to_soc() is replaced by a recorder that
    returns no constraints; the recorded call (left, right, beta) is given its power-cone meaning
    |left|^N <= prod right^beta, right >= 0, which towers.tower_theorem establishes for the real
    to_soc() output of every recorded beta."""
    from rsome import lp
    from .towers import form_rows
    orig = lp.IPCone.to_soc

    def stub(self):
        record.append((form_rows(self.left)[0], form_rows(self.right), [int(b) for b in self.beta]))
        return []
    lp.IPCone.to_soc = stub
    try:
        yield
    finally:
        lp.IPCone.to_soc = orig


class Compiled:
    """Both sides of one ro model description."""

    def __init__(self, desc, style=None, primal=True, abstract_towers=False, front='ro'):
        self.o = OracleRO()
        desc(self.o)
        self.r = RealRO(style, front)
        desc(self.r)
        self.pcalls = []
        if abstract_towers:
            with abstract_ipcone(self.pcalls):
                self.formula = self.r.m.do_math(primal=primal)
        else:
            self.formula = self.r.m.do_math(primal=primal)
        self.cp = CProg(self.formula)
        self.cp.pcones = list(self.pcalls)
        self.iface = self.r.interface(self.formula)
        bycol = {}
        for nm, c in self.iface.items():
            bycol.setdefault(c, []).append(nm)
        self.collisions = sorted(sorted(v) for v in bycol.values() if len(v) > 1)
        if self.collisions:
            # the SMT obligations quantify over the named decisions / rule coefficients: two names on one column would make the
            # oracle as restricted as the program (a silent blind spot), so this is an error of the read-back or of the compiler
            raise HarnessError('interface read back through get() is not injective: %s' % self.collisions[:3])
        self.iface['t'] = 0
        self.usets = {k: USet(v, self.o.znames) for k, v in self.o.sets.items()}
        if self.cp.obj != [Fraction(1)] + [Fraction(0)] * (self.cp.n - 1):
            raise HarnessError('objective of compiled ro program is not the epigraph column')

    # ---- semantic rows
    def rows(self):
        """List of dict(label, cons: OCons, set: USet|None) incl. the objective epigraph row(s)."""
        o = self.o
        out = []
        for i, (c, key) in enumerate(o.cons):
            out.append(dict(label='c%d' % i, cons=c, key=key))
        if o.obj is not None:
            sign, e, key = o.obj
            t = Poly.var('t')
            if isinstance(e, OAtom):
                c = OCons(osub(e * sign, t), 'le')
            else:
                c = OCons(osub(parr(e).reshape(-1)[:1] * sign, t), 'le')
            out.append(dict(label='obj', cons=c, key=key))
        res = []
        for r in out:
            for k, piece in enumerate(split_pieces(r['cons'])):
                key = r['key'] if r['key'] is not None else o.default
                zdeg = piece_zdeg(piece, o.znames)
                res.append(dict(label='%s.%d' % (r['label'], k), cons=piece,
                                uset=(self.usets[key] if (zdeg and key is not None) else None), robust=bool(zdeg)))
                if zdeg and key is None:
                    raise HarnessError('robust row without any set')
        return res

    def env(self, vs):
        return Z3Env({n: vs[c] for n, c in self.iface.items()})


def split_pieces(c):
    """max-of-affine atoms become one row per piece; arrays one row per entry."""
    if isinstance(c, OCustom):
        return [c]
    if c.is_atom():
        a = c.expr
        if a.kind == 'max':
            if a.k == 0 and c.sense == 'le':
                return [OCons(parr(a.off.reshape(-1)[0]), 'le')]        # 0*max(...) + affine: only the affine part is left
            if a.k <= 0 or c.sense != 'le':
                raise HarnessError('oracle: non-convex piecewise use')
            off = a.off.reshape(-1)[0]
            return [OCons(parr(parr(p).reshape(-1)[0] * a.k + off), 'le') for p in a.arg]
        return [c]
    return [OCons(parr(p), c.sense) for p in c.polys()]


def piece_zdeg(c, znames):
    zn = set(znames)
    if isinstance(c, OCustom):
        return False
    if c.is_atom():
        ps = list(c.expr.arg.reshape(-1)) + list(c.expr.off.reshape(-1))
    else:
        ps = c.polys()
    return any(p.vars() & zn for p in ps)


def affine_in_z(p, znames):
    """p(x,z) = sum_j a_j(x) z_j + b(x): return ({zname: Poly a_j}, Poly b)."""
    parts = p.split(znames)
    a, b = {}, Poly()
    for mono, q in parts.items():
        if len(mono) == 0:
            b = q
        elif len(mono) == 1:
            a[mono[0]] = q
        else:
            raise HarnessError('row not affine in z: %s' % p)
    return a, b


def viol_terms(row, env, z3, eps=0):
    """z3 booleans, any of which being true means the robust row is violated at the
    interface point denoted by env (after elimination of z)."""
    c = row['cons']
    U = row['uset']
    epsv = z3.RealVal(str(eps))
    if c.is_atom():
        if row['robust']:
            raise HarnessError('robust convex atoms are not part of the ro families')
        n0 = len(getattr(env, 'exist', []))
        cs = cons_z3(c, env, eps)
        bound = getattr(env, 'exist', [])[n0:]
        if bound:
            # oracle-side existential auxiliaries (entropy): negation quantifies them universally
            env.exist = env.exist[:n0]
            return [z3.ForAll([w for w, _, _ in bound], z3.Not(z3.And(cs)))]
        return [z3.Not(z3.And(cs))]
    (p,) = c.polys()
    if not row['robust']:
        t = env.p(p)
        return [t > epsv] if c.sense == 'le' else [z3.Or(t > epsv, t < -epsv)]
    zn = U.names
    out = []
    if U.kind == 'poly':
        for v in U.vertices():
            t = env.p(p.subs(v))
            out.append(t > epsv if c.sense == 'le' else z3.Or(t > epsv, t < -epsv))
        if not out:
            raise HarnessError('empty vertex set')
        return out
    a, b = affine_in_z(p, zn)
    ell = U.ellipsoid()
    qf = U.quadform()
    senses = [1] if c.sense == 'le' else [1, -1]
    if ell is not None:
        L, cc, (rk, rv) = ell
        Li = inverse_exact(L)
        if Li is None:
            raise HarnessError('singular ellipsoid map')
        n = len(zn)
        # g = L^-T a
        g = []
        for i in range(n):
            gi = Poly()
            for j in range(n):
                gi = gi + a.get(zn[j], Poly()) * Li[j][i]
            g.append(gi)
        gc = Poly()
        for i in range(n):
            gc = gc + g[i] * cc[i]
        s = env.new('s')
        gg = z3.Sum([env.p(gi) * env.p(gi) for gi in g])
        if rk == 'lin':
            env.defs += [s >= 0, s * s == z3.RealVal(str(rv * rv)) * gg]
        else:
            env.defs += [s >= 0, s * s == z3.RealVal(str(rv)) * gg]
        for sg in senses:
            out.append(s + sg * (env.p(b) - env.p(gc)) > epsv)
        return out
    if qf is not None:
        Q, rho = qf
        Qi = inverse_exact(Q)
        n = len(zn)
        s = env.new('s')
        quad = z3.Sum([env.p(a.get(zn[i], Poly())) * env.p(a.get(zn[j], Poly())) * z3.RealVal(str(Qi[i][j]))
                       for i in range(n) for j in range(n) if Qi[i][j] != 0] or [z3.RealVal(0)])
        env.defs += [s >= 0, s * s == z3.RealVal(str(rho)) * quad]
        for sg in senses:
            out.append(s + sg * env.p(b) > epsv)
        return out
    # generic: keep z symbolic (QF_NRA, intended for dim z <= 2)
    zs = {n: z3.Real('zz_' + n) for n in zn}
    for n, t in zs.items():
        env.m[n] = t
    env.defs += U.z3(env)
    t = env.p(p)
    out.append(t > epsv if c.sense == 'le' else z3.Or(t > epsv, t < -epsv))
    return out


def hold_terms(row, env, z3):
    """z3 booleans whose conjunction says the semantic row holds (z eliminated)."""
    c = row['cons']
    U = row['uset']
    if c.is_atom():
        return cons_z3(c, env)
    (p,) = c.polys()
    if not row['robust']:
        t = env.p(p)
        return [t <= 0] if c.sense == 'le' else [t == 0]
    zn = U.names
    if U.kind == 'poly':
        out = []
        for v in U.vertices():
            t = env.p(p.subs(v))
            out.append(t <= 0 if c.sense == 'le' else t == 0)
        return out
    if U.ellipsoid() is None and U.quadform() is None:
        # generic set: the universal quantifier over z stays in the formula
        zs = [z3.Real('zq_' + n) for n in zn]
        sub = Z3Env(dict(env.m))
        for n, t in zip(zn, zs):
            sub.m[n] = t
        uz = U.z3(sub)
        if sub.defs:
            raise HarnessError('generic set with definitional atoms under a quantifier')
        t = sub.p(p)
        body = (t <= 0) if c.sense == 'le' else (t == 0)
        return [z3.ForAll(zs, z3.Implies(z3.And(uz), body))]
    vt = viol_terms(row, env, z3)
    return [z3.Not(t) for t in vt]


def row_cols(row, cm):
    c = row['cons']
    if isinstance(c, OCustom):
        ps = c.polys()
    elif c.is_atom():
        a = c.expr
        ps = list(a.off.reshape(-1))
        if isinstance(a.arg, list):
            for piece in a.arg:
                ps += list(parr(piece).reshape(-1))
        else:
            ps += list(a.arg.reshape(-1))
    else:
        ps = c.polys()
    names = set()
    for p in ps:
        names |= p.vars()
    return {cm.iface[n] for n in names if n in cm.iface}


def discharge_row(ses, cm, vs, P, blocks, row, label, kind, eps=0, extra=(), sample=None,
                  block_timeout_ms=5000, core=True):
    """Soundness of one semantic row: P => row.  Since P is the conjunction of its blocks, it is
    sufficient (and much cheaper) that ONE block implies the row; blocks are tried first, the
    monolithic query is the fall-back and the only source of counterexamples.

    Returns ('unsat', None) | ('sat', model) | ('unknown', None)."""
    z3 = z3mod()
    st = ses.stats
    cols = row_cols(row, cm)
    order = sorted(range(len(blocks)), key=lambda k: -len(blocks[k]['iface'] & cols))
    if row.get('robust') and row.get('uset') is not None and row['uset'].kind == 'exp':
        return discharge_expset_row(ses, cm, vs, [blocks[k] for k in order], row, label, sample, core)
    if row.get('robust') and row.get('uset') is not None and not eps and not row['cons'].is_atom() and \
            (row['uset'].kind == 'mixed' or (row['uset'].kind == 'soc' and row['uset'].n_cones() >= 2)):
        # ball-intersect-polytope sets: cone-pairing relaxation + reformulation-linearisation first (QF_LRA)
        U = row['uset']
        try:
            G2, H2, T2, aux = U.relaxed_poly()
            Q2 = U.soc_polys()
        except HarnessError:
            Q2 = None
        if Q2:
            c = row['cons']
            (p,) = c.polys()
            pv = p.subs({n: Poly.var('v%d' % j) for n, j in cm.iface.items()})
            viol = [pv] if c.sense == 'le' else [pv, -pv]
            for k in order:
                blk = blocks[k]
                if not blk['cones'] or (cols and not (blk['iface'] & cols)):
                    continue
                if rlt_block(ses, cm.cp, blk, G2, H2, T2, list(U.names) + aux, viol, label, kind, sample, 20000, Q2, full_pairing=True) == 'unsat':
                    return 'unsat', None
    for k in order:
        blk = blocks[k]
        if cols and not (blk['iface'] & cols):
            continue
        env = cm.env(vs)
        vt = viol_terms(row, env, z3, eps)
        cons = cm.cp.block_cons(blk, vs) + list(extra) + env.defs
        res, _ = ses.solve(cons + [z3.Or(vt)], timeout_ms=block_timeout_ms, label=label + '/blk',
                           fallback_ms=(10000 if core and (eps or blk['cones']) else 0))
        if res == 'unsat':
            st.obligations += 1
            st.kinds[kind] = st.kinds.get(kind, 0) + 1
            st.twins += 1
            r2, _ = ses.solve(cons, timeout_ms=block_timeout_ms, label=label + '/blk-twin')
            if r2 == 'sat':
                st.twins_ok += 1
            elif r2 == 'unsat':
                raise HarnessError('vacuous block obligation: %s' % label)
            st.discharged += 1
            if sample is not None and len(st.samples) < 12:
                st.samples.append(dict(label=label, kind=kind, result='unsat', via='block %d rows/%d cones/%d locals'
                                       % (len(blk['rows']), len(blk['cones']), len(blk['locals'])), **sample))
            return 'unsat', None
    env = cm.env(vs)
    vt = viol_terms(row, env, z3, eps)
    return ses.oblige(label, P + list(extra) + env.defs, [z3.Or(vt)], kind=kind, core=core, sample=sample)


def pairing_ineq(t, d):
    """<(a,b,c), (u,v,w)> >= 0 for (a,b,c) in K_exp and (u,v,w) in K_exp*, the latter given the way RSOME states
    it: (d0, d1, d2) = (u - w, v, -u) in K_exp  (gcp.py dual block).  A fact about exp:
    b*d1 >= c*d2*exp(a/c + d0/d2) >= c*d2*(1 + a/c + d0/d2)."""
    a, b, c = t
    d0, d1, d2 = d
    return -d2 * a + d1 * b - (d0 + d2) * c >= 0


def whole(cp):
    """The whole program as one block."""
    return dict(rows=list(range(cp.m)), locals=set(range(cp.n)), iface=set(), cones=list(range(len(cp.qmat))),
                xcones=list(range(len(cp.xmat))), pcones=[])


def block_polys(cp, blk, prefix='v'):
    """(G, H, cones): the block's constraints as Poly over names 'v<col>': G (g >= 0), H (h == 0); exponential-cone
    memberships weakened to their linear consequences, cone triples returned separately; of a second-order cone
    only head >= |tail_i| is kept."""
    V = lambda j: Poly.var('%s%d' % (prefix, j))
    G, H = [], []
    for i in blk['rows']:
        d, c, sgn = cp.rows[i]
        e = Poly.const(c) - sum((V(j) * k for j, k in d.items()), Poly())
        (H if sgn == 1 else G).append(e)
    for j in sorted(blk['locals'] | blk['iface']):
        if cp.lb[j] is not None:
            G.append(V(j) - cp.lb[j])
        if cp.ub[j] is not None:
            G.append(Poly.const(cp.ub[j]) - V(j))
        if cp.vtype[j] == 'B':
            G += [V(j), 1 - V(j)]
    for k in blk['cones']:
        q = cp.qmat[k]
        G.append(V(q[0]))
        for j in q[1:]:
            G += [V(q[0]) - V(j), V(q[0]) + V(j)]
    cones = []
    for k in blk.get('xcones', []):
        a, b, c = cp.xmat[k]
        G += [V(b), V(c), V(b) - V(a) - V(c)]
        cones.append((V(a), V(b), V(c)))
    return G, H, cones


def block_socs(cp, blk, prefix='v'):
    return [(Poly.var('%s%d' % (prefix, cp.qmat[k][0])), [Poly.var('%s%d' % (prefix, j)) for j in cp.qmat[k][1:]])
            for k in blk['cones']]


def pairing_poly(t, d):
    a, b, c = t
    d0, d1, d2 = d
    return d1 * b - d2 * a - (d0 + d2) * c


def rlt_refute(ses, G1, H1, vars1, G2, H2, vars2, extra_ge, viol_gt, label, timeout_ms=20000):
    """Level-1 reformulation-linearisation: two constraint systems over disjoint variable groups (1: compiled
    block, 2: realisation and its auxiliaries), coupled only through bilinear facts.  All products
    g1*g2 >= 0, h1*w = 0 (w in vars2), h2*v = 0 (v in vars1) are added, every degree-2 monomial is replaced by a
    fresh real variable, and the linear system is decided (QF_LRA).  The linearisation only adds models, so `unsat`
    proves that the original (true-cone) system has no solution; `sat` proves nothing.

    Large systems (> 400 rows) are decided lazily: z3 decides a SUB-system (unsat of a sub-system is unsat of the system), a
    model of the sub-system is evaluated exactly on all rows and the violated ones are added, until unsat or until a model
    satisfies every row.  The first sub-system is chosen by a floating-point LP (HiGHS): the rows with non-zero multipliers in
    its infeasibility / optimality certificate.  The float LP only SELECTS rows; every verdict is z3's, over exact rationals."""
    z3 = z3mod()
    table = {}
    rows = []          # (coef {key: Fraction}, const Fraction, 'ge' | 'eq')

    def split(p):
        coef, const = {}, Fraction(0)
        for m, c in p.t.items():
            if len(m) == 0:
                const += c
                continue
            if len(m) > 2:
                raise HarnessError('rlt: degree > 2')
            key = m if len(m) == 1 else tuple(sorted(m))
            coef[key] = coef.get(key, 0) + c
        return coef, const

    def term(coef, const):
        t = z3.RealVal(str(const))
        for key, c in coef.items():
            if key not in table:
                table[key] = z3.Real('m_' + '*'.join(key))
            t = t + z3.RealVal(str(c)) * table[key]
        return t

    def add(p, kind):
        coef, const = split(p)
        rows.append((coef, const, kind))
    for g in G1 + G2:
        add(g, 'ge')
    for h in H1 + H2:
        add(h, 'eq')
    for g1 in G1:
        for g2 in G2:
            add(g1 * g2, 'ge')
    for h in H1:
        for w in vars2:
            add(h * Poly.var(w), 'eq')
    for h in H2:
        for v in vars1:
            add(h * Poly.var(v), 'eq')
    for e in extra_ge:
        add(e, 'ge')
    viol = [split(v) for v in viol_gt]
    cs = [(term(c, k) >= 0) if kind == 'ge' else (term(c, k) == 0) for c, k, kind in rows]
    neg = [term(c, k) > 0 for c, k in viol]
    if len(cs) > 400:
        res = _lazy_lra(ses, rows, viol, term, table, cs, neg, timeout_ms, label)
        if res != 'unknown':
            return (res, None), cs
    # equalities first: Gaussian elimination (solve-eqs) shrinks the system ~50x before simplex sees it
    if len(cs) > 800:
        # large systems: separate process under a hard limit (exact simplex does not poll z3's timer)
        res = ses.solve_external(cs + [z3.Or(neg)], timeout_ms=timeout_ms, tactic=('simplify', 'solve-eqs', 'smt'), label=label + '/rlt')
        return res, cs
    res = ses.solve(cs + [z3.Or(neg)], timeout_ms=timeout_ms, tactic=('simplify', 'solve-eqs', 'smt'), label=label + '/rlt')
    if res[0] == 'unknown':
        res = ses.solve(cs + [z3.Or(neg)], timeout_ms=timeout_ms, label=label + '/rlt-plain')
    return res, cs


def _float_support(rows, viol, keys):
    """Rows with non-zero multipliers in the HiGHS certificate of  max viol(y)  s.t. rows, |y| <= 1e4  (per violation
    polynomial): a heuristic selection of rows, nothing else."""
    try:
        from scipy.optimize import linprog
        from scipy.sparse import lil_matrix
    except Exception:  # noqa
        return set()
    idx = {k: i for i, k in enumerate(keys)}
    ge = [i for i, r in enumerate(rows) if r[2] == 'ge']
    eq = [i for i, r in enumerate(rows) if r[2] == 'eq']
    A = lil_matrix((len(ge), len(keys)))
    b = np.zeros(len(ge))
    for a, i in enumerate(ge):
        for k, c in rows[i][0].items():
            A[a, idx[k]] = -float(c)
        b[a] = float(rows[i][1])
    E = lil_matrix((len(eq), len(keys)))
    d = np.zeros(len(eq))
    for a, i in enumerate(eq):
        for k, c in rows[i][0].items():
            E[a, idx[k]] = float(c)
        d[a] = -float(rows[i][1])
    sel = set()
    for coef, const in viol:
        c = np.zeros(len(keys))
        for k, v in coef.items():
            if k in idx:
                c[idx[k]] = -float(v)
        try:
            r = linprog(c, A_ub=A.tocsr() if len(ge) else None, b_ub=b if len(ge) else None,
                        A_eq=E.tocsr() if len(eq) else None, b_eq=d if len(eq) else None,
                        bounds=[(-1e4, 1e4)] * len(keys), method='highs')
        except Exception:  # noqa
            continue
        if r.status != 0:
            continue
        if len(ge):
            for a, m in enumerate(r.ineqlin.marginals):
                if abs(m) > 1e-9:
                    sel.add(ge[a])
        if len(eq):
            for a, m in enumerate(r.eqlin.marginals):
                if abs(m) > 1e-9:
                    sel.add(eq[a])
    return sel


def _lazy_lra(ses, rows, viol, term, table, cs, neg, timeout_ms, label, rounds=80, batch=40, cap=450):
    z3 = z3mod()
    t0 = time.time()
    keys = sorted({k for c, _, _ in rows for k in c} | {k for c, _ in viol for k in c})
    for k in keys:
        if k not in table:
            table[k] = z3.Real('m_' + '*'.join(k))
    active = _float_support(rows, viol, keys)
    ses.stats.kinds['rlt-lazy'] = ses.stats.kinds.get('rlt-lazy', 0) + 1
    for rnd in range(rounds):
        left = timeout_ms / 1000.0 - (time.time() - t0)
        if left <= 1:
            return 'unknown'
        if len(active) > cap:
            # z3's exact simplex does not poll its timer inside a pivot: a sub-system of 770 rows ran 230 s under a 14 s limit.
            # Beyond the cap the lazy loop gives up (the caller falls back to a separate process under a hard limit).
            return 'unknown'
        sub = [cs[i] for i in sorted(active)]
        res, model = ses.solve(sub + [z3.Or(neg)], timeout_ms=int(min(left, 20) * 1000), tactic=('simplify', 'solve-eqs', 'smt'),
                               label='%s/rlt-lazy%d(%d rows)' % (label, rnd, len(sub)))
        if res == 'unsat':
            return 'unsat'
        if res != 'sat':
            return 'unknown'
        val = {}
        for k in keys:
            v = model.eval(table[k], model_completion=True)
            val[k] = Fraction(v.numerator_as_long(), v.denominator_as_long())
        bad = []
        for i, (coef, const, kind) in enumerate(rows):
            if i in active:
                continue
            t = const + sum((c * val[k] for k, c in coef.items()), Fraction(0))
            if (kind == 'ge' and t < 0) or (kind == 'eq' and t != 0):
                bad.append((abs(t), i))
        if not bad:
            return 'sat'
        bad.sort(reverse=True)
        active |= {i for _, i in bad[:batch]}
    return 'unknown'


def rlt_block(ses, cp, blk, G2, H2, T2, vars2, viol, label, kind, sample=None, timeout_ms=None, Q2=(), full_pairing=False):
    """One compiled block against one adversary system (G2 >= 0, H2 == 0, cone triples T2 over vars2), coupled by
    the pairing inequalities and the bilinear violation polynomials `viol` (any > 0).  Books a discharged
    obligation (with reachability twin) on `unsat`; returns the solver's answer."""
    st = ses.stats
    G1, H1, bc = block_polys(cp, blk)
    G2 = list(G2)
    for x_, y_, z_ in T2:
        G2 += [y_, z_, y_ - x_ - z_]
    vars1 = ['v%d' % j for j in sorted(blk['locals'] | blk['iface'])]
    pairs = [pairing_poly(a, b) for a, b in zip(T2, bc)] if len(T2) == len(bc) else \
            [pairing_poly(a, b) for a in T2 for b in bc]
    # second-order cones: head >= |tail_i| on the adversary side, Cauchy-Schwarz pairing with every compiled cone of
    # the same dimension (the cone is symmetric in the tail, both signs are facts)
    for h2, t2 in Q2:
        G2.append(h2)
        for e in t2:
            G2 += [h2 - e, h2 + e]
        for h1, t1 in block_socs(cp, blk):
            if len(t1) == len(t2):
                if full_pairing and len(t2) <= 3:
                    # the cone is invariant under permutations and reflections of the tail coordinates, so
                    # h1*h2 + <t1, S P t2> >= 0 is a fact for EVERY permutation P and sign pattern S: the harness
                    # need not know in which order / orientation RSOME lists the members of its dual cone
                    import itertools
                    for perm in itertools.permutations(range(len(t2))):
                        for sg in itertools.product((1, -1), repeat=len(t2)):
                            pairs.append(h1 * h2 + sum((t1[i] * t2[perm[i]] * sg[i] for i in range(len(t2))), Poly()))
                else:
                    dot = sum((a * b for a, b in zip(t1, t2)), Poly())
                    pairs += [h1 * h2 + dot, h1 * h2 - dot]
    (res, _), lincs = rlt_refute(ses, G1, H1, vars1, G2, list(H2), list(vars2), pairs, viol, label,
                                 timeout_ms=timeout_ms or 20000)
    if res == 'unsat':
        st.obligations += 1
        st.kinds[kind] = st.kinds.get(kind, 0) + 1
        st.twins += 1
        r2, _ = (ses.solve_external if len(lincs) > 800 else ses.solve)(
            lincs, timeout_ms=timeout_ms or 20000, tactic=('simplify', 'solve-eqs', 'smt'), label=label + '/rlt-twin')
        if r2 == 'sat':
            st.twins_ok += 1
        elif r2 == 'unsat':
            raise HarnessError('vacuous obligation (rlt): %s' % label)
        st.discharged += 1
        if sample is not None and len(st.samples) < 12:
            st.samples.append(dict(label=label, kind=kind, result='unsat', via='rlt', adversary_cones=len(T2),
                                   block_cones=len(bc), linear_constraints=len(lincs), **sample))
    return res


def discharge_expset_row(ses, cm, vs, blocks, row, label, sample=None, core=False, timeout_ms=None):
    """Soundness of a robust row whose uncertainty set has exponential-cone atoms.

    Query: block (relaxed) /\\ z in U (relaxed) /\\ pairing inequalities /\\ row violated at z  -> unsat.
    Both the set's and the compiled block's cone memberships are hypotheses, so weakening them to their
    consequences is sound for `unsat`; the pairing inequality (K_exp against K_exp*) is the one fact about
    exp that the weak-duality argument of the robust counterpart needs.  QF_NRA."""
    z3 = z3mod()
    st = ses.stats
    c = row['cons']
    U = row['uset']
    (p,) = c.polys()
    cols = row_cols(row, cm)
    timeout_ms = timeout_ms or (15000 if ses.tier == 'quick' else 90000)
    kind = 'expset-row'
    last = ('unknown', None)
    ren = {n: Poly.var('v%d' % j) for n, j in cm.iface.items()}
    pv = p.subs(ren)
    for blk in blocks:
        if not blk.get('xcones') or (cols and not (blk['iface'] & cols)):
            continue
        # ---- attempt 1: reformulation-linearisation (QF_LRA)
        G2, H2, T2, aux = U.relaxed_poly()
        viol = [pv] if c.sense == 'le' else [pv, -pv]
        if rlt_block(ses, cm.cp, blk, G2, H2, T2, list(U.names) + aux, viol, label, kind, sample, timeout_ms) == 'unsat':
            return 'unsat', None
        # ---- attempt 2: the bilinear system itself (QF_NRA)
        env = cm.env(vs)
        for n in U.names:
            env.m[n] = z3.Real('zx_' + n)
        ucons, trip = U.relaxed(env)
        env.exist = []
        bcones = [tuple(vs[j] for j in cm.cp.xmat[k]) for k in blk['xcones']]
        base = cm.cp.block_cons(blk, vs, relax_exp=True) + ucons + env.defs
        t = env.p(p)
        viol = (t > 0) if c.sense == 'le' else z3.Or(t > 0, t < 0)
        modes = []
        if len(trip) == len(bcones):
            modes.append([pairing_ineq(a, b) for a, b in zip(trip, bcones)])
        if len(trip) * len(bcones) <= 6 and len(trip) * len(bcones) != len(modes and modes[0] or []):
            modes.append([pairing_ineq(a, b) for a in trip for b in bcones])
        for prs in modes:
            for tac in (('simplify', 'solve-eqs', 'qfnra-nlsat'), None):
                res, model = ses.solve(base + prs + [viol], timeout_ms=timeout_ms, tactic=tac, label=label + '/expset')
                if res == 'unsat':
                    st.obligations += 1
                    st.kinds[kind] = st.kinds.get(kind, 0) + 1
                    st.twins += 1
                    r2, _ = ses.solve(base + prs, timeout_ms=timeout_ms, tactic=tac, label=label + '/expset-twin')
                    if r2 == 'sat':
                        st.twins_ok += 1
                    elif r2 == 'unsat':
                        raise HarnessError('vacuous exp-set obligation: %s' % label)
                    st.discharged += 1
                    if sample is not None and len(st.samples) < 12:
                        st.samples.append(dict(label=label, kind=kind, result='unsat', set_cones=len(trip),
                                               block_cones=len(bcones), pairings=len(prs), **sample))
                    return 'unsat', None
                if res == 'sat':
                    last = ('sat', model)
                    break
    # no block proved the row: a model of the relaxation is not a real counterexample by itself
    st.obligations += 1
    st.kinds[kind] = st.kinds.get(kind, 0) + 1
    return ('relaxed-sat', last[1]) if last[0] == 'sat' else ('unknown', None)


def project_block(ses, cp, blk, vs, hyp, label, kind, core, twin=False, timeout_ms=None, sample=None):
    """Exactness of one block: hyp (the oracle semantics over the interface) implies that the block's local
    columns exist:  hyp /\\ forall locals: not block  must be unsat.  If the solver gives up, the equivalent
    block with the equality-defined continuous locals eliminated exactly (CProg.eliminated) is tried."""
    z3 = z3mod()
    loc = sorted(blk['locals'])
    bc = cp.block_cons(blk, vs)
    q = z3.ForAll([vs[j] for j in loc], z3.Not(z3.And(bc))) if loc else z3.Not(z3.And(bc))
    res, model = ses.oblige(label, hyp, [q], kind=kind, core=core, twin=twin, timeout_ms=timeout_ms, sample=sample)
    if res == 'unknown' and loc:
        vs2, rem = cp.eliminated(blk, vs)
        if len(rem) < len(loc):
            ses.retract(label, kind, core)
            bc2 = cp.block_cons(blk, vs2)
            q2 = z3.ForAll([vs[j] for j in rem], z3.Not(z3.And(bc2))) if rem else z3.Not(z3.And(bc2))
            res, model = ses.oblige(label + '/eliminated(%dl)' % len(rem), hyp, [q2], kind=kind, core=core, twin=False,
                                    timeout_ms=timeout_ms, sample=sample)
    return res, model
