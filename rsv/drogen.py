"""dro model family (curated core + seeded variations).  Each member is a description function
run against both API sides (rsv.dromodels)."""
import numpy as np

A = np.array


# members that RSOME may refuse loudly (raise while formulating): a refusal is allowed, a wrong program is not
MAY_RAISE = {'adaptive_abs', 'adaptive_abs_rhs', 'adaptive_slice_abs'}


def members():
    M = {}

    def reg(f):
        M[f.__name__] = f
        return f

    @reg
    def saa_newsvendor(a):
        """Singleton supports + fixed probabilities: must equal the sample-average problem."""
        p = a.scen(3)
        x = a.dvar(())
        z = a.rvar(())
        F = a.ambiguity()
        for s, v in enumerate([1.0, 2.5, 4.0]):
            a.supp(F, [s], a.eq(z, v))
        a.prob(F, a.eq(p, A([0.25, 0.5, 0.25])))
        a.minsup(a.E(a.maxof(2.0 * (x - z), 1.5 * (z - x))), F)
        a.st(a.ge(x, 0.0))
        a.st(a.le(x, 5.0))

    @reg
    def single_scenario_box(a):
        """One scenario, no expectation information: the ro model of the same declaration."""
        p = a.scen(1)
        x = a.dvar(2)
        z = a.rvar(2)
        F = a.ambiguity()
        a.supp(F, None, a.ge(z, A([-1.0, -0.5])), a.le(z, A([1.0, 2.0])))
        a.minsup(a.E(a.sum(A([-1.0, -2.0]) * x) + a.sum(x * z) * 0.5), F)
        a.st(a.le(a.sum(x) + x @ A([[1.0, 0.0], [0.5, -1.0]]) @ z, 6.0))
        a.st(a.ge(x, -4.0))
        a.st(a.le(x, 4.0))

    @reg
    def moment_box(a):
        p = a.scen(1)
        x = a.dvar(2)
        z = a.rvar(2)
        F = a.ambiguity()
        a.supp(F, None, a.ge(z, -1.0), a.le(z, 1.0))
        a.expt(F, None, a.le(a.Ez(z), 0.25), a.ge(a.Ez(z), A([-0.25, 0.0])))
        a.minsup(a.E(a.maxof(a.sum(x * z), 1.0 - x[0], 0.5 * x[1] - z[0])), F)
        a.st(a.ge(x, -2.0))
        a.st(a.le(x, 2.0))

    @reg
    def mad_lifted(a):
        """Mean-absolute-deviation ambiguity through a lifted random variable u >= |z|."""
        p = a.scen(1)
        x = a.dvar(())
        y = a.dvar(())
        z = a.rvar(())
        u = a.rvar(())
        F = a.ambiguity()
        a.supp(F, None, a.le(a.abs(z), u), a.le(u, 2.0))
        a.expt(F, None, a.eq(a.Ez(z), 0.0), a.le(a.Ez(u), 0.5))
        a.minsup(a.E(a.maxof(x * z + y, 2.0 * y - x, -1.0 * y)), F)
        a.st(a.ge(x, -3.0))
        a.st(a.le(x, 3.0))
        a.st(a.ge(y, -3.0))
        a.st(a.le(y, 3.0))
        a.st(a.ge(x + y, 0.5))

    @reg
    def two_scen_prob_box(a):
        p = a.scen(2)
        x = a.dvar(2)
        z = a.rvar(())
        F = a.ambiguity()
        a.supp(F, [0], a.ge(z, 0.0), a.le(z, 1.0))
        a.supp(F, [1], a.ge(z, 1.0), a.le(z, 3.0))
        a.expt(F, [1], a.le(a.Ez(z), 2.0))
        a.expt(F, None, a.ge(a.Ez(z), 0.75))
        a.prob(F, a.ge(p, 0.25), a.le(p[0:1], A([0.625])))
        a.minsup(a.E(a.maxof(x[0] * z - x[1], x[1] - 0.5 * z, 0.25 * x[0])), F)
        a.st(a.ge(x, -2.0))
        a.st(a.le(x, 2.0))
        a.st(a.le(x[0] + x[1], 3.0))

    @reg
    def event_wise_static(a):
        p = a.scen(3)
        x = a.dvar(())
        w = a.dvar(())
        z = a.rvar(())
        a.evt(x, [0])
        F = a.ambiguity()
        a.supp(F, [0], a.ge(z, 0.0), a.le(z, 1.0))
        a.supp(F, [1], a.ge(z, 0.5), a.le(z, 2.0))
        a.supp(F, [2], a.ge(z, -1.0), a.le(z, 0.5))
        a.prob(F, a.ge(p, 0.125), a.le(a.norm(p - A([0.5, 0.25, 0.25]), 1), 0.25))
        a.minsup(a.E(x + 0.5 * w), F)
        a.st(a.ge(x, z))                     # plain: for every scenario and realisation
        a.st(a.ge(w, x - 1.0))
        a.st(a.le(x, 5.0))
        a.st(a.ge(w, -5.0))

    @reg
    def event_partition_two(a):
        p = a.scen(3, ['lo', 'mid', 'hi'])
        x = a.dvar(2)
        z = a.rvar(())
        a.evt(x, [2])
        a.evt(x, [0])
        F = a.ambiguity()
        a.supp(F, [0], a.ge(z, 0.0), a.le(z, 1.0))
        a.supp(F, [1], a.ge(z, 1.0), a.le(z, 2.0))
        a.supp(F, [2], a.ge(z, 2.0), a.le(z, 4.0))
        a.expt(F, [0, 1], a.le(a.Ez(z), 1.25))
        a.prob(F, a.ge(p, 0.125))
        a.minsup(a.E(x[0] + a.sum(A([0.5, 1.0]) * x) + 0.5 * z), F)    # the sub-event mean bound is binding
        a.st(a.ge(x[0] + x[1], z))
        a.st(a.ge(x, 0.0))
        a.st(a.le(x, 6.0))

    @reg
    def affine_adapt(a):
        p = a.scen(2)
        x = a.dvar(())
        y = a.dvar(())
        z = a.rvar(2)
        a.aff(y, z, None, 0)
        a.evt(y, [1])
        F = a.ambiguity()
        a.supp(F, [0], a.ge(z, -1.0), a.le(z, 1.0))
        a.supp(F, [1], a.ge(z, A([0.0, -0.5])), a.le(z, A([2.0, 0.5])))
        a.expt(F, None, a.le(a.Ez(z), 0.5), a.ge(a.Ez(z), -0.5))
        a.prob(F, a.ge(p, 0.25))
        a.minsup(a.E(x + y + 0.25 * z[1]), F)
        a.st(a.ge(y, z[0] - x))
        a.st(a.le(y, 4.0))
        a.st(a.ge(y, -4.0))
        a.st(a.ge(x, 0.0))
        a.st(a.le(x, 3.0))

    @reg
    def eventwise_affine_then_static(a):
        """An event-wise AND affinely adaptive recourse declared BEFORE a here-and-now decision: the slope block of a rule is
        expanded with the rule's own partition, not with that of the decision declared last.  The supports of the scenarios lie
        on different pieces of the recourse cost, so one slope for all scenarios is strictly worse."""
        p = a.scen(3)
        y = a.dvar(())
        z = a.rvar(())
        a.aff(y, z)
        a.evt(y, [1])
        a.evt(y, [2])
        x = a.dvar(())
        F = a.ambiguity()
        a.supp(F, [0], a.ge(z, 0.0), a.le(z, 2.0))
        a.supp(F, [1], a.ge(z, 2.0), a.le(z, 3.0))
        a.supp(F, [2], a.ge(z, 3.0), a.le(z, 6.0))
        a.expt(F, [0], a.le(a.Ez(z), 1.25), a.ge(a.Ez(z), 0.75))
        a.expt(F, [2], a.le(a.Ez(z), 5.0), a.ge(a.Ez(z), 4.0))
        a.prob(F, a.eq(p, A([0.25, 0.5, 0.25])))
        a.minsup(a.E(0.25 * x + y), F)
        a.st(a.ge(y, 2.0 * (z - x)))
        a.st(a.ge(y, 1.5 * (x - z)))
        a.st(a.ge(x, 0.0))
        a.st(a.le(x, 5.0))

    @reg
    def expectation_constraint(a):
        p = a.scen(2)
        x = a.dvar(2)
        z = a.rvar(())
        F = a.ambiguity()
        a.supp(F, [0], a.ge(z, -1.0), a.le(z, 1.0))
        a.supp(F, [1], a.ge(z, 0.0), a.le(z, 2.0))
        a.expt(F, None, a.le(a.Ez(z), 0.75), a.ge(a.Ez(z), 0.0))
        a.prob(F, a.ge(p, 0.25))
        a.minsup(a.E(-1.0 * x[0] - x[1] + 0.0 * z), F)
        a.st(a.le(a.E(x[0] * z + x[1]), 1.5))
        a.st(a.le(a.E(a.maxof(x[0] - z, x[1] * 0.5)), 1.0))
        a.st(a.ge(x, -1.0))
        a.st(a.le(x, 3.0))

    @reg
    def maxinf_minof(a):
        p = a.scen(2)
        x = a.dvar(2)
        z = a.rvar(())
        F = a.ambiguity()
        a.supp(F, None, a.ge(z, -1.0), a.le(z, 1.0))
        a.expt(F, [0], a.ge(a.Ez(z), 0.0))
        a.prob(F, a.ge(p, 0.25))
        a.maxinf(a.E(a.minof(x[0] + z, x[1] - z, 1.0 + 0.5 * x[0])), F)
        a.st(a.le(a.sum(x), 2.0))
        a.st(a.ge(x, -1.0))

    @reg
    def per_constraint_ambiguity(a):
        p = a.scen(2)
        x = a.dvar(2)
        z = a.rvar(())
        F = a.ambiguity()
        a.supp(F, None, a.ge(z, -1.0), a.le(z, 1.0))
        G = a.ambiguity()
        a.supp(G, [0], a.ge(z, 0.0), a.le(z, 2.0))
        a.supp(G, [1], a.ge(z, -2.0), a.le(z, 0.0))
        a.prob(G, a.ge(p, 0.375))
        a.minsup(a.E(-1.0 * x[0] - x[1] + 0.5 * x[0] * z), F)
        a.st(a.le(a.E(x[0] * z + x[1]), 2.0), forall=G)
        a.st(a.le(x[0] * z - x[1], 1.5), forall=G)
        a.st(a.ge(x, -2.0))
        a.st(a.le(x, 2.0))

    @reg
    def wasserstein_1d(a):
        """Type-1 Wasserstein ball around 2 samples through the lifted variable u >= |z - zhat_s|."""
        p = a.scen(2)
        x = a.dvar(())
        z = a.rvar(())
        u = a.rvar(())
        F = a.ambiguity()
        for s, zh in enumerate([0.5, 2.0]):
            a.supp(F, [s], a.le(a.abs(z - zh), u), a.ge(z, -1.0), a.le(z, 4.0), a.le(u, 4.5))
        a.expt(F, None, a.le(a.Ez(u), 0.5))
        a.prob(F, a.eq(p, A([0.5, 0.5])))
        a.minsup(a.E(a.maxof(1.5 * (x - z), 2.0 * (z - x))), F)
        a.st(a.ge(x, 0.0))
        a.st(a.le(x, 4.0))

    @reg
    def expectation_equality(a):
        """E(...) == affine is an EQUALITY (both directions are enforced)."""
        p = a.scen(2)
        x = a.dvar(())
        y = a.dvar(())
        z = a.rvar(())
        a.aff(y, z)
        F = a.ambiguity()
        a.supp(F, None, a.ge(z, 0.0), a.le(z, 2.0))
        a.expt(F, None, a.eq(a.Ez(z), 1.0))
        a.minsup(a.E(x + 0.25 * y), F)
        a.st(a.eq(a.E(y), x))
        a.st(a.ge(y, z))
        a.st(a.le(y, 6.0))
        a.st(a.ge(x, -4.0))
        a.st(a.le(x, 4.0))

    @reg
    def expectation_sum(a):
        """E(y).sum() is the sum of expectations, not a robust sum."""
        p = a.scen(2)
        t = a.dvar(())
        y = a.dvar(2)
        z = a.rvar(2)
        a.aff(y, z)
        F = a.ambiguity()
        a.supp(F, None, a.ge(z, -1.0), a.le(z, 1.0))
        a.expt(F, None, a.eq(a.Ez(z), 0.0))
        a.minsup(a.E(t), F)
        a.st(a.le(a.E(y).sum(), t))
        a.st(a.ge(y, z))
        a.st(a.le(y, 4.0))
        a.st(a.ge(t, -4.0))

    def outside(order):
        def f(a):
            p = a.scen(2)
            t = a.dvar(())
            x = a.dvar(2)
            z = a.rvar(())
            w = a.rvar(2)
            F = a.ambiguity()
            a.supp(F, None, a.ge(z, -1.0), a.le(z, 1.5), a.ge(w, -1.0), a.le(w, 1.0))
            a.expt(F, None, a.eq(a.Ez(z), 0.0), a.eq(a.Ez(w), 0.0))
            a.minsup(a.E(t), F)
            ex = a.E(a.sum(x))
            if order == 'rand_first':
                a.st(a.le(a.plus(z, ex), t))
                a.st(a.le(a.plus(w[0], a.E(x[1])), t + 0.25))
            elif order == 'exp_first':
                a.st(a.le(a.plus(ex, z), t))
                a.st(a.le(a.plus(a.E(x[1]), w[0]), t + 0.25))
            else:
                a.st(a.le(a.plus(2.0 * z - 0.5 * w[1], ex), t))
                a.st(a.le(a.plus(a.E(x[1]), 0.5 * w[0]), t + 0.25))
            a.st(a.ge(x, 0.5))
            a.st(a.le(x, 3.0))
            a.st(a.ge(t, -8.0))
        f.__name__ = 'random_outside_expectation_' + order
        f.__doc__ = 'A random variable written OUTSIDE E() next to an expectation of static decisions stays robust, in either operand order.'
        return f

    for order in ('rand_first', 'exp_first', 'scaled'):
        reg(outside(order))

    @reg
    def adaptive_equality_own_set(a):
        """An equality on an affinely adaptive decision with its OWN ambiguity set (not the default one)."""
        p = a.scen(1)
        x = a.dvar(())
        y = a.dvar(())
        z = a.rvar(())
        a.aff(y, z)
        F = a.ambiguity()
        a.supp(F, None, a.ge(z, 0.0), a.le(z, 2.0))
        G = a.ambiguity()
        a.supp(G, None, a.eq(z, 1.0))
        a.minsup(a.E(x), F)
        a.st(a.ge(y, 3.0 * z))
        a.st(a.eq(y, 2.0 * x), forall=G)
        a.st(a.le(y, 10.0))
        a.st(a.ge(y, -10.0))
        a.st(a.ge(x, -5.0))

    @reg
    def adaptive_abs(a):
        """A convex function of an affinely adaptive decision: |y(z)| <= c must hold for every z (or be refused)."""
        p = a.scen(1)
        x = a.dvar(())
        y = a.dvar(())
        z = a.rvar(())
        a.aff(y, z)
        F = a.ambiguity()
        a.supp(F, None, a.ge(z, -1.0), a.le(z, 1.0))
        a.maxinf(a.E(y - 3.0 * z + 0.0 * x), F)
        a.st(a.le(a.abs(y), 1.0))
        a.st(a.ge(x, 0.0))
        a.st(a.le(x, 1.0))

    @reg
    def adaptive_abs_rhs(a):
        """... and on the affine side of a convex constraint: |x| <= y(z) for every z."""
        p = a.scen(1)
        x = a.dvar(())
        y = a.dvar(())
        z = a.rvar(())
        a.aff(y, z)
        F = a.ambiguity()
        a.supp(F, None, a.ge(z, -1.0), a.le(z, 1.0))
        a.maxinf(a.E(x + 0.0 * y), F)
        a.st(a.le(a.abs(x), y))
        a.st(a.le(y, 1.0 + z))

    @reg
    def adaptive_slice_abs(a):
        """The same with the adaptation declared through a slice, y[0].adapt(z)."""
        p = a.scen(1)
        y = a.dvar(2)
        z = a.rvar(())
        a.aff(y, z, 0)
        F = a.ambiguity()
        a.supp(F, None, a.ge(z, -1.0), a.le(z, 1.0))
        a.maxinf(a.E(y[0] - 3.0 * z + 0.0 * y[1]), F)
        a.st(a.le(a.abs(y[0:1]), 1.0))
        a.st(a.ge(y[1], 0.0))
        a.st(a.le(y[1], 1.0))

    @reg
    def deterministic_dro(a):
        p = a.scen(2)
        x = a.dvar(2)
        a.min(a.sum(A([1.0, 2.0]) * x))
        a.st(a.ge(x[0] + x[1], 1.0))
        a.st(a.ge(x, -1.0))
        a.st(a.le(a.abs(x[0] - x[1]), 0.5))
    return M


# ------------------------------------------------------------------ exponential-cone probability sets (C03 only)
def soc_members(tier='thorough'):
    """Members whose supports / expectation sets carry second-order-cone constraints (balls, shifted balls, second-moment
    liftings, norm-bounded means): decided in moment form (rsv.dromoments), soundness only (C03)."""
    M = {}

    def reg(f):
        M[f.__name__] = f
        return f

    @reg
    def soc_ball_supports(a):
        """Ball and shifted-ball supports per scenario, box on the mean, lower bounds on the probabilities."""
        p = a.scen(2)
        x = a.dvar(2)
        z = a.rvar(2)
        F = a.ambiguity()
        a.supp(F, [0], a.le(a.norm(z, 2), 1.5))
        a.supp(F, [1], a.le(a.norm(z - A([1.0, 0.5]), 2), 1.0), a.ge(z[0], 0.25))
        a.prob(F, a.ge(p, 0.25))
        a.minsup(a.E(a.maxof(a.sum(x * z), 1.0 - x[0], 0.5 * x[1] - z[0])), F)
        a.st(a.le(a.E(x[0] * z[1] + x[1]), 1.5))
        a.st(a.ge(x, -2.0))
        a.st(a.le(x, 2.0))

    @reg
    def soc_ball_supports_mean(a):
        """As above with a box on the overall mean: 1400-1600 linearised rows, decided by the lazy sub-system loop of
        tv.rlt_refute (exact simplex on the full system does not finish in minutes)."""
        p = a.scen(2)
        x = a.dvar(2)
        z = a.rvar(2)
        F = a.ambiguity()
        a.supp(F, [0], a.le(a.norm(z, 2), 1.5))
        a.supp(F, [1], a.le(a.norm(z - A([1.0, 0.5]), 2), 1.0), a.ge(z[0], 0.25))
        a.expt(F, None, a.le(a.Ez(z), 0.75), a.ge(a.Ez(z), -0.25))
        a.prob(F, a.ge(p, 0.25))
        a.minsup(a.E(a.maxof(a.sum(x * z), 1.0 - x[0], 0.5 * x[1] - z[0])), F)
        a.st(a.le(a.E(x[0] * z[1] + x[1]), 1.5))
        a.st(a.ge(x, -2.0))
        a.st(a.le(x, 2.0))

    @reg
    def soc_mean_variance(a):
        """Second-moment information through the lifting square(z) <= u, E(u) <= sigma^2 + mu^2."""
        p = a.scen(1)
        x = a.dvar(())
        z = a.rvar(())
        u = a.rvar(())
        F = a.ambiguity()
        a.supp(F, None, a.le(a.square(z), u), a.le(u, 9.0))
        a.expt(F, None, a.eq(a.Ez(z), 0.5), a.le(a.Ez(u), 1.25))
        a.minsup(a.E(a.maxof(1.5 * (x - z), 2.0 * (z - x))), F)
        a.st(a.ge(x, -3.0))
        a.st(a.le(x, 3.0))

    @reg
    def soc_standardised_second_moment(a):
        """Standardised second-moment lifting per scenario: (1/sigma_s^2) * square(z) <= u, E(u) <= 1 (scaled squares)."""
        p = a.scen(2)
        x = a.dvar(())
        z = a.rvar(())
        u = a.rvar(())
        F = a.ambiguity()
        a.supp(F, [0], a.le(0.25 * a.square(z), u), a.le(u, 9.0))
        a.supp(F, [1], a.le(4.0 * a.square(z - 0.5), u), a.le(u, 9.0))
        a.expt(F, None, a.le(a.Ez(u), 1.0))
        a.prob(F, a.eq(p, A([0.5, 0.5])))
        a.minsup(a.E(a.maxof(1.5 * (x - z), 2.0 * (z - x))), F)
        a.st(a.ge(x, -3.0))
        a.st(a.le(x, 6.0))

    @reg
    def soc_exp_mean_bound(a):
        """Exponential-cone constraint in an expectation set: exptset(exp(E(z)) <= 1.2), i.e. E(z) <= log 1.2 (finding 41: such
        constraints used to be dropped from the ambiguity set)."""
        p = a.scen(2)
        x = a.dvar(())
        z = a.rvar(())
        F = a.ambiguity()
        a.supp(F, [0], a.ge(z, -1.0), a.le(z, 3.0))
        a.supp(F, [1], a.ge(z, 0.0), a.le(z, 4.0))
        a.expt(F, None, a.le(a.exp(a.Ez(z)), 1.2))      # binding: 1.6146 with it, 1.85 without
        a.prob(F, a.eq(p, A([0.5, 0.5])))
        a.minsup(a.E(a.maxof(2.0 * (z - x), 0.5 * (x - z))), F)
        a.st(a.ge(x, -2.0))
        a.st(a.le(x, 5.0))

    @reg
    def soc_mean_ball(a):
        """Box supports, the mean of an event constrained to a ball; event-wise decision."""
        p = a.scen(2)
        x = a.dvar(())
        y = a.dvar(())
        z = a.rvar(2)
        a.evt(y, [1])
        F = a.ambiguity()
        a.supp(F, [0], a.ge(z, -1.0), a.le(z, 1.0))
        a.supp(F, [1], a.ge(z, -0.5), a.le(z, 2.0))
        a.expt(F, None, a.le(a.norm(a.Ez(z), 2), 0.5))
        a.prob(F, a.eq(p, A([0.25, 0.75])))
        a.minsup(a.E(a.maxof(x * z[0] + y, 2.0 * y - x + 0.5 * z[1], -1.0 * y)), F)
        a.st(a.ge(x, -2.0))
        a.st(a.le(x, 2.0))
        a.st(a.ge(y, -3.0))
        a.st(a.le(y, 3.0))

    @reg
    def soc_recourse(a):
        """Affinely adaptive recourse against a ball support: a plain robust row and an expected cost."""
        p = a.scen(2)
        x = a.dvar(())
        y = a.dvar(())
        z = a.rvar(2)
        a.aff(y, z)
        F = a.ambiguity()
        a.supp(F, [0], a.le(a.norm(z, 2), 1.0))
        a.supp(F, [1], a.le(a.norm(z, 2), 2.0), a.ge(z[1], -0.5))
        a.expt(F, None, a.eq(a.Ez(z), A([0.25, 0.0])))
        a.prob(F, a.ge(p, A([0.5, 0.125])))
        a.minsup(a.E(x + 0.5 * y), F)
        a.st(a.ge(y, z[0] + z[1] - x))
        a.st(a.ge(y, 0.0))
        a.st(a.ge(x, 0.0))
        a.st(a.le(x, 5.0))
    return M


def kl_members():
    M = {}

    def reg(f):
        M[f.__name__] = f
        return f

    @reg
    def kl_saa_newsvendor(a):
        """KL ball around the empirical distribution, singleton supports."""
        p = a.scen(3)
        x = a.dvar(())
        z = a.rvar(())
        F = a.ambiguity()
        for s, v in enumerate([1.0, 2.5, 4.0]):
            a.supp(F, [s], a.eq(z, v))
        a.prob(F, a.kldiv(p, A([0.25, 0.5, 0.25]), 0.125))
        a.minsup(a.E(a.maxof(2.0 * (x - z), 1.5 * (z - x))), F)
        a.st(a.ge(x, 0.0))
        a.st(a.le(x, 5.0))

    @reg
    def kl_affine_cost(a):
        p = a.scen(3)
        x = a.dvar(2)
        z = a.rvar(2)
        F = a.ambiguity()
        for s, v in enumerate([[1.0, 0.0], [0.0, 1.0], [-1.0, 0.5]]):
            a.supp(F, [s], a.eq(z, A(v)))
        a.prob(F, a.kldiv(p, A([0.5, 0.25, 0.25]), 0.0625), a.ge(p, A([0.375, 0.0, 0.0])))
        a.minsup(a.E(a.sum(x * z) + 0.5 * x[0]), F)
        a.st(a.ge(x, -1.0))
        a.st(a.le(x, 1.0))
        a.st(a.eq(a.sum(x), 0.5))

    @reg
    def kl_box_supports(a):
        """KL probabilities and interval supports per scenario."""
        p = a.scen(2)
        x = a.dvar(())
        z = a.rvar(())
        F = a.ambiguity()
        a.supp(F, [0], a.ge(z, 0.0), a.le(z, 1.0))
        a.supp(F, [1], a.ge(z, 2.0), a.le(z, 3.0))
        a.prob(F, a.kldiv(p, A([0.5, 0.5]), 0.125))
        a.minsup(a.E(a.maxof(x - z, 0.5 * (z - x))), F)
        a.st(a.ge(x, -1.0))
        a.st(a.le(x, 4.0))

    @reg
    def kl_expectation_constraint(a):
        p = a.scen(3)
        x = a.dvar(())
        y = a.dvar(())
        z = a.rvar(())
        F = a.ambiguity()
        for s, v in enumerate([0.5, 1.0, 2.0]):
            a.supp(F, [s], a.eq(z, v))
        a.prob(F, a.kldiv(p, A([0.25, 0.25, 0.5]), 0.125))
        a.minsup(a.E(y - x), F)
        a.st(a.le(a.E(x * z - y), 0.0), forall=F)
        a.st(a.ge(x, 0.0))
        a.st(a.le(x, 2.0))
        a.st(a.ge(y, -5.0))
        a.st(a.le(y, 5.0))

    @reg
    def kl_eventwise(a):
        """Event-wise recourse under a KL ball."""
        p = a.scen(3)
        x = a.dvar(())
        y = a.dvar(())
        z = a.rvar(())
        a.evt(y, [2])
        F = a.ambiguity()
        for s, v in enumerate([1.0, 2.0, 4.0]):
            a.supp(F, [s], a.eq(z, v))
        a.prob(F, a.kldiv(p, A([0.5, 0.25, 0.25]), 0.125))
        a.minsup(a.E(x + 2.0 * y), F)
        a.st(a.ge(x + y, z), forall=F)
        a.st(a.ge(x, 0.0))
        a.st(a.ge(y, 0.0))
        a.st(a.le(x, 10.0))
        a.st(a.le(y, 10.0))

    @reg
    def entropy_probabilities(a):
        p = a.scen(3)
        x = a.dvar(())
        z = a.rvar(())
        F = a.ambiguity()
        for s, v in enumerate([1.0, 2.5, 4.0]):
            a.supp(F, [s], a.eq(z, v))
        a.prob(F, a.entropy_ge(p, 1.0))
        a.minsup(a.E(a.maxof(2.0 * (x - z), 1.5 * (z - x))), F)
        a.st(a.ge(x, 0.0))
        a.st(a.le(x, 5.0))
    return M


def chain_member(ci, form):
    """k*E(maxof(...)) + affine, built by a chain of operations on the real expression, used on its convex side in a dro
    model (ExpPiecewiseConvex); the pieces include decision-only pieces with non-zero constants."""
    from .detgen import MEANING_CHAINS, chain_apply
    chain = MEANING_CHAINS[ci]

    def desc(a):
        p = a.scen(3)
        x = a.dvar(())
        y = a.dvar(())
        u = a.dvar(())
        z = a.rvar(())
        F = a.ambiguity()
        for s, v in enumerate([-1.0, 0.5, 2.0]):
            a.supp(F, [s], a.eq(z, v))
        a.prob(F, a.eq(p, A([0.25, 0.5, 0.25])))
        f = a.E(a.maxof(x * z, 0.5 * x - 1.0, 1.0 + 0.0 * x)) if form != 'min' else \
            a.E(a.minof(x * z, 0.5 * x - 1.0, 1.0 + 0.0 * x))
        g, k = chain_apply(f, chain, y)
        convex = (k > 0) if form != 'min' else (k < 0)
        a.st(a.le(g, u) if convex else a.ge(g, u), forall=F)
        (a.minsup if convex else a.maxinf)(a.E(u + 0.25 * y), F)
        a.st(a.ge(x, -2.0))
        a.st(a.le(x, 2.0))
        a.st(a.ge(y, -2.0))
        a.st(a.le(y, 2.0))
        a.st(a.ge(u, -40.0))
        a.st(a.le(u, 40.0))
    desc.__name__ = 'chainE%d%s' % (ci, form)
    return desc


def random_kl_member(seed):
    """Seeded dro member whose probability set is a KL ball (or an entropy level set): 2-3 scenarios, singleton or interval
    supports of a scalar random variable, dyadic data, affine / two-piece objective, optional expectation constraint."""
    import random
    r = random.Random(seed)
    ns = r.choice([2, 3, 3])
    phat = {2: [[0.5, 0.5], [0.25, 0.75]], 3: [[0.25, 0.5, 0.25], [0.5, 0.25, 0.25], [0.125, 0.375, 0.5]]}[ns]
    q = r.choice(phat)
    rad = r.choice([0.0625, 0.125, 0.25, 0.5])
    pts = sorted(r.sample([0.0, 0.5, 1.0, 1.5, 2.0, 2.5, 3.0, 4.0], ns))
    interval = r.random() < 0.35
    use_entropy = r.random() < 0.2
    pieces = r.choice([1, 2, 2])
    c1, c2 = r.choice([0.5, 1.0, 2.0, 3.0]), r.choice([0.5, 1.0, 1.5])
    econs = r.random() < 0.4
    lim = r.choice([2.0, 3.0, 4.0])

    def desc(a):
        p = a.scen(ns)
        x = a.dvar(())
        y = a.dvar(())
        z = a.rvar(())
        F = a.ambiguity()
        for s, v in enumerate(pts):
            if interval:
                a.supp(F, [s], a.ge(z, v), a.le(z, v + 0.25))
            else:
                a.supp(F, [s], a.eq(z, v))
        if use_entropy:
            a.prob(F, a.entropy_ge(p, 0.5 if ns == 2 else 0.875))
        else:
            a.prob(F, a.kldiv(p, A(q), rad))
        if pieces == 2:
            a.minsup(a.E(a.maxof(c1 * (x - z), c2 * (z - x)) + 0.25 * y), F)
        else:
            a.minsup(a.E(c1 * x - c2 * z * x + 0.25 * y), F)
        if econs:
            a.st(a.le(a.E(z - x - y), 0.0), forall=F)
        else:
            a.st(a.ge(x + y, 0.5))
        a.st(a.ge(x, 0.0))
        a.st(a.le(x, lim))
        a.st(a.ge(y, 0.0))
        a.st(a.le(y, 5.0))
    desc.__name__ = 'randkl%d' % seed
    return desc


# ------------------------------------------------------------------ seeded random members
def random_member(seed):
    """A random dro model inside the structural bound (1-3 scenarios, dim z <= 2, polyhedral sets,
    event-wise and affine adaptation, affine / bi-affine / piecewise expected objective, E- and plain rows)."""
    import random
    r = random.Random(seed)
    ns = r.choice([1, 2, 2, 3])
    nz = r.choice([1, 1, 2])
    if ns * 2 ** nz > 8:
        nz = 1          # bound: at most 8 (scenario, support vertex) pairs, i.e. weight polytopes in dimension <= 8
    nx = r.choice([1, 2])
    g = lambda: r.choice([-1.5, -1, -0.5, 0.5, 1, 1.5, 2])
    labels = r.choice([None, None, ['s%d' % i for i in range(ns)]])
    supp = []
    for s in range(ns):
        lo = [r.choice([-2, -1, -0.5, 0]) for _ in range(nz)]
        hi = [l + r.choice([0.5, 1, 2]) for l in lo]
        supp.append((lo, hi))
    events = []
    if ns >= 2 and r.random() < 0.6:
        events.append([r.randrange(ns)])
        if ns == 3 and r.random() < 0.4:
            rest = [p for p in range(ns) if p not in events[0]]
            events.append([r.choice(rest)])
    affine = r.random() < 0.35
    mean_all = r.random() < 0.6
    mean_sub = ns >= 2 and r.random() < 0.5
    sub = sorted(r.sample(range(ns), r.choice([1, 2]) if ns > 2 else 1)) if mean_sub else None
    pmin = r.choice([0.125, 0.25]) if ns > 1 else None
    pnorm = ns > 1 and r.random() < 0.3
    okind = r.choice(['affine', 'biaffine', 'max', 'max'])
    sense = r.choice(['minsup', 'minsup', 'maxinf'])
    erow = r.random() < 0.5
    prow = r.random() < 0.6
    c = [g() for _ in range(nx)]
    M = [[r.choice([0, 0.5, -0.5, 1]) for _ in range(nz)] for _ in range(nx)]
    cz = [r.choice([0, 0.5, -0.5, 1]) for _ in range(nz)]
    pieces = [([g() for _ in range(nx)], [r.choice([0, 0.5, -1]) for _ in range(nz)], r.choice([0, 0.5, -0.5, 1])) for _ in range(r.choice([2, 3]))]
    er = ([g() for _ in range(nx)], [[r.choice([0, 0.5, -0.5]) for _ in range(nz)] for _ in range(nx)])
    pr = ([g() for _ in range(nx)], [r.choice([0, 0.5, -1]) for _ in range(nz)])

    def desc(a):
        p = a.scen(ns, labels)
        x = a.dvar(nx)
        z = a.rvar(nz)
        y = a.dvar(()) if affine else None
        for ev in events:
            a.evt(x, ev)
        if affine:
            a.aff(y, z, None, 0)
        F = a.ambiguity()
        mid = []
        for s, (lo, hi) in enumerate(supp):
            a.supp(F, [s], a.ge(z, A(lo)), a.le(z, A(hi)))
            mid.append([(l + h) / 2 for l, h in zip(lo, hi)])
        if mean_all:
            mlo = [min(m[j] for m in mid) - 0.125 for j in range(nz)]
            mhi = [max(m[j] for m in mid) + 0.125 for j in range(nz)]
            a.expt(F, None, a.ge(a.Ez(z), A(mlo)), a.le(a.Ez(z), A(mhi)))
        if sub is not None:
            mhi = [max(mid[s][j] for s in sub) + 0.25 for j in range(nz)]
            a.expt(F, sub, a.le(a.Ez(z), A(mhi)))
        if pmin is not None:
            if pnorm:
                a.prob(F, a.ge(p, pmin / 2), a.le(a.norm(p - A([1.0 / ns] * ns), 1), 0.25))
            else:
                a.prob(F, a.ge(p, pmin))
        lin = a.sum(A(c) * x)
        sgn = 1.0 if sense == 'minsup' else -1.0
        if okind == 'affine':
            obj = lin + a.sum(A(cz) * z)
        elif okind == 'biaffine':
            obj = lin + x @ A(M) @ z
        else:
            ps = [a.sum(A(pc) * x) + a.sum(A(pz) * z) + p0 for pc, pz, p0 in pieces]
            obj = a.maxof(*ps) if sense == 'minsup' else a.minof(*ps)
        if y is not None and okind != 'max':
            obj = obj + sgn * 0.5 * y
        (a.minsup if sense == 'minsup' else a.maxinf)(a.E(obj), F)
        if erow:
            a.st(a.le(a.E(a.sum(A(er[0]) * x) + x @ A(er[1]) @ z), 4.0))
        if prow:
            a.st(a.le(a.sum(A(pr[0]) * x) + a.sum(A(pr[1]) * z), 5.0))
        if y is not None:
            a.st(a.ge(y, z[0] - 1.0))
            a.st(a.le(y, 4.0))
            a.st(a.ge(y, -4.0))
        a.st(a.ge(x, -2.0))
        a.st(a.le(x, 2.0))
    desc.__name__ = 'rand%d' % seed
    return desc


def random_soc_member(seed):
    """Seeded dro member with conic supports / expectation sets: 1-2 scenarios, z in R^1..2, per scenario a (shifted, scaled)
    ball possibly cut by a half-space, or the second-moment lifting square(z) <= u; mean information as a box, an equality or a
    norm ball; objective E(max of 2-3 affine / bi-affine pieces) or bi-affine; an E-constraint and / or a plain robust row with
    affine recourse."""
    import random
    r = random.Random(seed)
    ns = r.choice([1, 2, 2])
    lifted = r.random() < 0.35
    nz = 1 if lifted else r.choice([1, 2, 2])
    nx = r.choice([1, 2])
    g = lambda: r.choice([-2, -1, -0.5, 0.5, 1, 1.5, 2])
    cen = [[r.choice([-1, -0.5, 0, 0.5, 1]) for _ in range(nz)] for _ in range(ns)]
    rad = [r.choice([0.5, 1, 1.5]) for _ in range(ns)]
    scl = [[r.choice([1, 1, 0.5, 2]) for _ in range(nz)] for _ in range(ns)]
    cut = [r.random() < 0.4 for _ in range(ns)]
    ubar = r.choice([4, 6.25, 9])
    mean = r.choice(['box', 'eq', 'ball', 'none'])
    pmin = r.choice([None, 0.125, 0.25]) if ns > 1 else None
    okind = r.choice(['max', 'max', 'biaffine'])
    recourse = (not lifted) and r.random() < 0.4
    erow = r.random() < 0.5
    c = [g() for _ in range(nx)]
    M = [[r.choice([0, 0.5, -0.5, 1]) for _ in range(nz)] for _ in range(nx)]
    pieces = [([g() for _ in range(nx)], [r.choice([0, 0.5, -1, 1]) for _ in range(nz)], r.choice([0, 0.5, -0.5, 1])) for _ in range(r.choice([2, 3]))]
    er = ([g() for _ in range(nx)], [[r.choice([0, 0.5, -0.5]) for _ in range(nz)] for _ in range(nx)])
    sig = r.choice([0.5, 1.0, 2.0])
    sq = [r.choice([1.0, 0.25, 4.0, 2.25]) for _ in range(ns)]      # exact squares: both coordinate systems of the rotated cone are rational

    def desc(a):
        p = a.scen(ns)
        x = a.dvar(nx)
        z = a.rvar(nz)
        u = a.rvar(nz) if lifted else None
        y = a.dvar(()) if recourse else None
        if recourse:
            a.aff(y, z)
        F = a.ambiguity()
        for s in range(ns):
            if lifted:
                a.supp(F, [s], a.le(sq[s] * a.square(z - A(cen[s])), u), a.le(u, ubar))
            else:
                cons = [a.le(a.norm(A(scl[s]) * (z - A(cen[s])), 2), rad[s])]
                if cut[s]:
                    cons.append(a.ge(z[0], cen[s][0] - 0.25 * rad[s]))
                a.supp(F, [s], *cons)
        lo = [min(cen[s][j] for s in range(ns)) - 0.25 for j in range(nz)]
        hi = [max(cen[s][j] for s in range(ns)) + 0.25 for j in range(nz)]
        mid = [(l + h) / 2 for l, h in zip(lo, hi)]
        if lifted:
            a.expt(F, None, a.ge(a.Ez(z), A(lo)), a.le(a.Ez(z), A(hi)), a.le(a.Ez(u), sig + 0.5))
        elif mean == 'box':
            a.expt(F, None, a.ge(a.Ez(z), A(lo)), a.le(a.Ez(z), A(hi)))
        elif mean == 'eq' and ns == 1:
            a.expt(F, None, a.eq(a.Ez(z), A(cen[0])))
        elif mean == 'ball':
            a.expt(F, None, a.le(a.norm(a.Ez(z) - A(mid), 2), 0.75))
        if pmin is not None:
            a.prob(F, a.ge(p, pmin))
        lin = a.sum(A(c) * x)
        if okind == 'biaffine':
            obj = lin + x @ A(M) @ z
        else:
            obj = a.maxof(*[a.sum(A(pc) * x) + a.sum(A(pz) * z) + p0 for pc, pz, p0 in pieces])
        if recourse:
            obj = obj + 0.5 * y if okind == 'biaffine' else obj
        a.minsup(a.E(obj), F)
        if erow:
            a.st(a.le(a.E(a.sum(A(er[0]) * x) + x @ A(er[1]) @ z), 4.0))
        if recourse:
            a.st(a.ge(y, a.sum(z) - a.sum(x)))
            a.st(a.ge(y, 0.0))
            a.st(a.le(y, 12.0))
        a.st(a.ge(x, -2.0))
        a.st(a.le(x, 2.0))
    desc.__name__ = 'randsoc%d' % seed
    return desc


def lookup(name):
    """Member by name: curated members or 'rand<seed>'."""
    M = members()
    if name in M:
        return M[name]
    K = kl_members()
    if name in K:
        return K[name]
    if name.startswith('soc_'):
        return soc_members()[name]
    if name.startswith('chainE'):
        import re
        mm = re.match(r'chainE(\d+)(max|min)$', name)
        return chain_member(int(mm.group(1)), mm.group(2))
    if name.startswith('randkl'):
        return random_kl_member(int(name[6:]))
    if name.startswith('randsoc'):
        return random_soc_member(int(name[7:]))
    if name.startswith('rand'):
        return random_member(int(name[4:]))
    raise KeyError(name)
