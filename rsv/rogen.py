"""ro model family: JSON-able specs -> description functions (run on both API sides)."""
import copy
import itertools
import numpy as np

GRID = [0, 0.5, -0.5, 1, -1, 1.5, -1.5, 2, -2, 3]


def arr(x):
    return np.array(x, dtype=float)


# ------------------------------------------------------------------ spec -> description
def desc_from_spec(spec):
    def desc(a):
        # decision variables flagged 'late' are declared by the real side only after the first row was added AND the model was
        # formulated once (re-solving after adding variables must equal building the final model from scratch)
        xs = [None if (d.get('late') and a.kind == 'real') else a.dvar(tuple(d['shape']), d.get('vtype', 'C'))
              for d in spec.get('dv', [])]
        zs = [a.rvar(tuple(s)) for s in spec.get('rv', [])]
        ys = []
        for l in spec.get('ldr', []):
            y = a.ldr(tuple(l['shape']))
            for dep in l.get('deps', []):
                yidx = _idx(dep.get('yidx'))
                zidx = _idx(dep.get('zidx'))
                a.adapt(y, zs[dep['z']], yidx, zidx)
            ys.append(y)
        Y = [a.use(y) for y in ys]
        sets = [a.uset(*[set_cons(a, zs, sc) for sc in s]) for s in spec.get('sets', [])]
        for b in spec.get('bounds', []):
            x = xs[b['x']]
            if x is None:
                continue
            if b.get('lo') is not None:
                a.st(a.ge(x, b['lo']))
            if b.get('hi') is not None:
                a.st(a.le(x, b['hi']))
        hist = spec.get('history', []) if a.kind == 'real' else []
        real = a.kind == 'real'

        def objective():
            ob = spec['obj']
            if ob.get('pieces'):
                f = a.maxof if ob['pw'] == 'max' else a.minof
                e = f(*[expr(a, xs, Y, zs, p) for p in ob['pieces']])
                if ob.get('plus') is not None:
                    e = e + expr(a, xs, Y, zs, ob['plus'])
            else:
                e = expr(a, xs, Y, zs, ob['e'])
            k = ob['kind']
            a.note('obj', e, None, k)
            if k == 'min':
                a.min(e)
            elif k == 'max':
                a.max(e)
            elif k == 'minmax':
                a.minmax(e, sets[ob['set']])
            else:
                a.maxmin(e, sets[ob['set']])

        def row_expr(row):
            # a row is affine (`e`) or piecewise: maxof(pieces) [+ plus]
            if row.get('pieces'):
                e = a.maxof(*[expr(a, xs, Y, zs, p) for p in row['pieces']])
                if row.get('plus') is not None:
                    e = e + expr(a, xs, Y, zs, row['plus'])
                return e
            return expr(a, xs, Y, zs, row['e'])

        dcount = [0]

        def decoy():
            # a throw-away robust constraint with its own SMALL set: defines and formulates another set in between.  The
            # sets are tight on purpose (a constraint of a decoy that leaks into a later set shrinks it visibly) and go
            # through every constraint list of the shared support model: bounds, linear rows, abs / 1-norm / inf-norm,
            # 2-norm, p-norm (power cones), exponential-cone atoms
            if not zs:
                return
            z = zs[0]
            zf = z.reshape((z.size,))
            d = (z * 1.0 + xs[0].sum() * 0.0 <= 100.0)
            rso = a.rso
            kinds = [
                lambda: d.forall(z >= -0.25, z <= 0.25),
                lambda: d.forall(rso.norm(zf, 1) <= 0.25),
                lambda: d.forall(abs(zf) <= 0.125),
                lambda: d.forall(rso.norm(zf, 'inf') <= 0.25, zf.sum() <= 0.125),
                lambda: d.forall(rso.norm(zf, 2) <= 0.25),
                lambda: d.forall(rso.pnorm(zf, 3) <= 0.25),
                lambda: d.forall(rso.exp(zf).sum() <= zf.size + 0.125, zf >= -0.125),
                lambda: d.forall(rso.entropy(zf + 1.0) >= -0.125, zf <= 0.25, zf >= -0.25),
            ]
            kinds[dcount[0] % len(kinds)]()
            dcount[0] += 1

        if 'objective_first' in hist or 'formulate_between' in hist or 'solve_between' in hist or any(x_ is None for x_ in xs):
            objective()
            obj_done = True
        else:
            obj_done = False
        rows = spec.get('rows', [])
        if 'late_forall' in hist:
            built = []
            for row in rows:
                e = row_expr(row)
                rhs = arr(row['rhs']) if isinstance(row['rhs'], list) else row['rhs']
                c = {'le': a.le, 'ge': a.ge, 'eq': a.eq}[row['sense']](e, rhs)
                a.note('row', e, rhs, row['sense'])
                built.append((c, row))
            for c, row in reversed(built):
                if row.get('set') is not None and hasattr(c, 'forall'):
                    c.forall(*a.sets[sets[row['set']]])
                decoy()
            for c, row in built:
                a.st(c)
        else:
            built_rows = {}
            deferred = []
            for ri, row in enumerate(rows):
                if 'decoy_sets' in hist:
                    decoy()
                e = row_expr(row)
                rhs = arr(row['rhs']) if isinstance(row['rhs'], list) else row['rhs']
                if real and row.get('same_object_as') is not None:
                    # the SAME constraint object is given to the model twice, each time with its own forall() set
                    c = built_rows[row['same_object_as']]
                else:
                    c = {'le': a.le, 'ge': a.ge, 'eq': a.eq}[row['sense']](e, rhs)
                built_rows[ri] = c
                a.note('row', e, rhs, row['sense'])
                if 'decoy_sets' in hist:
                    decoy()
                if real and spec.get('defer_st'):
                    # c1 = c.forall(S1); c2 = c.forall(S2); ...; st(c1); st(c2): the objects RETURNED by forall() are kept
                    # and handed to the model only after every forall() has been called
                    deferred.append(c.forall(*a.sets[sets[row['set']]]) if row.get('set') is not None else c)
                else:
                    a.st(c, forall=(sets[row['set']] if row.get('set') is not None else None))
                if 'decoy_sets' in hist:
                    decoy()
                if 'formulate_between' in hist:
                    a.m.do_math()
                    a.m.do_math(primal=False)
                    a.m.do_math()
                if 'solve_between' in hist and ri == 0:
                    import warnings
                    from .util import quiet
                    with quiet():
                        a.m.solve(display=False)
                        try:
                            a.m.get()
                        except Exception:
                            pass
                if ri == 0 and any(x_ is None for x_ in xs):
                    if not obj_done and spec['obj'].get('late_ok'):
                        pass
                    from .util import quiet as _q
                    with _q():
                        a.m.do_math()
                        if spec.get('late_solve'):
                            try:
                                a.m.solve(display=False)
                            except Exception:
                                pass
                    for k_, d_ in enumerate(spec.get('dv', [])):
                        if xs[k_] is None:
                            xs[k_] = a.dvar(tuple(d_['shape']), d_.get('vtype', 'C'))
                    for b in spec.get('bounds', []):
                        if spec['dv'][b['x']].get('late'):
                            if b.get('lo') is not None:
                                a.st(a.ge(xs[b['x']], b['lo']))
                            if b.get('hi') is not None:
                                a.st(a.le(xs[b['x']], b['hi']))
                if 'extra_decl' in hist and ri == 0:
                    a.m.do_math() if obj_done else None
                    a.m.dvar(2)
                    a.m.rvar(1)
        if real and spec.get('defer_st') and 'late_forall' not in hist:
            for cf in deferred:
                a.st(cf)
        if not obj_done:
            objective()
        if 'formulate_twice' in hist:
            a.m.do_math()
            a.m.do_math(primal=False)
            a.m.pupdate = a.m.pupdate
    return desc


def _idx(i):
    if i is None:
        return None
    if isinstance(i, list):
        return tuple(_idx1(j) for j in i)
    return _idx1(i)


def _idx1(j):
    if isinstance(j, dict):
        return slice(j.get('a'), j.get('b'), j.get('s'))
    return j


def expr(a, xs, Y, zs, e):
    """Scalar or vector expression from a term list.

    terms: ['c', v] constant | ['x', k, coef] coef*x_k summed | ['xi', k, idx, c] c*x_k[idx]
           ['y', k, coef] | ['yi', k, idx, c] | ['z', r, coef] | ['zi', r, idx, c]
           ['xz', k, r, M]  x_k @ M @ z_r | ['xzi', k, i, r, j, c]  c*x_k[i]*z_r[j]
           ['Ax', k, A] A@x_k (vector) | ['Bz', r, B] | ['Cy', k, C] | ['xmz', k, r] x_k*z_r elementwise
           ['vy', k] y_k itself | ['vx', k] | ['vz', r]
    """
    tot = None
    for t in e:
        op = t[0]
        if op == 'c':
            v = arr(t[1]) if isinstance(t[1], list) else t[1]
        elif op == 'x':
            v = a.sum(arr(t[2]) * xs[t[1]])
        elif op == 'xi':
            v = t[3] * xs[t[1]][_idx(t[2])]
        elif op == 'y':
            v = a.sum(arr(t[2]) * Y[t[1]])
        elif op == 'yi':
            v = t[3] * Y[t[1]][_idx(t[2])]
        elif op == 'z':
            v = a.sum(arr(t[2]) * zs[t[1]])
        elif op == 'zi':
            v = t[3] * zs[t[1]][_idx(t[2])]
        elif op == 'xz':
            v = xs[t[1]] @ arr(t[3]) @ zs[t[2]]
        elif op == 'zx':
            v = zs[t[2]] @ arr(t[3]) @ xs[t[1]]
        elif op == 'xzi':
            v = t[5] * xs[t[1]][_idx(t[2])] * zs[t[3]][_idx(t[4])]
        elif op == 'Ax':
            v = arr(t[2]) @ xs[t[1]]
        elif op == 'Bz':
            v = arr(t[2]) @ zs[t[1]]
        elif op == 'Cy':
            v = arr(t[2]) @ Y[t[1]]
        elif op == 'xmz':
            v = xs[t[1]] * zs[t[2]]
        elif op == 'vy':
            v = Y[t[1]] * 1.0 if len(t) < 3 else Y[t[1]] * t[2]
        elif op == 'vx':
            v = xs[t[1]] * (1.0 if len(t) < 3 else t[2])
        elif op == 'vz':
            v = zs[t[1]] * (1.0 if len(t) < 3 else t[2])
        elif op == 'T':
            v = expr(a, xs, Y, zs, t[1]).T           # transpose of a sub-expression (2-D bi-affine arrays, decision rules)
        elif op == 'reshape':
            v = expr(a, xs, Y, zs, t[2]).reshape(tuple(t[1]))
        elif op == 'sum':
            v = a.sum(expr(a, xs, Y, zs, t[2]), t[1])        # sum over ONE axis of a sub-expression (N-d bi-affine arrays, rules)
        else:
            raise ValueError(op)
        tot = v if tot is None else tot + v
    return tot


def set_cons(a, zs, sc):
    t = sc['t']
    z = zs[sc.get('z', 0)]
    if t == 'lo':
        return a.ge(z, arr(sc['v']) if isinstance(sc['v'], list) else sc['v'])
    if t == 'hi':
        return a.le(z, arr(sc['v']) if isinstance(sc['v'], list) else sc['v'])
    if t == 'lin':
        e = expr(a, [], [], zs, sc['e'])
        return {'le': a.le, 'ge': a.ge, 'eq': a.eq}[sc['sense']](e, sc['rhs'])
    if t == 'norm':
        arg = z
        if sc.get('scale') is not None:
            arg = arr(sc['scale']) * arg
        if sc.get('c') is not None:
            arg = arg - arr(sc['c'])
        return a.le(a.norm(arg, sc['p']), sc['r'])
    if t == 'abs':
        arg = z if sc.get('c') is None else z - arr(sc['c'])
        return a.le(a.abs(arg), arr(sc['r']) if isinstance(sc['r'], list) else sc['r'])
    if t == 'quad':
        return a.le(a.quad(z, sc['Q']), sc['r'])
    if t == 'sumsqr':
        return a.le(a.sumsqr(z), sc['r'])
    if t == 'kldiv':
        return a.kldiv(z, arr(sc['q']), sc['r'])
    if t == 'entropy':
        return a.ge(a.entropy(z if sc.get('c') is None else z + arr(sc['c'])), sc['r'])
    if t == 'sumexp':
        return a.le(a.sumexp(z if sc.get('scale') is None else arr(sc['scale']) * z), sc['r'])
    if t == 'explin':
        # exp(z_i) <= w_j element-wise against another random vector (lifted set)
        return a.le(a.exp(z), zs[sc['u']])
    if t == 'log':
        return a.ge(a.sumlog(z + arr(sc['c'])), sc['r'])
    if t == 'lift':
        # lifted set: u >= |z| (u = zs[sc['u']]) and sum(u) <= r
        u = zs[sc['u']]
        return [a.le(a.abs(z), u), a.le(a.sum(u), sc['r'])]
    raise ValueError(t)


# ------------------------------------------------------------------ exponential-cone uncertainty sets (C01 only)
def expset_specs():
    S = []
    simplex = [dict(t='lo', z=0, v=0.0), dict(t='lin', e=[['z', 0, 1.0]], sense='eq', rhs=1.0)]
    base = dict(dv=[dict(shape=[3]), dict(shape=[])], rv=[[3]],
                bounds=[dict(x=0, lo=0.0, hi=0.75), dict(x=1, lo=-10.0, hi=10.0)])

    def add(name, sets, rows, obj, **kw):
        d = dict(base)
        d.update(kw)
        d.update(name=name, sets=sets, rows=rows, obj=obj)
        S.append(d)
    cost = [['xz', 0, 0, [[1.0, 0, 0], [0, 2.0, 0], [0, 0, 4.0]]], ['x', 1, -1.0]]
    budget = dict(e=[['x', 0, 1.0]], sense='eq', rhs=1.0)
    kl = simplex + [dict(t='kldiv', z=0, q=[0.25, 0.25, 0.5], r=0.125)]
    add('expset-kl', [kl], [dict(e=cost, sense='le', rhs=0.0, set=0), budget], dict(kind='min', e=[['x', 1, 1.0]]))
    add('expset-kl-minmax', [kl], [budget],
        dict(kind='minmax', e=[['xz', 0, 0, [[1.0, 0, 0], [0, 2.0, 0], [0, 0, 4.0]]]], set=0))
    ent = simplex + [dict(t='entropy', z=0, r=0.75)]
    add('expset-entropy', [ent], [dict(e=cost, sense='le', rhs=0.0, set=0), budget], dict(kind='min', e=[['x', 1, 1.0]]))
    add('expset-entropy-ge', [ent], [dict(e=[['xz', 0, 0, [[1.0, 0, 0], [0, 2.0, 0], [0, 0, 4.0]]], ['x', 1, -1.0]],
                                         sense='ge', rhs=0.0, set=0), budget], dict(kind='max', e=[['x', 1, 1.0]]))
    se = [dict(t='sumexp', z=0, r=4.0), dict(t='lo', z=0, v=-1.0), dict(t='hi', z=0, v=1.0)]
    add('expset-sumexp', [se], [dict(e=cost, sense='le', rhs=0.0, set=0), budget], dict(kind='min', e=[['x', 1, 1.0]]))
    lg = [dict(t='log', z=0, c=[1.0, 1.0, 1.0], r=0.0), dict(t='hi', z=0, v=1.0)]
    add('expset-sumlog', [lg], [dict(e=cost, sense='le', rhs=0.0, set=0), budget], dict(kind='min', e=[['x', 1, 1.0]]))
    # two constraints, the first on a KL ball, the second on the whole simplex (its own, larger set)
    add('expset-kl-then-simplex', [kl, simplex],
        [dict(e=cost, sense='le', rhs=0.0, set=0),
         dict(e=[['xz', 0, 0, [[2.0, 0, 0], [0, 1.0, 0], [0, 0, 3.0]]], ['x', 1, -0.5]], sense='le', rhs=1.0, set=1), budget],
        dict(kind='min', e=[['x', 1, 1.0]]))
    # KL set and a decision rule
    add('expset-kl-ldr', [kl], [dict(e=[['xz', 0, 0, [[1.0, 0, 0], [0, 2.0, 0], [0, 0, 4.0]]], ['y', 0, -1.0]],
                                     sense='le', rhs=0.0, set=0),
                                dict(e=[['y', 0, 1.0], ['x', 1, -1.0]], sense='le', rhs=0.0, set=0), budget],
        dict(kind='min', e=[['x', 1, 1.0]]), ldr=[dict(shape=[], deps=[dict(z=0)])])
    return S


def random_expset_spec(rnd, i):
    """Seeded member with an exponential-cone uncertainty set: dimension 2-3, KL ball / entropy level set on the simplex or
    a sum-exp / sum-log set in a box; dyadic data (exact in binary, so that scalings inside RSOME are exact)."""
    n = rnd.choice([2, 3])
    kind = rnd.choice(['kl', 'kl', 'entropy', 'sumexp', 'sumlog'])
    simplex = [dict(t='lo', z=0, v=0.0), dict(t='lin', e=[['z', 0, 1.0]], sense='eq', rhs=1.0)]
    if kind == 'kl':
        q = {2: [[0.5, 0.5], [0.25, 0.75]], 3: [[0.25, 0.25, 0.5], [0.5, 0.25, 0.25], [0.125, 0.375, 0.5]]}[n]
        sets = simplex + [dict(t='kldiv', z=0, q=rnd.choice(q), r=rnd.choice([0.0625, 0.125, 0.25, 0.5]))]
    elif kind == 'entropy':
        sets = simplex + [dict(t='entropy', z=0, r=rnd.choice([0.25, 0.5, 0.625]) if n == 2 else rnd.choice([0.5, 0.75, 1.0]))]
    elif kind == 'sumexp':
        sets = [dict(t='sumexp', z=0, r=rnd.choice([3.0, 4.0, 6.0])), dict(t='lo', z=0, v=rnd.choice([-1.0, -0.5])),
                dict(t='hi', z=0, v=1.0)]
    else:
        sets = [dict(t='log', z=0, c=[1.0] * n, r=rnd.choice([0.0, -0.5])), dict(t='hi', z=0, v=rnd.choice([1.0, 2.0]))]
    M = [[(rnd.choice([-2, -1, 0.5, 1, 2, 4]) if a == b else rnd.choice([-1, 0.5, 1])) if a == b or rnd.random() < 0.3 else 0
          for b in range(n)] for a in range(n)]
    cost = [['xz', 0, 0, M], ['x', 1, -1.0]]
    rows = [dict(e=cost, sense=rnd.choice(['le', 'le', 'ge']), rhs=0.0, set=0),
            dict(e=[['x', 0, 1.0]], sense='eq', rhs=1.0)]
    sense = rows[0]['sense']
    d = dict(name='rand-expset%d-%s' % (i, kind), dv=[dict(shape=[n]), dict(shape=[])], rv=[[n]], sets=[sets], rows=rows,
             bounds=[dict(x=0, lo=0.0, hi=0.75), dict(x=1, lo=-10.0, hi=10.0)],
             obj=dict(kind=('min' if sense == 'le' else 'max'), e=[['x', 1, 1.0]]))
    if rnd.random() < 0.3:
        d['rows'] = [rows[1]]
        d['obj'] = dict(kind='minmax', e=[['xz', 0, 0, M]], set=0)
    return d


# ------------------------------------------------------------------ curated core
def box(lo, hi, z=0):
    out = []
    if lo is not None:
        out.append(dict(t='lo', z=z, v=lo))
    if hi is not None:
        out.append(dict(t='hi', z=z, v=hi))
    return out


def core_specs():
    S = []

    def add(name, **kw):
        kw['name'] = name
        S.append(kw)

    bx = [dict(x=0, lo=-4, hi=4)]
    # 1. static, box set with non-zero two-sided bounds, scalar robust rows, minmax objective
    add('static-box', dv=[dict(shape=[2])], rv=[[2]], sets=[box([-1, -0.5], [1, 2])], bounds=bx,
        rows=[dict(e=[['x', 0, [1, 1]], ['xz', 0, 0, [[1, 0], [0.5, -1]]], ['z', 0, [1, -1]]], sense='le', rhs=6),
              dict(e=[['x', 0, [1, -1]], ['zi', 0, 1, 0.5]], sense='ge', rhs=-5)],
        obj=dict(kind='minmax', set=0, e=[['x', 0, [-1, -2]], ['xz', 0, 0, [[0.5, 0], [0, 0.5]]]]))
    # 2. zero lower bounds (support.lb == 0 branch), upper bounds non-zero
    add('static-box-zero-lb', dv=[dict(shape=[2])], rv=[[2]], sets=[box(0, [1, 2])], bounds=bx,
        rows=[dict(e=[['x', 0, [1, 2]], ['xz', 0, 0, [[1, 1], [0, -1]]]], sense='le', rhs=5)],
        obj=dict(kind='minmax', set=0, e=[['x', 0, [-1, -1]], ['z', 0, [1, 1]]]))
    # 3. zero upper bounds (support.ub == 0 branch)
    add('static-box-zero-ub', dv=[dict(shape=[2])], rv=[[2]], sets=[box([-1, -2], 0)], bounds=bx,
        rows=[dict(e=[['x', 0, [1, 2]], ['xz', 0, 0, [[1, 1], [0, -1]]]], sense='le', rhs=5)],
        obj=dict(kind='minmax', set=0, e=[['x', 0, [-1, -1]], ['z', 0, [1, 1]]]))
    # 3a. vector-valued robust rows (several rows dualised in one call) over a box whose bounds are zero for some
    #     components only; every row binds at the optimum of min sum(x)
    add('vector-rows-mixed-zero', dv=[dict(shape=[3])], rv=[[3]], sets=[box([0, -1, -0.5], [1, 1, 1])],
        bounds=[dict(x=0, lo=-8, hi=8)],
        rows=[dict(e=[['vx', 0, 1.0], ['Bz', 0, [[-1, 0.5, 0], [0.5, -1, 1], [0, 2, -1]]]], sense='ge', rhs=[0.5, 1.0, -0.5], set=0)],
        obj=dict(kind='min', e=[['x', 0, [1, 1, 1]]]))
    add('vector-rows-mixed-zero-ub', dv=[dict(shape=[2])], rv=[[3]], sets=[box([-1, -2, -0.5], [0, 1, 0])],
        bounds=[dict(x=0, lo=-8, hi=8)],
        rows=[dict(e=[['vx', 0, 1.0], ['Bz', 0, [[1, -0.5, 2], [-1, 1, 0.5]]]], sense='le', rhs=[2.0, 1.0], set=0)],
        obj=dict(kind='max', e=[['x', 0, [1, 2]]]))
    # 3a'. several bound objects on the same random components, the looser ones stated last (bounds are intersected)
    add('static-box-overlap', dv=[dict(shape=[2])], rv=[[2]],
        sets=[box([-1, -0.5], [1, 2]) + [dict(t='lo', z=0, v=-3.0), dict(t='hi', z=0, v=[4.0, 2.5])]], bounds=bx,
        rows=[dict(e=[['x', 0, [1, 2]], ['xz', 0, 0, [[1, 1], [0, -1]]]], sense='le', rhs=5)],
        obj=dict(kind='minmax', set=0, e=[['x', 0, [-1, -1]], ['z', 0, [1, 1]], ['xz', 0, 0, [[0.5, 0], [0, 0.5]]]]))
    # 3a''. two constraints with DIFFERENT sets, the tighter set (budget / abs / inf-norm) attached first: the second row must
    #      be protected on its own, larger set (every worst case binds in min t1 + t2)
    I2 = [[1, 0], [0, 1]]
    for tag, first in [('budget', [dict(t='norm', p=1, r=1)] + box(-1, 1)), ('abs', [dict(t='abs', r=[0.5, 0.25])]),
                       ('inf', [dict(t='norm', p='inf', r=0.5)]), ('ball', [dict(t='norm', p=2, r=0.5)])]:
        add('multi-set-%s-then-box' % tag, dv=[dict(shape=[2]), dict(shape=[]), dict(shape=[])], rv=[[2]],
            sets=[first, box(-1, 1)],
            bounds=[dict(x=0, lo=0.5, hi=2), dict(x=1, lo=-10, hi=10), dict(x=2, lo=-10, hi=10)],
            rows=[dict(e=[['xz', 0, 0, I2], ['x', 1, -1.0]], sense='le', rhs=0, set=0),
                  dict(e=[['xz', 0, 0, [[1, 0], [0, -2]]], ['x', 2, -1.0]], sense='le', rhs=0, set=1)],
            obj=dict(kind='min', e=[['x', 1, 1.0], ['x', 2, 1.0], ['x', 0, [0.25, 0.25]]]))
    # 3a'''. an INTEGER variable declared after the model was formulated (auxiliary columns of the first formulation lie
    #       between the early and the late variables)
    for tag, solve in (('formulation', False), ('solve', True)):
        add('late-int-after-%s' % tag, dv=[dict(shape=[2]), dict(shape=[], vtype='I', late=True)], rv=[[2]], sets=[box(-1, 1)],
            bounds=[dict(x=0, lo=-4, hi=4), dict(x=1, lo=-3, hi=1.5)], late_solve=solve,
            rows=[dict(e=[['x', 0, [1, 1]], ['xz', 0, 0, [[0.5, 0], [0, 0.25]]]], sense='le', rhs=3),
                  dict(e=[['x', 0, [1, 1]], ['x', 1, -1.0]], sense='le', rhs=0.25)],
            obj=dict(kind='minmax', set=0, e=[['x', 0, [-1, -1]], ['z', 0, [0.5, 0.5]]]))
    # 3a''''. one constraint OBJECT used twice, each time with its own forall() set: each copy in the model keeps its set
    add('same-constraint-two-sets', dv=[dict(shape=[2]), dict(shape=[])], rv=[[2]],
        sets=[box([0, 0], [3, 1]), box([-5, -1], [1, 2])],
        bounds=[dict(x=0, lo=0.5, hi=2), dict(x=1, lo=-20, hi=20)],
        rows=[dict(e=[['xz', 0, 0, [[1, 0], [0, 1]]], ['x', 1, -1.0]], sense='le', rhs=0, set=0),
              dict(e=[['xz', 0, 0, [[1, 0], [0, 1]]], ['x', 1, -1.0]], sense='le', rhs=0, set=1, same_object_as=0)],
        obj=dict(kind='min', e=[['x', 1, 1.0], ['x', 0, [0.25, 0.25]]]))
    # 3a'. one PIECEWISE constraint object given to the model twice with two different sets (the pieces are objects too)
    add('same-pw-constraint-two-sets', dv=[dict(shape=[2]), dict(shape=[])], rv=[[2]],
        sets=[box([0, 0], [3, 1]), box([-1, -1], [1, 2])],
        bounds=[dict(x=0, lo=0.5, hi=2), dict(x=1, lo=-20, hi=20)],
        rows=[dict(pieces=[[['xz', 0, 0, [[1, 0], [0, 1]]], ['x', 1, -1.0]], [['xz', 0, 0, [[-1, 0], [0, 2]]], ['x', 1, -1.0]]],
                   sense='le', rhs=0, set=0),
              dict(pieces=[[['xz', 0, 0, [[1, 0], [0, 1]]], ['x', 1, -1.0]], [['xz', 0, 0, [[-1, 0], [0, 2]]], ['x', 1, -1.0]]],
                   sense='le', rhs=0, set=1, same_object_as=0)],
        obj=dict(kind='min', e=[['x', 1, 1.0], ['x', 0, [-3.5, 0.25]]]))
    S[-1]['pw_rows'] = True
    S.append(dict(copy.deepcopy(S[-1]), name='same-pw-constraint-two-sets-deferred', defer_st=True))
    # 3a''. a piecewise row with its own set next to the default set
    add('pw-row-own-set', dv=[dict(shape=[2]), dict(shape=[])], rv=[[2]],
        sets=[box([-1, -1], [1, 1]), box([-2, 0], [0.5, 3])],
        bounds=[dict(x=0, lo=0.5, hi=2), dict(x=1, lo=-20, hi=20)],
        rows=[dict(pieces=[[['xz', 0, 0, [[1, 0], [0, 1]]], ['x', 1, -1.0]], [['z', 0, [1, -1]], ['x', 1, -1.0], ['x', 0, [1, 0]]]],
                   sense='le', rhs=1, set=1),
              dict(e=[['xz', 0, 0, [[1, 0], [0, -1]]], ['x', 1, -1.0]], sense='le', rhs=0.5)],
        obj=dict(kind='minmax', set=0, e=[['x', 1, 1.0], ['x', 0, [0.25, 0.25]], ['z', 0, [0.5, 0.5]]]))
    # 3b. strictly negative / strictly positive boxes (bound objects with ub < 0 and lb > 0)
    add('static-box-negative', dv=[dict(shape=[2])], rv=[[2]], sets=[box([-3, 0.5], [-1, 2])], bounds=bx,
        rows=[dict(e=[['x', 0, [1, 2]], ['xz', 0, 0, [[1, 1], [0, -1]]]], sense='le', rhs=9),
              dict(e=[['x', 0, [1, -1]], ['xz', 0, 0, [[0.5, 0], [0, 0.5]]]], sense='ge', rhs=-6)],
        obj=dict(kind='minmax', set=0, e=[['x', 0, [-1, -1]], ['z', 0, [1, 1]], ['xz', 0, 0, [[0.25, 0], [0, 0.25]]]]))
    # 3c. one-sided zero upper bound combined with a finite lower bound per component + forall set with negative bounds
    add('static-forall-negative', dv=[dict(shape=[2])], rv=[[2]], sets=[box([-2, -1], [0, 0]), box([-3, -2], [-1, -0.5])],
        bounds=bx,
        rows=[dict(e=[['x', 0, [1, 1]], ['xz', 0, 0, [[1, 0], [0, 1]]]], sense='le', rhs=5, set=1),
              dict(e=[['x', 0, [1, -1]], ['xz', 0, 0, [[0, 1], [1, 0]]]], sense='le', rhs=6)],
        obj=dict(kind='minmax', set=0, e=[['x', 0, [-1, -1]], ['xz', 0, 0, [[-0.5, 0], [0, -0.5]]]]))
    # 4. maxmin objective
    add('static-maxmin', dv=[dict(shape=[2])], rv=[[2]], sets=[box(-1, 1)], bounds=bx,
        rows=[dict(e=[['x', 0, [1, 1]], ['xz', 0, 0, [[1, 0], [0, 1]]]], sense='le', rhs=4)],
        obj=dict(kind='maxmin', set=0, e=[['x', 0, [1, 1]], ['xz', 0, 0, [[0.5, 0], [0, -0.5]]]]))
    # 5. 1-norm set (budget), centred
    add('static-norm1', dv=[dict(shape=[2])], rv=[[3]], sets=[[dict(t='norm', p=1, r=1.5), *box(-1, 1)]], bounds=bx,
        rows=[dict(e=[['x', 0, [1, 1]], ['xz', 0, 0, [[1, 0, 1], [0, 1, -1]]], ['z', 0, [0.5, 0, 0]]], sense='le', rhs=6)],
        obj=dict(kind='minmax', set=0, e=[['x', 0, [-1, -1]], ['xz', 0, 0, [[0.5, 0, 0], [0, 0.5, 0.5]]]]))
    # 6. inf-norm, shifted centre
    add('static-norminf-shift', dv=[dict(shape=[2])], rv=[[2]], sets=[[dict(t='norm', p='inf', r=1, c=[0.5, -0.5])]],
        bounds=bx,
        rows=[dict(e=[['x', 0, [1, 1]], ['xz', 0, 0, [[1, 0], [0, 1]]]], sense='le', rhs=4)],
        obj=dict(kind='minmax', set=0, e=[['x', 0, [-1, -2]], ['xz', 0, 0, [[1, 0], [0, 1]]]]))
    # 7. 2-norm ball (Lemma S)
    add('static-ball', dv=[dict(shape=[2])], rv=[[2]], sets=[[dict(t='norm', p=2, r=1.5)]], bounds=bx,
        rows=[dict(e=[['x', 0, [1, 1]], ['xz', 0, 0, [[1, 0], [0, 1]]], ['z', 0, [1, 0]]], sense='le', rhs=5)],
        obj=dict(kind='minmax', set=0, e=[['x', 0, [-1, -1]], ['xz', 0, 0, [[0.5, 0], [0.5, 1]]]]))
    # 7b. ellipsoids norm(z/sigma) <= 1: every coefficient of the cone rows is <= 1 / >= 1 in magnitude (the compact
    #     layout of the SOC dual is only valid for unit coefficients)
    add('static-ellipsoid-wide', dv=[dict(shape=[3])], rv=[[3]], sets=[[dict(t='norm', p=2, r=1, scale=[0.5, 1, 0.25])]],
        bounds=[dict(x=0, lo=-2, hi=2)],
        rows=[dict(e=[['x', 0, [1, 1, 1]], ['xz', 0, 0, [[1, 0, 0], [0, 1, 0], [0, 0, 1]]]], sense='le', rhs=6)],
        obj=dict(kind='minmax', set=0, e=[['x', 0, [-1, -1, -0.5]], ['xz', 0, 0, [[0.5, 0, 0], [0, 0.5, 0], [0, 0, 0.25]]]]))
    add('static-ellipsoid-narrow', dv=[dict(shape=[2])], rv=[[2]], sets=[[dict(t='norm', p=2, r=1, scale=[2, 4])]],
        bounds=[dict(x=0, lo=-2, hi=2)],
        rows=[dict(e=[['x', 0, [1, 1]], ['xz', 0, 0, [[1, 0], [0, 1]]]], sense='le', rhs=3)],
        obj=dict(kind='minmax', set=0, e=[['x', 0, [-1, -1]], ['xz', 0, 0, [[0.5, 0], [0, 0.5]]]]))
    # 8. 2-norm ball, dimension 3, scaled/shifted
    add('static-ball3', dv=[dict(shape=[3])], rv=[[3]], sets=[[dict(t='norm', p=2, r=1, scale=[1, 2, 0.5], c=[0.5, 0, 0])]],
        bounds=bx,
        rows=[dict(e=[['x', 0, [1, 1, 1]], ['xz', 0, 0, [[1, 0, 0], [0, 1, 0], [0, 0, 1]]]], sense='le', rhs=5)],
        obj=dict(kind='minmax', set=0, e=[['x', 0, [-1, -1, -1]], ['z', 0, [1, 1, 0]]]))
    # 9. linear inequalities + equality in the set
    add('static-linset', dv=[dict(shape=[2])], rv=[[3]],
        sets=[[*box(0, [2, 2, 2]), dict(t='lin', e=[['z', 0, [1, 1, 1]]], sense='eq', rhs=2),
               dict(t='lin', e=[['z', 0, [1, -1, 0]]], sense='le', rhs=1)]], bounds=bx,
        rows=[dict(e=[['x', 0, [1, 1]], ['xz', 0, 0, [[1, 0, 1], [0, 1, 0]]]], sense='le', rhs=8)],
        obj=dict(kind='minmax', set=0, e=[['x', 0, [-1, -1]], ['xz', 0, 0, [[0, 0.5, 0], [0.5, 0, 0]]]]))
    # 10. per-constraint forall set different from the minmax default
    add('static-forall', dv=[dict(shape=[2])], rv=[[2]], sets=[box(-1, 1), [dict(t='norm', p=1, r=2)], box([0, 0], [3, 0.5])],
        bounds=bx,
        rows=[dict(e=[['x', 0, [1, 1]], ['xz', 0, 0, [[1, 0], [0, 1]]]], sense='le', rhs=4, set=1),
              dict(e=[['x', 0, [1, -1]], ['xz', 0, 0, [[0, 1], [1, 0]]]], sense='le', rhs=4, set=2),
              dict(e=[['x', 0, [-1, 1]], ['z', 0, [1, 1]]], sense='le', rhs=6)],
        obj=dict(kind='minmax', set=0, e=[['x', 0, [-1, -1]], ['xz', 0, 0, [[0.5, 0], [0, 0.5]]]]))
    # 11. LDR fully adaptive
    add('ldr-full', dv=[dict(shape=[1])], rv=[[2]], ldr=[dict(shape=[2], deps=[dict(z=0)])], sets=[box(-1, 1)],
        bounds=bx,
        rows=[dict(e=[['vy', 0], ['Bz', 0, [[-1, 0], [0, -1]]]], sense='ge', rhs=[0, 0]),
              dict(e=[['vy', 0]], sense='le', rhs=[3, 3]),
              dict(e=[['y', 0, [1, 1]], ['x', 0, [-1]]], sense='le', rhs=0)],
        obj=dict(kind='minmax', set=0, e=[['x', 0, [1]], ['z', 0, [0.5, 0]]]))
    # 12. LDR with partial dependency mask via slices
    add('ldr-mask', dv=[dict(shape=[1])], rv=[[2]],
        ldr=[dict(shape=[2], deps=[dict(z=0, yidx=0, zidx=0), dict(z=0, yidx=1, zidx=dict(a=0, b=2))])],
        sets=[box([-1, 0], [1, 2])], bounds=[dict(x=0, lo=-8, hi=8)],
        rows=[dict(e=[['vy', 0], ['Bz', 0, [[-1, -1], [0, -1]]]], sense='ge', rhs=[0, 0]),
              dict(e=[['vy', 0]], sense='le', rhs=[4, 4]),
              dict(e=[['y', 0, [1, 1]], ['x', 0, [-1]]], sense='le', rhs=0)],
        obj=dict(kind='minmax', set=0, e=[['x', 0, [1]]]))
    # 13. LDR without any dependency + equality robust row that pins coefficients
    add('ldr-eq', dv=[dict(shape=[2])], rv=[[2]], ldr=[dict(shape=[1], deps=[dict(z=0)])], sets=[box(-1, 1)],
        bounds=bx,
        rows=[dict(e=[['vy', 0], ['xz', 0, 0, [[-1, 0], [0, -1]]], ['xi', 0, 0, -1.0]], sense='eq', rhs=[0.5]),
              dict(e=[['vy', 0]], sense='le', rhs=[3])],
        obj=dict(kind='minmax', set=0, e=[['x', 0, [-1, -1]], ['y', 0, [1]]]))
    # 14. maxof pieces in the objective (piecewise worst case)
    add('static-maxof', dv=[dict(shape=[2])], rv=[[2]], sets=[box(-1, 1)], bounds=bx,
        rows=[dict(e=[['x', 0, [1, 1]]], sense='le', rhs=3)],
        obj=dict(kind='minmax', set=0, pw='max',
                 pieces=[[['x', 0, [1, 0]], ['xz', 0, 0, [[1, 0], [0, 0]]]],
                         [['x', 0, [-1, -1]], ['z', 0, [0, 1]]],
                         [['c', 0.5], ['xz', 0, 0, [[0, 0], [0, 1]]]]]))
    # 15. minof in maxmin
    add('static-minof', dv=[dict(shape=[2])], rv=[[2]], sets=[box(-1, 1)], bounds=bx,
        rows=[dict(e=[['x', 0, [1, 1]]], sense='le', rhs=3)],
        obj=dict(kind='maxmin', set=0, pw='min',
                 pieces=[[['x', 0, [1, 0]], ['xz', 0, 0, [[1, 0], [0, 0]]]],
                         [['x', 0, [0, 1]], ['z', 0, [0, 1]]]]))
    # 16. lifted set (extra rows: num_rand < rows of the support) - budget via auxiliary random variable
    add('static-lifted', dv=[dict(shape=[2])], rv=[[2], [2]],
        sets=[[dict(t='lift', z=0, u=1, r=1.5), dict(t='hi', z=1, v=1)]], bounds=bx,
        rows=[dict(e=[['x', 0, [1, 1]], ['xz', 0, 0, [[1, 0], [0, 1]]], ['z', 1, [0.5, 0.5]]], sense='le', rhs=6)],
        obj=dict(kind='minmax', set=0, e=[['x', 0, [-1, -1]], ['xz', 0, 0, [[0.5, 0], [0, 0.5]]]]))
    # 17. fixed component and one-sided-plus-norm set
    add('static-fixed-comp', dv=[dict(shape=[2])], rv=[[3]],
        sets=[[dict(t='lin', e=[['zi', 0, 2, 1.0]], sense='eq', rhs=0.5), dict(t='norm', p='inf', r=1)]], bounds=bx,
        rows=[dict(e=[['x', 0, [1, 1]], ['xz', 0, 0, [[1, 0, 1], [0, 1, 1]]]], sense='le', rhs=5)],
        obj=dict(kind='minmax', set=0, e=[['x', 0, [-1, -1]], ['z', 0, [0, 0, 1]]]))
    # 18. vector robust rows with element-wise products and matrix forms, several rows
    add('static-vector', dv=[dict(shape=[2])], rv=[[2]], sets=[box(-1, 1)], bounds=bx,
        rows=[dict(e=[['xmz', 0, 0], ['Ax', 0, [[1, 0], [1, 1]]]], sense='le', rhs=[3, 4]),
              dict(e=[['Bz', 0, [[1, 1], [0, 1]]], ['vx', 0, -1.0]], sense='le', rhs=[5, 5])],
        obj=dict(kind='minmax', set=0, e=[['x', 0, [-1, -1]]]))
    # 19. deterministic objective with robust constraints (min with forall)
    add('min-forall', dv=[dict(shape=[2])], rv=[[2]], sets=[[dict(t='norm', p=1, r=1)]], bounds=bx,
        rows=[dict(e=[['x', 0, [1, 1]], ['xz', 0, 0, [[1, 0], [0, 1]]]], sense='ge', rhs=1, set=0)],
        obj=dict(kind='min', e=[['x', 0, [1, 2]]]))
    # 20. quadratic (ellipsoidal) set through quad()
    add('static-quad', dv=[dict(shape=[2])], rv=[[2]], sets=[[dict(t='quad', Q=[[2, 0.5], [0.5, 1]], r=1)]],
        bounds=bx, tol=True,
        rows=[dict(e=[['x', 0, [1, 1]], ['xz', 0, 0, [[1, 0], [0, 1]]]], sense='le', rhs=4)],
        obj=dict(kind='minmax', set=0, e=[['x', 0, [-1, -1]], ['xz', 0, 0, [[0.5, 0], [0, 0.5]]]]))
    # 20b. intersections of two cone constraints in one set, either order (the auxiliary columns of the first block lie between
    #      two cone blocks of the dualised set)
    add('static-sumsqr-and-ball', dv=[dict(shape=[2])], rv=[[2]], sets=[[dict(t='sumsqr', r=1.0), dict(t='norm', p=2, r=0.8)]],
        bounds=bx,
        rows=[dict(e=[['x', 0, [1, 1]], ['xz', 0, 0, [[1, 0], [0, 1]]]], sense='le', rhs=4)],
        obj=dict(kind='minmax', set=0, e=[['x', 0, [-1, -1]], ['z', 0, [1, -1]]]))
    add('static-ball-and-sumsqr', dv=[dict(shape=[2])], rv=[[2]], sets=[[dict(t='norm', p=2, r=0.8), dict(t='sumsqr', r=1.0)]],
        bounds=bx,
        rows=[dict(e=[['x', 0, [1, 1]], ['xz', 0, 0, [[1, 0], [0, 1]]]], sense='le', rhs=4)],
        obj=dict(kind='minmax', set=0, e=[['x', 0, [-1, -1]], ['z', 0, [1, -1]]]))
    add('static-sumsqr-and-ball-loose', dv=[dict(shape=[2])], rv=[[2]], sets=[[dict(t='sumsqr', r=0.25), dict(t='norm', p=2, r=0.8)]],
        bounds=bx,
        rows=[dict(e=[['x', 0, [1, 1]], ['xz', 0, 0, [[1, 0], [0, 1]]]], sense='le', rhs=4)],
        obj=dict(kind='minmax', set=0, e=[['x', 0, [-1, -1]], ['z', 0, [1, -1]]]))
    # 21. ball intersected with a box (direct NRA, dim 2)
    add('static-ball-box', dv=[dict(shape=[2])], rv=[[2]], sets=[[dict(t='norm', p=2, r=1), *box(-0.5, 1)]],
        bounds=bx,
        rows=[dict(e=[['x', 0, [1, 1]], ['xz', 0, 0, [[1, 0], [0, 1]]]], sense='le', rhs=4)],
        obj=dict(kind='minmax', set=0, e=[['x', 0, [-1, -1]], ['xz', 0, 0, [[1, 0], [0, 1]]]]))
    # 21b. transposes / reshapes of NON-SQUARE bi-affine arrays and decision rules inside robust rows
    add('matrix-transpose', dv=[dict(shape=[2, 3])], rv=[[2, 3]], sets=[box(-0.5, 1)],
        bounds=[dict(x=0, lo=-4, hi=4)],
        rows=[dict(e=[['T', [['vx', 0], ['xmz', 0, 0]]]], sense='le', rhs=[[3, 4], [5, 3.5], [4.5, 6]]),
              dict(e=[['reshape', [3, 2], [['vx', 0, 0.5], ['xmz', 0, 0]]]], sense='le', rhs=[[3, 5], [4, 6], [3.5, 4.5]])],
        obj=dict(kind='minmax', set=0, e=[['x', 0, [[-1, -2, -1], [-1.5, -1, -2]]], ['z', 0, [[0.25, 0, 0], [0, 0, 0.5]]]]))
    add('ldr-transpose', dv=[dict(shape=[2, 3])], rv=[[3]], ldr=[dict(shape=[2, 3], deps=[dict(z=0)])], sets=[box(-1, 1)],
        bounds=[dict(x=0, lo=-4, hi=4)],
        rows=[dict(e=[['T', [['vy', 0]]], ['c', [[0, -1], [-2, 0], [1, 1]]]], sense='ge', rhs=0),
              dict(e=[['vy', 0], ['vx', 0, -1.0], ['vz', 0, -1.0]], sense='ge', rhs=0),
              dict(e=[['vy', 0]], sense='le', rhs=6)],
        obj=dict(kind='minmax', set=0, e=[['x', 0, [[1, 2, 1], [1.5, 1, 2]]], ['y', 0, [[0.5, 0.25, 0.5], [0.25, 0.5, 0.25]]]]))
    # 21c. sums over a LEADING / middle axis of 2-D bi-affine arrays and decision rules (the random-coefficient part and the
    #      constant part are summed by separate code)
    add('matrix-sum-axis0', dv=[dict(shape=[2, 3])], rv=[[2, 3]], sets=[box(-0.5, 1)],
        bounds=[dict(x=0, lo=-4, hi=4)],
        rows=[dict(e=[['sum', 0, [['vx', 0], ['xmz', 0, 0]]]], sense='le', rhs=[3, 4, 5]),
              dict(e=[['sum', 1, [['vx', 0, 0.5], ['xmz', 0, 0]]]], sense='le', rhs=[3.5, 4.5])],
        obj=dict(kind='minmax', set=0, e=[['x', 0, [[-1, -2, -1], [-1.5, -1, -2]]], ['z', 0, [[0.25, 0, 0], [0, 0, 0.5]]]]))
    add('ldr-sum-axis0', dv=[dict(shape=[3])], rv=[[3]],
        ldr=[dict(shape=[2, 3], deps=[dict(z=0, yidx=[0, {}], zidx=0), dict(z=0, yidx=[1, 1], zidx=dict(a=1, b=3)), dict(z=0, yidx=[1, 2], zidx=2)])],
        sets=[box(0, 1) + [dict(t='lin', e=[['z', 0, [1, 1, 1]]], sense='eq', rhs=1.5)]],
        bounds=[dict(x=0, lo=0, hi=10)],
        rows=[dict(e=[['sum', 0, [['vy', 0]]], ['Bz', 0, [[-2, 0, -1], [0, -3, 0], [-1, -1, -2]]]], sense='ge', rhs=[1.0, 0.5, 1.5]),
              dict(e=[['vy', 0]], sense='ge', rhs=0),
              dict(e=[['sum', 1, [['vy', 0]]], ['Ax', 0, [[-1, 0, 0], [0, 0, -1]]]], sense='le', rhs=0)],
        obj=dict(kind='minmax', set=0, e=[['x', 0, [1, 1, 0.5]], ['y', 0, [[1, 2, 1], [2, 1, 3]]]]))
    # 21d. robust EQUALITIES over sets that are not full-dimensional (simplex): the coefficients of z need not vanish
    add('robust-equality-simplex', dv=[dict(shape=[3]), dict(shape=[])], rv=[[3]],
        sets=[box(0, 1) + [dict(t='lin', e=[['z', 0, [1, 1, 1]]], sense='eq', rhs=1)]],
        bounds=[dict(x=0, lo=0, hi=4), dict(x=1, lo=-10, hi=10)],
        rows=[dict(e=[['xz', 0, 0, [[1, 0, 0], [0, 1, 0], [0, 0, 1]]], ['x', 1, -1.0]], sense='eq', rhs=0, set=0),
              dict(e=[['x', 0, [1, 0, 0]]], sense='le', rhs=3), dict(e=[['x', 0, [0, 1, 0]]], sense='le', rhs=2)],
        obj=dict(kind='max', e=[['x', 1, 1.0], ['x', 0, [0.125, 0.125, 0.125]]]))
    add('robust-equality-simplex-ldr', dv=[dict(shape=[3])], rv=[[3]], ldr=[dict(shape=[], deps=[dict(z=0, zidx=0)])],
        sets=[box(0, 1) + [dict(t='lin', e=[['z', 0, [1, 1, 1]]], sense='eq', rhs=1)]],
        bounds=[dict(x=0, lo=0, hi=6)],
        rows=[dict(e=[['xz', 0, 0, [[1, 0, 0], [0, 1, 0], [0, 0, 1]]], ['vy', 0]], sense='eq', rhs=5)],
        obj=dict(kind='minmax', set=0, e=[['x', 0, [0.5, 0.5, 0.5]], ['vy', 0, 3.0]]))
    # 22. scalar random variable and scalar decision (0-d shapes)
    add('scalar', dv=[dict(shape=[]), dict(shape=[])], rv=[[]], sets=[box(-0.5, 1.5)],
        bounds=[dict(x=0, lo=-4, hi=4), dict(x=1, lo=-4, hi=4)],
        rows=[dict(e=[['vx', 0], ['xmz', 1, 0]], sense='le', rhs=3)],
        obj=dict(kind='minmax', set=0, e=[['vx', 0, -1.0], ['vx', 1, -1.0], ['vz', 0, 0.5]]))
    # 23. integer here-and-now decisions
    add('static-int', dv=[dict(shape=[2], vtype='I')], rv=[[2]], sets=[box(-1, 1)], bounds=bx,
        rows=[dict(e=[['x', 0, [1, 1]], ['xz', 0, 0, [[1.5, 0], [0, 0.5]]]], sense='le', rhs=4.5)],
        obj=dict(kind='minmax', set=0, e=[['x', 0, [-1, -1]], ['xz', 0, 0, [[0.5, 0], [0, 0.5]]]]))
    # 24. sumsqr set
    add('static-sumsqr', dv=[dict(shape=[2])], rv=[[2]], sets=[[dict(t='sumsqr', r=2.25)]], bounds=bx,
        rows=[dict(e=[['x', 0, [1, 1]], ['xz', 0, 0, [[1, 0], [0, 1]]]], sense='le', rhs=5)],
        obj=dict(kind='minmax', set=0, e=[['x', 0, [-1, -1]], ['z', 0, [1, -1]]]))
    # 25. two random arrays, LDR on the second only, abs-type set
    add('two-rvars', dv=[dict(shape=[1])], rv=[[2], []], ldr=[dict(shape=[], deps=[dict(z=1)])],
        sets=[[dict(t='abs', z=0, r=[1, 2]), dict(t='lo', z=1, v=0), dict(t='hi', z=1, v=2)]], bounds=bx,
        rows=[dict(e=[['vy', 0], ['vz', 1, -1.0], ['z', 0, [-0.5, 0]]], sense='ge', rhs=-1),
              dict(e=[['vy', 0], ['x', 0, [-1]]], sense='le', rhs=0)],
        obj=dict(kind='minmax', set=0, e=[['x', 0, [1]], ['z', 0, [0, 0.5]]]))
    return S


# ------------------------------------------------------------------ seeded random members
def random_spec(rnd, i):
    nx = rnd.choice([1, 2, 3])
    nz = rnd.choice([1, 2, 3])
    g = lambda: rnd.choice(GRID)
    gn = lambda: rnd.choice([v for v in GRID if v != 0])
    eighth = lambda: rnd.randint(-32, 32) / 8.0
    coef = g if rnd.random() < 0.6 else eighth
    kind = rnd.choice(['box', 'box0', 'norm1', 'norminf', 'ball', 'lin', 'boxnorm1', 'boxneg'])
    if kind == 'box':
        lo = [-rnd.choice([0.5, 1, 2]) for _ in range(nz)]
        hi = [rnd.choice([0.5, 1, 2]) for _ in range(nz)]
        s = box(lo, hi)
    elif kind == 'box0':
        if rnd.random() < 0.5:
            s = box(0, [rnd.choice([0.5, 1, 2]) for _ in range(nz)])
        else:
            s = box([-rnd.choice([0.5, 1, 2]) for _ in range(nz)], 0)
    elif kind == 'boxneg':
        lo, hi = [], []
        for _ in range(nz):
            a_, b_ = rnd.choice([(-3, -1), (-2, -0.5), (0.5, 2), (1, 3), (-1, 0), (0, 1.5)])
            lo.append(a_)
            hi.append(b_)
        s = box(lo, hi)
    elif kind == 'norm1':
        s = [dict(t='norm', p=1, r=rnd.choice([1, 1.5, 2]), c=[rnd.choice([0, 0.5, -0.5]) for _ in range(nz)])]
    elif kind == 'norminf':
        s = [dict(t='norm', p='inf', r=rnd.choice([1, 1.5]), scale=[rnd.choice([1, 2, 0.5]) for _ in range(nz)])]
    elif kind == 'ball':
        s = [dict(t='norm', p=2, r=rnd.choice([1, 1.5, 2]), c=[rnd.choice([0, 0.5]) for _ in range(nz)])]
    elif kind == 'lin':
        s = box(0, [2] * nz) + [dict(t='lin', e=[['z', 0, [1.0] * nz]], sense='le', rhs=rnd.choice([1, 1.5, 2.5]))]
    else:
        s = box(-1, 1) + [dict(t='norm', p=1, r=rnd.choice([1, 1.5]))]
    use_ldr = rnd.random() < 0.5
    ldr = []
    if use_ldr:
        ny = rnd.choice([1, 2])
        deps = []
        for e in range(ny):
            comps = [j for j in range(nz) if rnd.random() < 0.6]
            for j in comps:
                deps.append(dict(z=0, yidx=e, zidx=j))
        ldr = [dict(shape=[ny], deps=deps)]
    rows = []
    for _ in range(rnd.choice([1, 2, 3])):
        M = [[coef() if rnd.random() < 0.6 else 0 for _ in range(nz)] for _ in range(nx)]
        e = [['x', 0, [coef() for _ in range(nx)]], ['xz', 0, 0, M], ['z', 0, [coef() for _ in range(nz)]]]
        if use_ldr:
            e.append(['y', 0, [gn() for _ in range(ldr[0]['shape'][0])]])
        sense = rnd.choice(['le', 'le', 'ge'])
        tight = rnd.choice([12, 12, 4, 2])
        rhs = tight if sense == 'le' else -tight
        rows.append(dict(e=e, sense=sense, rhs=rhs))
    if not use_ldr and rnd.random() < 0.35:
        # a vector-valued robust row: nx rows dualised in one call
        B = [[coef() if rnd.random() < 0.7 else 0 for _ in range(nz)] for _ in range(nx)]
        sense = rnd.choice(['le', 'ge'])
        tight = rnd.choice([6, 3, 1.5])
        rows.append(dict(e=[['vx', 0, rnd.choice([1.0, 2.0])], ['Bz', 0, B]], sense=sense,
                         rhs=[tight if sense == 'le' else -tight] * nx))
    if use_ldr:
        ny = ldr[0]['shape'][0]
        rows.append(dict(e=[['vy', 0]], sense='le', rhs=[4] * ny))
        rows.append(dict(e=[['vy', 0]], sense='ge', rhs=[-4] * ny))
    okind = rnd.choice(['minmax', 'minmax', 'maxmin'])
    Mo = [[coef() if rnd.random() < 0.5 else 0 for _ in range(nz)] for _ in range(nx)]
    oe = [['x', 0, [gn() for _ in range(nx)]], ['xz', 0, 0, Mo], ['z', 0, [coef() for _ in range(nz)]]]
    if use_ldr:
        oe.append(['y', 0, [gn() for _ in range(ldr[0]['shape'][0])]])
    return dict(name='rand%d-%s' % (i, kind), dv=[dict(shape=[nx])], rv=[[nz]], ldr=ldr, sets=[s],
                bounds=[dict(x=0, lo=-4, hi=4)], rows=rows, obj=dict(kind=okind, set=0, e=oe))


def random_pw_spec(seed, i):
    """A random member whose first '<=' row and (for minmax) whose objective are PIECEWISE: maxof(row, second random piece).
    Own random stream (does not shift the members of `random_spec`)."""
    import random
    rnd = random.Random('pw-%s-%d' % (seed, i))
    spec = random_spec(rnd, i)
    spec['name'] = 'randpw%d-%s' % (i, spec['name'].split('-', 1)[1])
    nx = spec['dv'][0]['shape'][0]
    nz = spec['rv'][0][0]
    g = lambda: rnd.choice(GRID)

    def piece():
        M = [[g() if rnd.random() < 0.6 else 0 for _ in range(nz)] for _ in range(nx)]
        return [['x', 0, [g() for _ in range(nx)]], ['xz', 0, 0, M], ['z', 0, [g() for _ in range(nz)]]]

    for row in spec['rows']:
        if row['sense'] == 'le' and not isinstance(row['rhs'], list) and not any(t[0] in ('y', 'vy', 'vx', 'Bz') for t in row['e']):
            row['pieces'] = [row.pop('e'), piece()] + ([piece()] if rnd.random() < 0.4 else [])
            row['e'] = None
            break
    ob = spec['obj']
    if ob['kind'] == 'minmax' and not spec['ldr'] and rnd.random() < 0.6:
        ob['pieces'] = [ob.pop('e'), piece()]
        ob['pw'] = 'max'
    return spec
