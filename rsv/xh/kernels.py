"""CrossHair contracts over the REAL pure-Python kernels of rsome.subroutines.

Each function takes a fixed number of symbolic ints (a partition of n scenarios as a label
vector) so that CrossHair can exhaust the paths ("Confirmed over all paths").  Twins (suffix
_twin) carry a false postcondition under the same precondition and MUST be refuted: they show
that the precondition is satisfiable and the body is reached.
"""
from typing import List
from rsome.subroutines import comb_set, event_dict, flat


def blocks(lab: List[int]) -> List[List[int]]:
    out: List[List[int]] = []
    keys: List[int] = []
    for i, l in enumerate(lab):
        if l in keys:
            out[keys.index(l)].append(i)
        else:
            keys.append(l)
            out.append([i])
    return out


def is_refinement(out: List[List[int]], a: List[int], b: List[int]) -> bool:
    n = len(a)
    seen: List[int] = []
    for blk in out:
        if len(blk) == 0:
            return False
        for i in blk:
            if i in seen or i < 0 or i >= n:
                return False
            seen.append(i)
    if len(seen) != n:
        return False
    where = {}
    for k, blk in enumerate(out):
        for i in blk:
            where[i] = k
    for i in range(n):
        for j in range(n):
            same = (a[i] == a[j]) and (b[i] == b[j])
            if same != (where[i] == where[j]):
                return False
    return True


def comb2(a0: int, a1: int, b0: int, b1: int) -> bool:
    """
    pre: 0 <= a0 < 2 and 0 <= a1 < 2 and 0 <= b0 < 2 and 0 <= b1 < 2
    post: _ == True
    """
    a, b = [a0, a1], [b0, b1]
    return is_refinement(comb_set(blocks(a), blocks(b)), a, b)


def comb2_twin(a0: int, a1: int, b0: int, b1: int) -> bool:
    """
    pre: 0 <= a0 < 2 and 0 <= a1 < 2 and 0 <= b0 < 2 and 0 <= b1 < 2
    post: _ == False
    """
    a, b = [a0, a1], [b0, b1]
    return is_refinement(comb_set(blocks(a), blocks(b)), a, b)


def comb3(a0: int, a1: int, a2: int, b0: int, b1: int, b2: int) -> bool:
    """
    pre: 0 <= a0 < 3 and 0 <= a1 < 3 and 0 <= a2 < 3 and 0 <= b0 < 3 and 0 <= b1 < 3 and 0 <= b2 < 3
    post: _ == True
    """
    a, b = [a0, a1, a2], [b0, b1, b2]
    return is_refinement(comb_set(blocks(a), blocks(b)), a, b)


def comb3_twin(a0: int, a1: int, a2: int, b0: int, b1: int, b2: int) -> bool:
    """
    pre: 0 <= a0 < 3 and 0 <= a1 < 3 and 0 <= a2 < 3 and 0 <= b0 < 3 and 0 <= b1 < 3 and 0 <= b2 < 3
    post: _ == False
    """
    a, b = [a0, a1, a2], [b0, b1, b2]
    return is_refinement(comb_set(blocks(a), blocks(b)), a, b)


def comb4(a0: int, a1: int, a2: int, a3: int, b0: int, b1: int, b2: int, b3: int) -> bool:
    """
    pre: 0 <= a0 < 2 and 0 <= a1 < 3 and 0 <= a2 < 3 and 0 <= a3 < 3
    pre: 0 <= b0 < 2 and 0 <= b1 < 3 and 0 <= b2 < 3 and 0 <= b3 < 3
    post: _ == True
    """
    a, b = [a0, a1, a2, a3], [b0, b1, b2, b3]
    return is_refinement(comb_set(blocks(a), blocks(b)), a, b)


def evdict3(a0: int, a1: int, a2: int) -> bool:
    """
    pre: 0 <= a0 < 3 and 0 <= a1 < 3 and 0 <= a2 < 3
    post: _ == True
    """
    a = [a0, a1, a2]
    bl = blocks(a)
    d = event_dict(bl)
    if sorted(d.keys()) != [0, 1, 2]:
        return False
    for i in range(3):
        if i not in bl[d[i]]:
            return False
    return True


def evdict3_twin(a0: int, a1: int, a2: int) -> bool:
    """
    pre: 0 <= a0 < 3 and 0 <= a1 < 3 and 0 <= a2 < 3
    post: _ == False
    """
    a = [a0, a1, a2]
    bl = blocks(a)
    d = event_dict(bl)
    return sorted(d.keys()) == [0, 1, 2]


def flat_nested(x: int, y: int, z: int, shape: int) -> bool:
    """
    pre: 0 <= shape < 6
    post: _ == True
    """
    if shape == 0:
        nested, ref = [x, [y, z]], [x, y, z]
    elif shape == 1:
        nested, ref = [[x], [y], [[z]]], [x, y, z]
    elif shape == 2:
        nested, ref = [[[x, y]], z], [x, y, z]
    elif shape == 3:
        nested, ref = [(x, y), [z]], [x, y, z]
    elif shape == 4:
        nested, ref = [[], [x, [], [y, [z]]]], [x, y, z]
    else:
        nested, ref = [x, y, z], [x, y, z]
    return flat(nested) == ref


def flat_nested_twin(x: int, y: int, z: int, shape: int) -> bool:
    """
    pre: 0 <= shape < 6
    post: _ == False
    """
    return flat([x, [y, z]]) == [x, y, z]
