"""Concolic scalars: run REAL rsome code on values that carry a z3 term and a concrete shadow.

CV registers as numbers.Real, so the real methods (`Convex.__mul__`, `Convex.__call__`, ...) accept it.
Arithmetic builds z3 terms; comparisons return the shadow outcome and record the branch condition in the
active trace.  `explore` is a small dynamic-symbolic-execution driver: it re-runs the function on models of
(prefix /\\ negated branch) until every feasible path has been executed (or a bound is hit).
Opaque operations (sqrt, exp, log) become uninterpreted/defined terms shared with the oracle.
"""
import math
import numbers
from fractions import Fraction
import numpy as np

from .poly import z3mod
from .smt import HarnessError, fval

_TRACE = None
_SIDE = None
_FRESH = [0]


class Trace:
    def __init__(self):
        self.branches = []     # (z3 bool, outcome)
        self.side = []         # definitional constraints of opaque terms


def z3v(x):
    z3 = z3mod()
    if isinstance(x, CV):
        return x.t
    if isinstance(x, bool):
        return z3.RealVal(int(x))
    if isinstance(x, (int, np.integer)):
        return z3.RealVal(int(x))
    if isinstance(x, Fraction):
        return z3.RealVal(str(x))
    if isinstance(x, (float, np.floating)):
        return z3.RealVal(str(Fraction(float(x))))
    raise TypeError('cannot lift %r' % (x,))


def shadow(x):
    if isinstance(x, CV):
        return x.v
    if isinstance(x, (float, np.floating)):
        return float(x)
    if isinstance(x, (int, np.integer)):
        return Fraction(int(x))
    return x


def _num(a):
    return isinstance(a, (CV, int, float, Fraction, np.integer, np.floating)) and not isinstance(a, bool)


_FUNS = {}


def ufun(name, arity=1):
    z3 = z3mod()
    if name not in _FUNS:
        _FUNS[name] = z3.Function(name, *([z3.RealSort()] * (arity + 1)))
    return _FUNS[name]


class CB:
    """Concolic boolean."""

    def __init__(self, t, v):
        self.t, self.v = t, bool(v)

    def __bool__(self):
        if _TRACE is not None:
            _TRACE.branches.append((self.t, self.v))
        return self.v

    def __invert__(self):
        return CB(z3mod().Not(self.t), not self.v)

    def __and__(self, o):
        return CB(z3mod().And(self.t, o.t), self.v and o.v) if isinstance(o, CB) else (self if o else CB(z3mod().BoolVal(False), False))

    def __or__(self, o):
        return CB(z3mod().Or(self.t, o.t), self.v or o.v) if isinstance(o, CB) else (CB(z3mod().BoolVal(True), True) if o else self)


class CV(numbers.Real):
    __hash__ = None

    def __init__(self, t, v):
        self.t = t
        self.v = v

    # ---- numpy-scalar look-alike (np.float64 has these; 0-d object arithmetic returns the bare object)
    size = 1
    shape = ()
    ndim = 0

    def reshape(self, *shape):
        a = np.empty((), dtype=object)
        a[()] = self
        return a.reshape(*shape)

    def flatten(self):
        return self.reshape((1,))

    def sum(self, axis=None):
        return self

    def item(self):
        return self

    # ---- helpers
    @staticmethod
    def _f(v):
        return float(v)

    def _bin(self, o, op, top):
        if not _num(o):
            return NotImplemented
        a, b = self.v, shadow(o)
        if isinstance(a, float) or isinstance(b, float):
            a, b = float(a), float(b)
        return CV(top(self.t, z3v(o)), op(a, b))

    def _rbin(self, o, op, top):
        if not _num(o):
            return NotImplemented
        a, b = shadow(o), self.v
        if isinstance(a, float) or isinstance(b, float):
            a, b = float(a), float(b)
        return CV(top(z3v(o), self.t), op(a, b))

    def __add__(self, o):
        return self._bin(o, lambda a, b: a + b, lambda a, b: a + b)

    def __radd__(self, o):
        return self._rbin(o, lambda a, b: a + b, lambda a, b: a + b)

    def __sub__(self, o):
        return self._bin(o, lambda a, b: a - b, lambda a, b: a - b)

    def __rsub__(self, o):
        return self._rbin(o, lambda a, b: a - b, lambda a, b: a - b)

    def __mul__(self, o):
        return self._bin(o, lambda a, b: a * b, lambda a, b: a * b)

    def __rmul__(self, o):
        return self._rbin(o, lambda a, b: a * b, lambda a, b: a * b)

    def __truediv__(self, o):
        if not _num(o):
            return NotImplemented
        if shadow(o) == 0:
            raise ZeroDivisionError('concolic division by zero')
        return self._bin(o, lambda a, b: a / b, lambda a, b: a / b)

    def __rtruediv__(self, o):
        if not _num(o):
            return NotImplemented
        if self.v == 0:
            raise ZeroDivisionError('concolic division by zero')
        return self._rbin(o, lambda a, b: a / b, lambda a, b: a / b)

    def __neg__(self):
        return CV(-self.t, -self.v)

    def __pos__(self):
        return self

    def __abs__(self):
        if self >= 0:
            return self
        return -self

    def __pow__(self, n):
        z3 = z3mod()
        if isinstance(n, CV):
            raise HarnessError('symbolic exponent')
        if isinstance(n, (int, np.integer)) or (isinstance(n, float) and float(n).is_integer() and n >= 0):
            n = int(n)
            r = CV(z3.RealVal(1), Fraction(1))
            for _ in range(n):
                r = r * self
            return r
        q = Fraction(float(n)).limit_denominator(64)
        if q == Fraction(1, 2):
            return csqrt(self)
        # x ** (p/q) for x >= 0:  r >= 0, r^q == x^p
        if float(self.v) < 0:
            raise ValueError('negative base with fractional exponent')
        _FRESH[0] += 1
        r = z3.Real('_pw%d' % _FRESH[0])
        if _TRACE is not None:
            lhs, rhs = None, None
            for _ in range(q.denominator):
                lhs = r if lhs is None else lhs * r
            for _ in range(q.numerator):
                rhs = self.t if rhs is None else rhs * self.t
            _TRACE.side += [r >= 0, lhs == rhs, self.t >= 0]
        return CV(r, float(self.v) ** float(q))

    def __rpow__(self, o):
        raise HarnessError('symbolic exponent')

    # comparisons
    def _cmp(self, o, op, top):
        if not _num(o):
            return NotImplemented
        return CB(top(self.t, z3v(o)), op(float(self.v), float(shadow(o))) if isinstance(self.v, float) or isinstance(shadow(o), float)
                  else op(self.v, shadow(o)))

    def __lt__(self, o):
        return self._cmp(o, lambda a, b: a < b, lambda a, b: a < b)

    def __le__(self, o):
        return self._cmp(o, lambda a, b: a <= b, lambda a, b: a <= b)

    def __gt__(self, o):
        return self._cmp(o, lambda a, b: a > b, lambda a, b: a > b)

    def __ge__(self, o):
        return self._cmp(o, lambda a, b: a >= b, lambda a, b: a >= b)

    def __eq__(self, o):
        if not _num(o):
            return NotImplemented
        return self._cmp(o, lambda a, b: a == b, lambda a, b: a == b)

    def __ne__(self, o):
        if not _num(o):
            return NotImplemented
        return self._cmp(o, lambda a, b: a != b, lambda a, b: a != b)

    # numpy ufunc hooks on object arrays
    def exp(self):
        return CV(ufun('EXP')(self.t), math.exp(min(float(self.v), 700)))

    def log(self):
        z3 = z3mod()
        if float(self.v) <= 0:
            return CV(ufun('LOG')(self.t), float('nan'))
        t = self.t
        # LOG(1/u) is normalised to -LOG(u) (documented identity)
        if z3.is_app(t) and t.decl().kind() == z3.Z3_OP_DIV and z3.is_rational_value(t.arg(0)) \
                and t.arg(0).numerator_as_long() == 1 and t.arg(0).denominator_as_long() == 1:
            return CV(-ufun('LOG')(t.arg(1)), math.log(float(self.v)))
        return CV(ufun('LOG')(t), math.log(float(self.v)))

    def sqrt(self):
        return csqrt(self)

    def sign(self):
        if self > 0:
            return 1
        if self < 0:
            return -1
        return 0

    # numbers.Real boilerplate
    def __float__(self):
        return float(self.v)

    def __trunc__(self):
        return int(float(self.v))

    def __floor__(self):
        return math.floor(float(self.v))

    def __ceil__(self):
        return math.ceil(float(self.v))

    def __round__(self, n=None):
        return round(float(self.v), n)

    def __floordiv__(self, o):
        raise HarnessError('floordiv on concolic value')

    def __rfloordiv__(self, o):
        raise HarnessError('floordiv on concolic value')

    def __mod__(self, o):
        raise HarnessError('mod on concolic value')

    def __rmod__(self, o):
        raise HarnessError('mod on concolic value')

    def __repr__(self):
        return 'CV(%s=%s)' % (self.t, self.v)


def csqrt(x):
    z3 = z3mod()
    if not isinstance(x, CV):
        return math.sqrt(x)
    if float(x.v) < 0:
        raise ValueError('sqrt of a negative concolic value')
    _FRESH[0] += 1
    r = z3.Real('_sq%d' % _FRESH[0])
    if _TRACE is not None:
        _TRACE.side += [r >= 0, r * r == x.t]
    return CV(r, math.sqrt(float(x.v)))


def run(fn):
    """Run fn() under a fresh trace; returns (result, Trace)."""
    global _TRACE
    old = _TRACE
    _TRACE = Trace()
    try:
        res = fn()
        return res, _TRACE
    finally:
        _TRACE = old


def explore(make_inputs, fn, assumptions, ses, max_paths=64, label=''):
    """DSE.  make_inputs(model) -> inputs built from a z3 model (CVs with shadows);
    fn(inputs) -> result (may raise; exceptions are results too).
    Returns list of dict(pc=[z3 bool], side=[...], result=..., exc=Exception|None, inputs=...)."""
    z3 = z3mod()
    paths = []
    seen = set()
    r, m = ses.solve(list(assumptions), label=label + '/init')
    if r != 'sat':
        raise HarnessError('concolic assumptions unsatisfiable: %s' % label)
    work = [m]
    while work and len(paths) < max_paths:
        model = work.pop()
        inputs = make_inputs(model)
        exc = None
        global _TRACE
        old = _TRACE
        _TRACE = Trace()
        try:
            try:
                res = fn(inputs)
            except HarnessError:
                raise
            except Exception as e:  # the code under test may legitimately raise
                res, exc = None, e
            tr = _TRACE
        finally:
            _TRACE = old
        pc = [c if o else z3.Not(c) for c, o in tr.branches]
        key = tuple(str(c) for c in pc)
        if key in seen:
            continue
        seen.add(key)
        paths.append(dict(pc=pc, side=list(tr.side), result=res, exc=exc, inputs=inputs))
        for i in range(len(pc)):
            pref = pc[:i] + [z3.Not(pc[i])]
            k2 = tuple(str(c) for c in pref)
            if k2 in seen:
                continue
            r, m2 = ses.solve(list(assumptions) + pref, label=label + '/branch')
            if r == 'sat':
                work.append(m2)
            else:
                seen.add(k2)
    return paths


def cv_from_model(model, var, as_float=False):
    v = fval(model, var)
    return CV(var, float(v) if as_float else v)
