"""Model descriptions executed twice: against the real RSOME API and against the oracle.

A description is a function desc(a) that only uses the API object `a` and Python
operators on the handles it returns.  RealRO builds a real rsome.ro.Model; OracleRO
builds the reference semantics (Poly arrays, OAtom, OCons).
"""
from fractions import Fraction
import numpy as np

from .poly import Poly, pvars, parr, frac
from .oracle import OAtom, OCons, OCustom, osub
from .smt import HarnessError


# =====================================================================================
#  Oracle side
# =====================================================================================
class OLdr:
    """Oracle handle of a linear decision rule: y0 + sum over declared deps coefficient * z."""

    def __init__(self, api, k, shape):
        self.api, self.k, self.shape = api, k, shape
        self.size = int(np.prod(shape)) if shape != () else 1
        self.y0 = pvars('y%d' % k, shape)
        self.mask = {}          # (entry, zname) -> Poly var

    def adapt(self, entries, znames):
        for e in entries:
            for zn in znames:
                if (e, zn) in self.mask:
                    raise HarnessError('oracle: re-declared dependency')
                self.mask[(e, zn)] = Poly.var('Y%d[%d;%s]' % (self.k, e, zn))

    def value(self):
        flat = list(self.y0.reshape(-1))
        out = []
        for e, p in enumerate(flat):
            v = p
            for (ee, zn), c in self.mask.items():
                if ee == e:
                    v = v + c * Poly.var(zn)
            out.append(v)
        a = np.empty(len(out), dtype=object)
        a[:] = out
        return a.reshape(self.shape)


class OracleRO:
    kind = 'oracle'

    def __init__(self):
        self.dvars = []       # (name, array, vtype)
        self.rvars = []       # (name, array)
        self.ldrs = []
        self.cons = []        # (OCons, setkey or None)
        self.sets = {}        # key -> list[OCons]
        self.obj = None       # (sign, expr, setkey or None)
        self.znames = []

    # -- declarations
    def dvar(self, shape=(), vtype='C'):
        k = len(self.dvars)
        a = pvars('x%d' % k, _shp(shape))
        self.dvars.append(('x%d' % k, a, vtype))
        return a

    def rvar(self, shape=()):
        k = len(self.rvars)
        a = pvars('z%d' % k, _shp(shape))
        self.rvars.append(('z%d' % k, a))
        self.znames += [p_name(p) for p in a.reshape(-1)]
        return a

    def ldr(self, shape=()):
        h = OLdr(self, len(self.ldrs), _shp(shape))
        self.ldrs.append(h)
        return h

    def adapt(self, y, z, yidx=None, zidx=None):
        ents = np.arange(y.size).reshape(y.shape)
        ents = ents if yidx is None else ents[yidx]
        zz = z if zidx is None else z[zidx]
        y.adapt([int(e) for e in np.array(ents).reshape(-1)], [p_name(p) for p in parr(zz).reshape(-1)])

    def use(self, y):
        return y.value() if isinstance(y, OLdr) else y

    def note(self, *a):
        pass

    # -- atoms
    def abs(self, e):
        return OAtom('abs', e)

    def norm(self, e, p):
        return OAtom({1: 'norm1', 2: 'norm2', 'inf': 'norminf'}[p], e)

    def pnorm(self, e, a, b=1):
        return OAtom('pnorm', e, params=(a, b))

    def square(self, e):
        return OAtom('square', e)

    def sumsqr(self, e):
        return OAtom('sumsqr', e)

    def quad(self, e, Q):
        return OAtom('quad', e, params=[[frac(v) for v in row] for row in np.array(Q).tolist()])

    def power(self, e, p, q=1):
        return OAtom('power', e, params=(p, q))

    def gmean(self, e, beta=None):
        e = parr(e)
        return OAtom('gmean', e, params=list(beta) if beta is not None else [1] * e.size)

    def maxof(self, *pieces):
        return OAtom('max', [parr(p) for p in pieces])

    def minof(self, *pieces):
        return -OAtom('max', [-parr(p) for p in pieces])

    def exp(self, e):
        return OAtom('exp', e)

    def log(self, e):
        return OAtom('log', e)

    def softplus(self, e):
        return OAtom('softplus', e)

    def entropy(self, e):
        return OAtom('entropy', e)

    def pexp(self, e, s):
        return OAtom('pexp', e, params=parr(s))

    def sumexp(self, e):
        return OAtom('sumexp', e)

    def sumlog(self, e):
        return OAtom('sumlog', e)

    def plog(self, e, s):
        return OAtom('plog', e, params=parr(s))

    def sumpexp(self, e, s):
        return OAtom('sumpexp', e, params=parr(s))

    def sumexp_2step(self, e2d, Y=None):
        # exp(E).sum(axis=1).sum()  /  (exp(E) + Y).sum(axis=-1).sum(): the sum over all entries
        out = OAtom('sumexp', parr(e2d).reshape(-1))
        return out if Y is None else out + float(np.array(Y, dtype=float).sum())

    def sumexp_nested(self, e, Y):
        # (exp(e).sum() + Y).sum(): the scalar sum is repeated for every entry of Y
        Y = np.array(Y, dtype=float)
        return OAtom('sumexp', parr(e).reshape(-1)) * float(Y.size) + float(Y.sum())

    def sumexp_bcast(self, e, Y):
        # (exp(e) + Y).sum(), e broadcast to the shape of Y: sum_ij exp(e_j) + sum(Y)
        Y = np.array(Y, dtype=float)
        eb = np.broadcast_to(parr(e), Y.shape).reshape(-1)
        return OAtom('sumexp', eb) + float(Y.sum())

    def sumlog_bcast(self, e, Y):
        Y = np.array(Y, dtype=float)
        eb = np.broadcast_to(parr(e), Y.shape).reshape(-1)
        return OAtom('sumlog', eb) + float(Y.sum())

    def sumplog(self, e, s):
        return OAtom('sumplog', e, params=parr(s))

    def sum(self, e, axis=None):
        return np.sum(e, axis=axis)

    def formulate(self, solve=False):
        """history step (real side only): formulate / solve the model as declared so far"""
        return None

    def kldiv(self, p, q, r):
        """sum p log(p/q) <= r (a constraint)"""
        return self.le(OAtom('kldiv', p, params=q), r)

    def expcone(self, y, x, z):
        """z*exp(x/z) <= y (a constraint)"""
        return self.le(OAtom('pexp', parr(x).reshape(1), params=parr(z).reshape(1)), parr(y).reshape(-1))

    def rsocone(self, x, y, z):
        """sum(x**2) <= y*z, y >= 0, z >= 0"""
        xs = list(parr(x).reshape(-1))
        yy, zz = parr(y).reshape(-1)[0], parr(z).reshape(-1)[0]

        def z3fn(env, eps=0):
            ss = env.z3.Sum([env.p(e) * env.p(e) for e in xs])
            ev = env.z3.RealVal(str(eps))
            return [ss <= env.p(yy) * env.p(zz) + ev, env.p(yy) >= -ev, env.p(zz) >= -ev]

        def evalfn(asg):
            yv, zv = yy.evalf(asg), zz.evalf(asg)
            return max(sum(e.evalf(asg) ** 2 for e in xs) - yv * zv, -yv, -zv)
        return OCustom(z3fn, evalfn, 'rsocone', xs + [yy, zz])

    # -- constraints
    def le(self, l, r):
        return OCons(osub(l, r), 'le')

    def ge(self, l, r):
        return OCons(osub(r, l), 'le')

    def eq(self, l, r):
        return OCons(osub(l, r), 'eq')

    def uset(self, *cons):
        key = 'U%d' % len(self.sets)
        self.sets[key] = _flat(cons)
        return key

    def st(self, c, forall=None):
        for cc in _flat([c]):
            self.cons.append((cc, forall))
        return c

    def min(self, e):
        self.obj = (1, e, None)

    def max(self, e):
        self.obj = (-1, e, None)

    def minmax(self, e, uset):
        self.obj = (1, e, uset)
        self.default = uset

    def maxmin(self, e, uset):
        self.obj = (-1, e, uset)
        self.default = uset

    default = None


def p_name(p):
    (m,) = [m for m in p.t if m]
    return m[0]


def _shp(shape):
    if isinstance(shape, int):
        return (shape,)
    return tuple(shape)


def _flat(xs):
    out = []
    for x in xs:
        if isinstance(x, (list, tuple)):
            out += _flat(x)
        else:
            out.append(x)
    return out


# =====================================================================================
#  Real side
# =====================================================================================
class RealRO:
    kind = 'real'

    def __init__(self, style=None, front='ro'):
        from rsome import ro
        import rsome as rso
        self.rso = rso
        self.front = front
        if front == 'dro':
            # the same deterministic description through the dro front end (DecVar / DecAffine / DecConvex classes,
            # dro.Model.do_math): one scenario, no ambiguity set
            from rsome import dro
            self.m = dro.Model()
        elif front == 'gcp':
            # the conic model class used on its own (rsome.gcp.Model: the class of ro.Model's compiled model and of the
            # shared set models): affine objective only, so the epigraph variable t is the model's first variable
            from rsome import gcp
            self.m = gcp.Model()
            self.t = self.m.dvar()
        else:
            self.m = ro.Model()
        self.dvars, self.rvars, self.ldrs = [], [], []
        self.sets = {}
        self.style = style or {}
        self.st_returns = []
        self.notes = []

    def dvar(self, shape=(), vtype='C'):
        x = self.m.dvar(shape, vtype)
        self.dvars.append(x)
        return x

    def rvar(self, shape=()):
        z = self.m.rvar(shape)
        self.rvars.append(z)
        return z

    def ldr(self, shape=()):
        y = self.m.ldr(shape)
        self.ldrs.append(y)
        return y

    def adapt(self, y, z, yidx=None, zidx=None):
        yy = y if yidx is None else y[yidx]
        zz = z if zidx is None else z[zidx]
        yy.adapt(zz)

    def use(self, y):
        return y

    def note(self, kind, e, rhs, sense):
        self.notes.append((kind, e, rhs, sense))

    def abs(self, e):
        return abs(e)

    def norm(self, e, p):
        return self.rso.norm(e, {1: 1, 2: 2, 'inf': 'inf'}[p])

    def pnorm(self, e, a, b=1):
        return self.rso.pnorm(e, a if b == 1 else (a, b))

    def square(self, e):
        return self.rso.square(e)

    def sumsqr(self, e):
        return self.rso.sumsqr(e)

    def quad(self, e, Q):
        return self.rso.quad(e, np.array(Q, dtype=float))

    def power(self, e, p, q=1):
        return self.rso.power(e, p, q)

    def gmean(self, e, beta=None):
        return self.rso.gmean(e, beta)

    def maxof(self, *pieces):
        return self.rso.maxof(*pieces)

    def minof(self, *pieces):
        return self.rso.minof(*pieces)

    def exp(self, e):
        return self.rso.exp(e)

    def log(self, e):
        return self.rso.log(e)

    def softplus(self, e):
        return self.rso.softplus(e)

    def entropy(self, e):
        return self.rso.entropy(e)

    def pexp(self, e, s):
        return self.rso.pexp(e, s)

    def sumexp(self, e):
        return self.rso.exp(e).sum()

    def sumlog(self, e):
        return self.rso.log(e).sum()

    def plog(self, e, s):
        return self.rso.plog(e, s)

    def sumpexp(self, e, s):
        return self.rso.pexp(e, s).sum()

    def sumexp_2step(self, e2d, Y=None):
        h = self.rso.exp(e2d)
        if Y is not None:
            return (h + np.array(Y, dtype=float)).sum(axis=-1).sum()
        return h.sum(axis=1).sum()

    def sumexp_nested(self, e, Y):
        return (self.rso.exp(e).sum() + np.array(Y, dtype=float)).sum()

    def sumexp_bcast(self, e, Y):
        return (self.rso.exp(e) + np.array(Y, dtype=float)).sum()

    def sumlog_bcast(self, e, Y):
        return (self.rso.log(e) + np.array(Y, dtype=float)).sum()

    def sumplog(self, e, s):
        return self.rso.plog(e, s).sum()

    def sum(self, e, axis=None):
        return e.sum(axis=axis) if axis is not None else e.sum()

    def formulate(self, solve=False):
        from .util import quiet
        with quiet():
            self.m.do_math()
            if solve:
                try:
                    from rsome import eco_solver
                    self.m.solve(eco_solver, display=False)
                except Exception:
                    pass

    def kldiv(self, p, q, r):
        return self.rso.kldiv(p, q, r)

    def expcone(self, y, x, z):
        return self.rso.expcone(y, x, z)

    def rsocone(self, x, y, z):
        return self.rso.rsocone(x, y, z)

    def le(self, l, r):
        s = self.style.get('le')
        if s == 'flip':
            return r >= l
        if s == 'neg':
            return -r <= -l
        return l <= r

    def ge(self, l, r):
        s = self.style.get('ge')
        if s == 'flip':
            return r <= l
        return l >= r

    def eq(self, l, r):
        return l == r

    def uset(self, *cons):
        key = 'U%d' % len(self.sets)
        self.sets[key] = cons
        return key

    def st(self, c, forall=None):
        if forall is not None:
            sets = self.sets[forall]
            if isinstance(c, (list, tuple)):
                c = [ci.forall(*sets) for ci in c]
            else:
                c = c.forall(*sets)
        r = self.m.st(c)
        self.st_returns.append(r)
        if self.style.get('reformulate_each_st'):
            # history (real side only): the model is formulated after every st() call
            from .util import quiet
            with quiet():
                self.m.do_math()
        return r

    def min(self, e):
        if self.front == 'gcp':
            self.st(e - self.t <= 0)
            return self.m.min(self.t)
        self.m.min(e)

    def max(self, e):
        if self.front == 'gcp':
            self.st((-e) - self.t <= 0)
            return self.m.min(self.t)
        self.m.max(e)

    def minmax(self, e, uset):
        self.m.minmax(e, *self.sets[uset])

    def maxmin(self, e, uset):
        self.m.maxmin(e, *self.sets[uset])

    # ---- interface map through the public read-back API (sentinel injection)
    def interface(self, formula):
        """name -> column of the compiled program, obtained by injecting the solution vector
        x_k = k + 0.25 and reading every user variable back through get()."""
        from rsome.lp import Solution
        n = formula.linear.shape[1]
        sent = np.arange(n, dtype=float) + 0.25
        sol = Solution('sentinel', 0.0, sent, 0, 0.0)
        if self.front == 'dro':
            rc = self.m.ro_model.rc_model
            keep = (rc.solution, self.m.solution)
            rc.solution = sol
            self.m.solution = sol
            try:
                names = {}
                for k, x in enumerate(self.dvars):
                    vals = np.array(x.get()).reshape(-1)
                    base = pvars('x%d' % k, x.shape).reshape(-1)
                    for p, v in zip(base, vals):
                        names[p_name(p)] = _col(v, n)
            finally:
                rc.solution, self.m.solution = keep
            return names
        if self.front == 'gcp':
            keep = self.m.solution
            self.m.solution = sol
            try:
                names = {}
                for k, x in enumerate(self.dvars):
                    vals = np.array(x.get()).reshape(-1)
                    base = pvars('x%d' % k, x.shape).reshape(-1)
                    for p, v in zip(base, vals):
                        names[p_name(p)] = _col(v, n)
            finally:
                self.m.solution = keep
            return names
        keep = (self.m.rc_model.solution, self.m.solution)
        self.m.rc_model.solution = sol
        self.m.solution = sol
        try:
            names = {}
            for k, x in enumerate(self.dvars):
                vals = np.array(x.get()).reshape(-1)
                base = pvars('x%d' % k, x.shape).reshape(-1)
                for p, v in zip(base, vals):
                    names[p_name(p)] = _col(v, n)
            for k, y in enumerate(self.ldrs):
                vals = np.array(y.get()).reshape(-1)
                base = pvars('y%d' % k, y.shape).reshape(-1)
                for p, v in zip(base, vals):
                    names[p_name(p)] = _col(v, n)
                if y.depend is not None:
                    for r, z in enumerate(self.rvars):
                        co = np.array(y.get(z)).reshape(y.size, -1)
                        zn = [p_name(p) for p in pvars('z%d' % r, z.shape).reshape(-1)]
                        for e in range(y.size):
                            for j, znm in enumerate(zn):
                                if not np.isnan(co[e, j]):
                                    names['Y%d[%d;%s]' % (k, e, znm)] = _col(co[e, j], n)
        finally:
            self.m.rc_model.solution, self.m.solution = keep
        return names


def _col(v, n):
    c = v - 0.25
    if abs(c - round(c)) > 1e-9 or not (0 <= round(c) < n):
        raise HarnessError('sentinel read-back is not a column index: %r' % (v,))
    return int(round(c))


def build_both(desc, style=None):
    o = OracleRO()
    desc(o)
    r = RealRO(style)
    desc(r)
    return o, r
