"""Small helpers shared by the property modules."""
import contextlib
import os
import sys
import warnings


@contextlib.contextmanager
def quiet():
    """Silence Python- and C-level stdout/stderr chatter of solver libraries (ECOS, HiGHS, Gurobi)."""
    sys.stdout.flush()
    sys.stderr.flush()
    saved = os.dup(1), os.dup(2)
    devnull = os.open(os.devnull, os.O_WRONLY)
    try:
        os.dup2(devnull, 1)
        os.dup2(devnull, 2)
        with warnings.catch_warnings():
            warnings.simplefilter('ignore')
            yield
    finally:
        sys.stdout.flush()
        sys.stderr.flush()
        os.dup2(saved[0], 1)
        os.dup2(saved[1], 2)
        os.close(saved[0])
        os.close(saved[1])
        os.close(devnull)


@contextlib.contextmanager
def sparse_object_matmul():
    """Harness-side stub (listed in evidence): scipy.sparse @ object-array raises in SciPy, so for
    object operands the product is computed densely.  The code under test is unchanged; for numeric
    operands the original SciPy routine runs."""
    import numpy as np
    import scipy.sparse as sp
    base = sp._base._spbase
    orig = base._matmul_dispatch

    def patched(self, other):
        if isinstance(other, np.ndarray) and other.dtype == object:
            return np.asarray(self.toarray(), dtype=object) @ other
        return orig(self, other)
    base._matmul_dispatch = patched
    try:
        yield
    finally:
        base._matmul_dispatch = orig
