"""Small helpers shared by the property modules."""
import contextlib
import os
import sys
import warnings


@contextlib.contextmanager
def quiet():
    """Silence Python- and C-level stdout/stderr chatter of solver libraries (ECOS, HiGHS, Gurobi)."""
    sys.stdout.flush()
    sys.stderr.flush()
    saved = os.dup(1), os.dup(2)
    devnull = os.open(os.devnull, os.O_WRONLY)
    try:
        os.dup2(devnull, 1)
        os.dup2(devnull, 2)
        with warnings.catch_warnings():
            warnings.simplefilter('ignore')
            yield
    finally:
        sys.stdout.flush()
        sys.stderr.flush()
        os.dup2(saved[0], 1)
        os.dup2(saved[1], 2)
        os.close(saved[0])
        os.close(saved[1])
        os.close(devnull)
