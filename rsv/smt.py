"""Solver glue: obligations, reachability twins, second-solver diff, statistics.

An obligation is one SMT query.  `unsat` (for expect='unsat') means the assertion holds
for every value of the symbolic variables inside the stated bound; `sat` gives a model
that the caller must replay against the real code; `unknown` is inconclusive and is never
counted as discharged.
"""
import os
import subprocess
import tempfile
import time
import hashlib
from fractions import Fraction
from .poly import z3mod

Z3_OLD = '/usr/bin/z3'
CVC5_FALLBACK_MS = 15000     # cvc5 as deciding solver for core obligations z3 leaves unknown


class HarnessError(Exception):
    """The machinery (not the code under test) is wrong or inconclusive -> exit 2."""


def fval(model, term):
    """Exact Fraction value of a z3 term in a model (model completion on)."""
    z3 = z3mod()
    v = model.eval(term, model_completion=True)
    if z3.is_int_value(v):
        return Fraction(v.as_long())
    if z3.is_rational_value(v):
        return Fraction(v.numerator_as_long(), v.denominator_as_long())
    if z3.is_algebraic_value(v):
        a = v.approx(30)
        return Fraction(a.numerator_as_long(), a.denominator_as_long())
    if z3.is_true(v):
        return Fraction(1)
    if z3.is_false(v):
        return Fraction(0)
    raise HarnessError('cannot read model value %s' % v)


class Stats:
    def __init__(self):
        self.obligations = 0
        self.discharged = 0
        self.undecided = 0
        self.core_undecided = 0
        self.twins = 0
        self.twins_ok = 0
        self.sat_expected = 0
        self.solver_time = {}
        self.queries = 0
        self.diffed = 0
        self.diffed_cvc5 = 0
        self.cvc5_errors = 0
        self.samples = []
        self.kinds = {}
        self.functions = set()
        self.programs = 0
        self.nontrivial = set()
        self.notes = []
        self.max_query_s = 0.0

    def add_time(self, solver, dt):
        self.solver_time[solver] = self.solver_time.get(solver, 0.0) + dt
        self.max_query_s = max(self.max_query_s, dt)


class Session:
    """Collects obligations for one check run."""

    def __init__(self, prop, tier, seed, timeout_ms=20000, diff_every=25):
        self.prop = prop
        self.tier = tier
        self.seed = seed
        self.timeout_ms = timeout_ms
        self.stats = Stats()
        self.diff_every = diff_every
        self.violations = []      # (label, replay path)
        self.known = []
        self.t0 = time.time()

    # -- raw query
    def solve(self, cons, timeout_ms=None, tactic=None, label='', fallback_ms=0):
        """One query on z3 5.1 (in process).  With fallback_ms > 0 a quantifier-free query that z3 leaves 'unknown' is handed
        to the cvc5 1.0 binary as SMT-LIB2 text under a hard wall-clock limit; only its `unsat` is used as a verdict (no model
        is read back, so its `sat` stays inconclusive)."""
        z3 = z3mod()
        s = z3.Solver() if tactic is None else (z3.Then(*tactic).solver() if isinstance(tactic, (tuple, list)) else z3.Tactic(tactic).solver())
        s.set('timeout', int(timeout_ms or self.timeout_ms))
        for c in cons:
            s.add(c)
        t = time.time()
        r = s.check()
        dt = time.time() - t
        self.stats.queries += 1
        self.stats.add_time('z3-%s' % z3.get_version_string(), dt)
        res = str(r)
        model = s.model() if res == 'sat' else None
        if res == 'unknown' and fallback_ms:
            if self._cvc5_decide(s, fallback_ms, label) == 'unsat':
                return 'unsat', None
        if self.diff_every and self.stats.queries % self.diff_every == 1 and res in ('sat', 'unsat') and dt < 2.0:
            self._diff(s, res, label)
        return res, model

    def solve_external(self, cons, timeout_ms=None, tactic=None, label=''):
        """Decide a query in a separate z3 process (the z3 5.1 command line on the SMT-LIB2 text of the query) under a HARD
        wall-clock limit: exact simplex on large linearised systems does not poll z3's timer, an in-process call can
        run for hours.  No model is returned ('sat' carries None)."""
        import shutil
        z3 = z3mod()
        exe = shutil.which('z3-new') or shutil.which('z3')
        if exe is None:
            return self.solve(cons, timeout_ms, tactic, label)
        s = z3.Solver()
        for c in cons:
            s.add(c)
        text = s.to_smt2()
        if tactic is not None:
            tt = ' '.join(tactic) if isinstance(tactic, (tuple, list)) else tactic
            text = text.replace('(check-sat)', '(check-sat-using (then %s))' % tt)
        secs = max(1, int((timeout_ms or self.timeout_ms) / 1000))
        with tempfile.NamedTemporaryFile('w', suffix='.smt2', delete=False, dir=_scratch()) as f:
            f.write(text)
            path = f.name
        t = time.time()
        res = 'unknown'
        try:
            p = subprocess.run([exe, '-T:%d' % secs, path], capture_output=True, text=True, timeout=secs + 5)
            out = p.stdout.strip().splitlines()
            if out and out[0] in ('sat', 'unsat') and not any('(error' in l for l in out):
                res = out[0]
        except subprocess.TimeoutExpired:
            res = 'unknown'
        finally:
            try:
                os.unlink(path)
            except OSError:
                pass
        self.stats.queries += 1
        self.stats.add_time('z3-cli(%s)' % os.path.basename(exe), time.time() - t)
        return res, None

    def _cvc5_decide(self, solver, limit_ms, label):
        """cvc5 1.0 binary as DECIDING solver for quantifier-free (mostly nonlinear real) queries z3's nlsat does not finish:
        incremental linearisation + coverings decide in seconds what CAD with 53-bit rational coefficients does not."""
        import shutil
        exe = shutil.which('cvc5')
        if exe is None:
            return 'unknown'
        z3 = z3mod()
        texts = [solver.to_smt2()]
        if 'forall' in texts[0] or 'exists' in texts[0] or 'declare-datatypes' in texts[0]:
            return 'unknown'
        secs = max(1, int(limit_ms / 1000))
        res = 'unknown'
        t = time.time()
        for attempt in range(2):
            with tempfile.NamedTemporaryFile('w', suffix='.cvc5.smt2', delete=False, dir=_scratch()) as f:
                f.write('(set-logic ALL)\n' + texts[-1])
                path = f.name
            try:
                p = subprocess.run([exe, '--tlimit=%d' % (secs * 1000), path], capture_output=True, text=True, timeout=secs + 5)
                out = [l for l in p.stdout.strip().splitlines() if l.strip()]
                bad = p.returncode != 0 or any('(error' in l for l in out) or 'rror' in p.stderr
                if bad and 'Parse Error' in (p.stderr + p.stdout) and attempt == 0:
                    # z3 prints unary sums `(+ t)`: retry on the assertions after z3's term simplifier
                    s2 = z3.Solver()
                    for a in solver.assertions():
                        s2.add(z3.simplify(a))
                    texts.append(s2.to_smt2())
                    continue
                if not bad and out and out[0] in ('sat', 'unsat'):
                    res = out[0]
                break
            except subprocess.TimeoutExpired:
                break
            finally:
                try:
                    os.unlink(path)
                except OSError:
                    pass
        self.stats.queries += 1
        self.stats.add_time('cvc5-1.0(bin, deciding)', time.time() - t)
        k = 'cvc5-decided-' + res
        self.stats.kinds[k] = self.stats.kinds.get(k, 0) + 1
        if res == 'unsat':
            self.stats.notes.append('decided by cvc5 (z3 unknown): %s' % label)
        return res

    def _diff(self, solver, res, label):
        """Re-run the query with the z3 4.8.12 binary and with the cvc5 1.0 binary through SMT-LIB2 and compare."""
        text = solver.to_smt2()
        with tempfile.NamedTemporaryFile('w', suffix='.smt2', delete=False, dir=_scratch()) as f:
            f.write(text)
            path = f.name
        try:
            if os.path.exists(Z3_OLD):
                self._diff_z3old(path, res, label)
            if self._diff_cvc5(path, text, res, label) == 'parse-error':
                # z3 prints unary sums `(+ t)`, which cvc5 1.0 rejects: retry on the assertions after z3's term simplifier
                z3 = z3mod()
                s2 = z3.Solver()
                for a in solver.assertions():
                    s2.add(z3.simplify(a))
                self._diff_cvc5(path, s2.to_smt2(), res, label, retry=True)
        finally:
            if os.path.exists(path):
                try:
                    os.unlink(path)
                except OSError:
                    pass

    def _diff_z3old(self, path, res, label):
        try:
            t = time.time()
            p = subprocess.run([Z3_OLD, '-T:6', path], capture_output=True, text=True, timeout=12)
            self.stats.add_time('z3-4.8.12(bin)', time.time() - t)
            out = p.stdout.strip().splitlines()
            if any('(error' in l for l in out):
                # old z3 cannot parse something: inconclusive for the diff, not a verdict
                self.stats.notes.append('diff: z3-4.8.12 error on %s' % label)
                return
            first = out[0] if out else 'unknown'
            if first in ('sat', 'unsat'):
                self.stats.diffed += 1
                if first != res:
                    keep = os.path.join(_scratch(), 'disagree-%s.smt2' % short_hash(open(path).read()))
                    shutil_copy(path, keep)
                    raise HarnessError('solver disagreement on %s: z3-new=%s z3-old=%s (%s)'
                                       % (label, res, first, keep))
        except subprocess.TimeoutExpired:
            pass

    def _diff_cvc5(self, path, text, res, label, retry=False):
        """Third solver: the cvc5 1.0 binary on the same SMT-LIB2 text (logic ALL).  Anything but sat/unsat is inconclusive."""
        import shutil
        exe = shutil.which('cvc5')
        if exe is None or 'declare-datatypes' in text:
            return
        p2 = path + '.cvc5.smt2'
        with open(p2, 'w') as f:
            f.write('(set-logic ALL)\n' + text)
        try:
            t = time.time()
            p = subprocess.run([exe, '--tlimit=6000', p2], capture_output=True, text=True, timeout=12)
            self.stats.add_time('cvc5-1.0(bin)', time.time() - t)
            out = [l for l in p.stdout.strip().splitlines() if l.strip()]
            if p.returncode != 0 or any('(error' in l for l in out) or 'rror' in p.stderr:
                if 'Parse Error' in (p.stderr + p.stdout) and not retry:
                    return 'parse-error'
                self.stats.cvc5_errors += 1
                if self.stats.cvc5_errors <= 2:
                    self.stats.notes.append('diff: cvc5 inconclusive on %s: %s' % (label, (p.stderr.strip() or ' '.join(out))[:160]))
                return
            first = out[0] if out else 'unknown'
            if first in ('sat', 'unsat'):
                self.stats.diffed_cvc5 += 1
                if first != res:
                    keep = os.path.join(_scratch(), 'disagree-%s.smt2' % short_hash(text))
                    os.replace(p2, keep)
                    raise HarnessError('solver disagreement on %s: z3-new=%s cvc5=%s (%s)' % (label, res, first, keep))
        except subprocess.TimeoutExpired:
            pass
        finally:
            if os.path.exists(p2):
                try:
                    os.unlink(p2)
                except OSError:
                    pass

    # -- obligations
    def oblige(self, label, assumptions, negated_claim, kind='', core=True, timeout_ms=None,
               twin=True, sample=None, tactic=None):
        """Discharge: assumptions /\\ negated_claim must be unsat.

        Returns ('unsat', None) | ('sat', model) | ('unknown', None).
        A reachability twin (assumptions alone must be sat) is run when twin=True.
        """
        st = self.stats
        st.obligations += 1
        st.kinds[kind] = st.kinds.get(kind, 0) + 1
        res, model = self.solve(list(assumptions) + list(negated_claim), timeout_ms, tactic, label,
                                fallback_ms=(CVC5_FALLBACK_MS if core else 0))
        if res == 'unsat':
            if twin:
                st.twins += 1
                r2, _ = self.solve(list(assumptions), timeout_ms, tactic, label + '/twin')
                if r2 == 'sat':
                    st.twins_ok += 1
                elif r2 == 'unsat':
                    raise HarnessError('vacuous obligation (assumptions unsatisfiable): %s' % label)
                else:
                    st.notes.append('twin undecided: %s' % label)
            st.discharged += 1
        elif res == 'unknown':
            st.undecided += 1
            if core:
                st.core_undecided += 1
            st.notes.append('undecided%s: %s' % (' (core)' if core else '', label))
        else:
            # a counterexample: the caller must report it (finding), dismiss it explicitly (dismiss) or fail - the harness ends a
            # case that leaves a `sat` answer unexamined with a harness error instead of passing silently
            if not hasattr(st, 'sat_labels'):
                st.sat_labels = []
            st.sat_labels.append(label)
        if sample is not None and len(st.samples) < 12:
            st.samples.append(dict(label=label, kind=kind, result=res, **sample))
        return res, model

    def dismiss(self, label, reason):
        """A `sat` answer that is not a violation by itself (e.g. superseded by a stronger reading that was then discharged)."""
        st = self.stats
        if label in getattr(st, 'sat_labels', []):
            st.sat_labels.remove(label)
        st.notes.append('sat dismissed: %s (%s)' % (label, reason))

    def dismiss_last(self, reason):
        st = self.stats
        if getattr(st, 'sat_labels', []):
            st.notes.append('sat dismissed: %s (%s)' % (st.sat_labels.pop(), reason))

    def retract(self, label, kind='', core=True):
        """Undo the bookkeeping of an attempt that came back 'unknown' and is about to be re-tried with an
        equivalent, easier encoding (the re-try is counted as the obligation)."""
        st = self.stats
        st.obligations -= 1
        st.undecided -= 1
        st.kinds[kind] = st.kinds.get(kind, 1) - 1
        if core:
            st.core_undecided -= 1
        note = 'undecided%s: %s' % (' (core)' if core else '', label)
        if note in st.notes:
            st.notes.remove(note)
        st.retried = getattr(st, 'retried', 0) + 1

    def expect_sat(self, label, cons, kind='', core=True, timeout_ms=None):
        """Non-vacuity / expressiveness obligations: the query must be sat."""
        st = self.stats
        st.obligations += 1
        st.sat_expected += 1
        st.kinds[kind] = st.kinds.get(kind, 0) + 1
        res, model = self.solve(cons, timeout_ms, None, label)
        if res == 'sat':
            st.discharged += 1
        elif res == 'unknown':
            st.undecided += 1
            if core:
                st.core_undecided += 1
            st.notes.append('undecided%s: %s' % (' (core)' if core else '', label))
        return res, model

    def optimum(self, cons, objective, minimize=True, timeout_ms=None, label='', ints=None):
        """Exact optimum of a linear objective over LRA constraints with z3 Optimize.

        With integer variables (`ints`) z3's optimiser is not reliable on mixed problems (observed:
        "-4 - epsilon" for a MILP whose optimum is -5), so the optimum is computed by solver-guided
        enumeration: ask a plain Solver for a feasible point strictly better than the incumbent, fix its
        integer part, optimise the continuous part exactly (pure LRA), repeat until unsat.

        Returns ('optimal', Fraction) | ('infeasible', None) | ('unbounded', None) | ('unknown', None)
        """
        z3 = z3mod()
        if ints:
            if not minimize:
                raise HarnessError('mixed optimum: minimise only')
            best = None
            for it in range(400):
                extra = [] if best is None else [objective < z3.RealVal(str(best))]
                r, m = self.solve(list(cons) + extra, timeout_ms, label=label + '/improve')
                if r == 'unsat':
                    return ('optimal', best) if best is not None else ('infeasible', None)
                if r != 'sat':
                    return 'unknown', None
                fix = [iv == m.eval(iv, model_completion=True) for iv in ints]
                st, v = self.optimum(list(cons) + fix, objective, True, timeout_ms, label + '/cont')
                if st == 'unbounded':
                    return 'unbounded', None
                if st != 'optimal':
                    return 'unknown', None
                best = v
            return 'unknown', None
        o = z3.Optimize()
        o.set('timeout', int(timeout_ms or self.timeout_ms))
        for c in cons:
            o.add(c)
        h = o.minimize(objective) if minimize else o.maximize(objective)
        t = time.time()
        r = o.check()
        dt = time.time() - t
        self.stats.queries += 1
        self.stats.add_time('z3opt-%s' % z3.get_version_string(), dt)
        if str(r) == 'unsat':
            return 'infeasible', None
        if str(r) != 'sat':
            return 'unknown', None
        v = o.lower(h) if minimize else o.upper(h)
        sv = str(v)
        if 'oo' in sv:
            return 'unbounded', None
        if 'epsilon' in sv:
            return 'unknown', None
        if z3.is_int_value(v):
            return 'optimal', Fraction(v.as_long())
        if z3.is_rational_value(v):
            return 'optimal', Fraction(v.numerator_as_long(), v.denominator_as_long())
        if z3.is_algebraic_value(v):
            a = v.approx(30)
            return 'optimal', Fraction(a.numerator_as_long(), a.denominator_as_long())
        return 'unknown', None

    # -- reporting
    def violation(self, label, replay_path):
        self.violations.append((label, replay_path))

    def elapsed(self):
        return time.time() - self.t0


def shutil_copy(a, b):
    import shutil
    shutil.copyfile(a, b)


def _scratch():
    d = os.environ.get('RSV_SCRATCH')
    if not d:
        d = os.path.join(os.path.dirname(os.path.dirname(os.path.abspath(__file__))), '.scratch')
    os.makedirs(d, exist_ok=True)
    return d


def short_hash(obj):
    return hashlib.sha1(repr(obj).encode()).hexdigest()[:10]
