"""dro model descriptions executed against the real rsome.dro API and against the oracle.

Oracle semantics (Lemma J - vertex spreading): supports are polytopes and integrands are convex
piecewise-affine in z, so a distribution can be replaced by one supported on support vertices with
the same scenario probabilities and conditional means and no smaller expectation.  A distribution
is a weight vector w[s,k] >= 0 over (scenario, support vertex) pairs; the ambiguity set is the
polytope W:  p_s = sum_k w[s,k],  p in the probability set,  for every expectation set (event E, Q):
sum_{s in E} sum_k w[s,k] v_{s,k}  in  (sum_{s in E} p_s) * Q   (perspective scaling).
"""
from fractions import Fraction
import itertools
import numpy as np

from .poly import Poly, pvars, parr, frac, z3mod
from .oracle import OAtom, OCons, osub, Z3Env
from .usets import USet, enumerate_vertices
from .models import p_name, _flat, _shp
from .smt import HarnessError


class OExp:
    """E(expr) marker on the oracle side."""

    def __init__(self, e):
        self.e = e

    def _lift(self, o):
        return o.e if isinstance(o, OExp) else o

    def __add__(self, o):
        return OExp(self.e + self._lift(o))

    __radd__ = __add__

    def __sub__(self, o):
        return OExp(self.e - self._lift(o))

    def __rsub__(self, o):
        return OExp(self._lift(o) - self.e)

    def __mul__(self, c):
        return OExp(self.e * c)

    __rmul__ = __mul__

    def __neg__(self):
        return OExp(-self.e)

    def sum(self, axis=None):
        return OExp(np.sum(self.e, axis=axis))


class OECons:
    """Constraint on a worst-case expectation:  sup_P E[expr] <= 0."""

    def __init__(self, cons):
        self.cons = cons


class ODec:
    def __init__(self, k, shape, vtype, ns):
        self.k, self.shape, self.vtype = k, shape, vtype
        self.size = int(np.prod(shape)) if shape != () else 1
        self.place = pvars('x%d' % k, shape)
        self.events = [list(range(ns))]
        self.mask = {}        # (entry, zname) -> True

    def adapt_event(self, positions):
        for p in positions:
            if p not in self.events[0]:
                raise HarnessError('oracle: scenario re-declared')
            self.events[0].remove(p)
        if not self.events[0]:
            self.events.pop(0)
        self.events.append(list(positions))

    def event_of(self, s):
        for ev in self.events:
            if s in ev:
                return min(ev)
        raise HarnessError('scenario without event')


class OracleDRO:
    kind = 'oracle'

    def __init__(self):
        self.ns = 1
        self.labels = None
        self.decs, self.rvs = [], []
        self.znames = []
        self.cons = []        # (OCons | ('E', OCons), ambiguity key)
        self.obj = None       # (sign, expr | OExp, amb key)
        self.amb = {}
        self.pvars = None

    def scen(self, ns, labels=None):
        self.ns, self.labels = ns, labels
        self.pvars = pvars('p', (ns,))
        return self.pvars

    def dvar(self, shape=(), vtype='C'):
        d = ODec(len(self.decs), _shp(shape), vtype, self.ns)
        self.decs.append(d)
        return d.place

    def _dec(self, x):
        nm = p_name(parr(x).reshape(-1)[0])
        k = int(nm[1:nm.index('[')]) if '[' in nm else int(nm[1:])
        return self.decs[k]

    def rvar(self, shape=()):
        k = len(self.rvs)
        a = pvars('z%d' % k, _shp(shape))
        self.rvs.append(a)
        self.znames += [p_name(p) for p in a.reshape(-1)]
        return a

    def Ez(self, z):
        """E(z): expectation variables for expectation sets."""
        out = np.empty(parr(z).shape, dtype=object)
        for idx in (np.ndindex(*out.shape) if out.shape != () else [()]):
            out[idx] = Poly.var('E' + p_name(parr(z)[idx]))
        return out

    def evt(self, x, positions):
        self._dec(x).adapt_event(list(positions))

    def aff(self, x, z, xidx=None, zidx=None):
        d = self._dec(x)
        ents = np.arange(d.size).reshape(d.shape)
        ents = ents if xidx is None else ents[xidx]
        zz = parr(z) if zidx is None else parr(z)[zidx]
        for e in np.array(ents).reshape(-1):
            for zn in [p_name(p) for p in parr(zz).reshape(-1)]:
                d.mask[(int(e), zn)] = True

    def ambiguity(self):
        key = 'F%d' % len(self.amb)
        self.amb[key] = dict(supp={s: [] for s in range(self.ns)}, expt=[], prob=[])
        return key

    def supp(self, F, scens, *cons):
        for s in (range(self.ns) if scens is None else scens):
            self.amb[F]['supp'][s] = _flat(cons)

    def expt(self, F, scens, *cons):
        self.amb[F]['expt'].append((list(range(self.ns)) if scens is None else list(scens), _flat(cons)))

    def prob(self, F, *cons):
        self.amb[F]['prob'] = _flat(cons)

    def E(self, e):
        return OExp(e)

    def kldiv(self, p, q, r):
        return OCons(OAtom('kldiv', p, params=q) - r, 'le')

    def entropy_ge(self, p, r):
        return OCons(r - OAtom('entropy', p), 'le')

    def abs(self, e):
        return OAtom('abs', e)

    def norm(self, e, p):
        return OAtom({1: 'norm1', 2: 'norm2', 'inf': 'norminf'}[p], e)

    def square(self, e):
        return OAtom('square', e)

    def exp(self, e):
        return OAtom('exp', e)

    def maxof(self, *pieces):
        return OAtom('max', [parr(p) for p in pieces])

    def minof(self, *pieces):
        return -OAtom('max', [-parr(p) for p in pieces])

    def sum(self, e, axis=None):
        return np.sum(e, axis=axis)

    def plus(self, l, r):
        """l + r where one operand is E(expr of STATIC decisions only) and the other contains random variables written
        OUTSIDE E(): the expectation of a static expression is the expression, the random part stays robust (the
        constraint must hold for every realisation)."""
        le_ = l.e if isinstance(l, OExp) else l
        re_ = r.e if isinstance(r, OExp) else r
        return le_ + re_

    def le(self, l, r):
        if isinstance(l, OExp) or isinstance(r, OExp):
            le_ = l.e if isinstance(l, OExp) else l
            re_ = r.e if isinstance(r, OExp) else r
            return OECons(OCons(osub(le_, re_), 'le'))
        return OCons(osub(l, r), 'le')

    def ge(self, l, r):
        return self.le(r, l)

    def eq(self, l, r):
        if isinstance(l, OExp) or isinstance(r, OExp):
            le_ = l.e if isinstance(l, OExp) else l
            re_ = r.e if isinstance(r, OExp) else r
            return OECons(OCons(osub(le_, re_), 'eq'))
        return OCons(osub(l, r), 'eq')

    def st(self, c, forall=None):
        for cc in _flat([c]):
            self.cons.append((cc, forall))

    def minsup(self, e, F):
        self.obj = (1, e, F)
        self.default = F

    def maxinf(self, e, F):
        self.obj = (-1, e, F)
        self.default = F

    def min(self, e):
        self.obj = (1, e, None)

    def max(self, e):
        self.obj = (-1, e, None)

    default = None

    # ---- instantiation per scenario
    def subst_for(self, s):
        env = {}
        for d in self.decs:
            ev = d.event_of(s)
            flat = list(d.place.reshape(-1))
            for i, p in enumerate(flat):
                nm = p_name(p)
                v = Poly.var('%s@e%d' % (nm, ev))
                for (e, zn) in d.mask:
                    if e == i:
                        v = v + Poly.var('%s@e%d;%s' % (nm, ev, zn)) * Poly.var(zn)
                env[nm] = v
        return env

    def iface_names(self):
        """name -> (decision index, event representative, entry, zname|None)"""
        out = {}
        for d in self.decs:
            flat = list(d.place.reshape(-1))
            for ev in d.events:
                r = min(ev)
                for i, p in enumerate(flat):
                    nm = p_name(p)
                    out['%s@e%d' % (nm, r)] = (d.k, r, i, None)
                    for (e, zn) in d.mask:
                        if e == i:
                            out['%s@e%d;%s' % (nm, r, zn)] = (d.k, r, i, zn)
        return out


# =====================================================================================
class RealDRO:
    kind = 'real'

    def __init__(self):
        import rsome as rso
        self.rso = rso
        self.m = None
        self.decs, self.rvs = [], []
        self.amb = {}

    def scen(self, ns, labels=None):
        from rsome import dro
        self.m = dro.Model(labels if labels else ns)
        self.ns = ns
        self.lab = list(self.m.series_scen.index)
        return self.m.p

    def dvar(self, shape=(), vtype='C'):
        x = self.m.dvar(shape, vtype)
        self.decs.append(x)
        return x

    def rvar(self, shape=()):
        z = self.m.rvar(shape)
        self.rvs.append(z)
        return z

    def Ez(self, z):
        return self.rso.E(z)

    def evt(self, x, positions):
        labs = [self.lab[p] for p in positions]
        x.adapt(labs if len(labs) > 1 else labs[0])

    def aff(self, x, z, xidx=None, zidx=None):
        xx = x if xidx is None else x[xidx]
        zz = z if zidx is None else z[zidx]
        xx.adapt(zz)

    def ambiguity(self):
        key = 'F%d' % len(self.amb)
        self.amb[key] = self.m.ambiguity()
        return key

    def supp(self, F, scens, *cons):
        A = self.amb[F]
        if scens is None:
            A.suppset(*cons)
        else:
            for s in scens:
                A[self.lab[s]].suppset(*cons)

    def expt(self, F, scens, *cons):
        A = self.amb[F]
        if scens is None:
            A.exptset(*cons)
        else:
            labs = [self.lab[s] for s in scens]
            (A.loc[labs] if len(labs) > 1 else A[labs[0]]).exptset(*cons)

    def prob(self, F, *cons):
        self.amb[F].probset(*cons)

    def E(self, e):
        return self.rso.E(e)

    def kldiv(self, p, q, r):
        return self.rso.kldiv(p, q, r)

    def entropy_ge(self, p, r):
        return self.rso.entropy(p) >= r

    def abs(self, e):
        return abs(e)

    def norm(self, e, p):
        return self.rso.norm(e, {1: 1, 2: 2, 'inf': 'inf'}[p])

    def square(self, e):
        return self.rso.square(e)

    def exp(self, e):
        return self.rso.exp(e)

    def maxof(self, *pieces):
        return self.rso.maxof(*pieces)

    def minof(self, *pieces):
        return self.rso.minof(*pieces)

    def sum(self, e, axis=None):
        return e.sum(axis=axis) if axis is not None else e.sum()

    def plus(self, l, r):
        return l + r

    def le(self, l, r):
        return l <= r

    def ge(self, l, r):
        return l >= r

    def eq(self, l, r):
        return l == r

    def st(self, c, forall=None):
        if forall is not None:
            c = c.forall(self.amb[forall])
        self.m.st(c)

    def minsup(self, e, F):
        self.m.minsup(e, self.amb[F])

    def maxinf(self, e, F):
        self.m.maxinf(e, self.amb[F])

    def min(self, e):
        self.m.min(e)

    def max(self, e):
        self.m.max(e)

    def interface(self, formula, oracle):
        """oracle interface name -> column, through the real DecVar.get() with a sentinel solution."""
        from rsome.lp import Solution
        import pandas as pd
        n = formula.linear.shape[1]
        sol = Solution('sentinel', 0.0, np.arange(n, dtype=float) + 0.25, 0, 0.0)
        m = self.m
        keep = (m.solution, m.ro_model.solution, m.ro_model.rc_model.solution)
        m.solution = sol
        m.ro_model.solution = sol
        m.ro_model.rc_model.solution = sol
        names = {}
        try:
            for nm, (k, ev, i, zn) in oracle.iface_names().items():
                x = self.decs[k]
                if zn is None:
                    g = x.get()
                    val = g.loc[self.lab[ev]] if isinstance(g, pd.Series) else g
                    v = np.array(val, dtype=float).reshape(-1)[i]
                else:
                    r = int(zn[1:zn.index('[')]) if '[' in zn else int(zn[1:])
                    z = self.rvs[r]
                    zn_all = [p_name(p) for p in pvars('z%d' % r, z.shape).reshape(-1)]
                    j = zn_all.index(zn)
                    g = x.get(z)
                    val = g.loc[self.lab[ev]] if isinstance(g, pd.Series) else g
                    v = np.array(val, dtype=float).reshape(x.size, -1)[i, j]
                if np.isnan(v):
                    raise HarnessError('declared coefficient %s reads back as NaN' % nm)
                c = v - 0.25
                if abs(c - round(c)) > 1e-9:
                    raise HarnessError('sentinel read-back is not a column: %r' % v)
                names[nm] = int(round(c))
        finally:
            m.solution, m.ro_model.solution, m.ro_model.rc_model.solution = keep
        return names


# =====================================================================================
class CompiledDRO:
    def __init__(self, desc, primal=True):
        from .cprog import CProg
        self.o = OracleDRO()
        desc(self.o)
        self.r = RealDRO()
        desc(self.r)
        self.formula = self.r.m.do_math(primal=primal)
        self.cp = CProg(self.formula)
        self.iface = self.r.interface(self.formula, self.o)
        # decisions / coefficients the declaration leaves free to differ must be different columns of the program
        bycol = {}
        for nm, c in self.iface.items():
            bycol.setdefault(c, []).append(nm)
        self.collisions = sorted(sorted(v) for v in bycol.values() if len(v) > 1)
        self.iface['t'] = 0
        o = self.o
        self.supports = {}
        for F, A in o.amb.items():
            for s in range(o.ns):
                self.supports[(F, s)] = USet(A['supp'][s], o.znames)

    def env(self, vs):
        return Z3Env({n: vs[c] for n, c in self.iface.items()})

    # ---- weight polytope of an ambiguity set
    def weights(self, F):
        """Returns (wnames, verts_of_supports, list of weight-vertex dicts)."""
        o = self.o
        A = o.amb[F]
        sv = {}
        for s in range(o.ns):
            U = self.supports[(F, s)]
            if U.kind != 'poly':
                raise HarnessError('non-polyhedral support in the dro oracle')
            sv[s] = U.vertices()
            if not sv[s]:
                raise HarnessError('empty support')
        wn = [(s, k) for s in range(o.ns) for k in range(len(sv[s]))]
        names = ['w%d_%d' % sk for sk in wn]
        ineq, eq = [], []
        for nm in names:
            ineq.append(({nm: Fraction(-1)}, Fraction(0)))
        eq.append(({nm: Fraction(1) for nm in names}, Fraction(1)))
        psub = {}
        for s in range(o.ns):
            pp = Poly()
            for k in range(len(sv[s])):
                pp = pp + Poly.var('w%d_%d' % (s, k))
            psub['p[%d]' % s] = pp
        for c in A['prob']:
            if c.is_atom():
                a = c.expr
                if a.kind not in ('abs', 'norm1', 'norminf') or a.k <= 0:
                    raise HarnessError('probability set outside the polyhedral class')
                tmp = USet([c], ['p[%d]' % s for s in range(o.ns)])
                pi, pe = tmp.hrep()
                for coef, rhs in pi:
                    ineq.append(_sub_lin(coef, rhs, psub))
                for coef, rhs in pe:
                    eq.append(_sub_lin(coef, rhs, psub))
            else:
                for p in c.polys():
                    q = p.subs(psub)
                    (ineq if c.sense == 'le' else eq).append(_lin_of(q))
        for scens, cons in A['expt']:
            # perspective: mu := sum_{s in E} sum_k w[s,k] v_sk ,  scale := sum_{s in E} p_s
            scale = Poly()
            for s in scens:
                scale = scale + psub['p[%d]' % s]
            musub = {}
            for zn in o.znames:
                mu = Poly()
                for s in scens:
                    for k, v in enumerate(sv[s]):
                        mu = mu + Poly.var('w%d_%d' % (s, k)) * v.get(zn, Fraction(0))
                musub['E' + zn] = mu
            enames = ['E' + zn for zn in o.znames]
            tmp = USet(cons, enames)
            pi, pe = tmp.hrep()
            for coef, rhs in pi:
                q = Poly()
                for nme, cf in coef.items():
                    q = q + musub[nme] * cf
                q = q - scale * rhs
                ineq.append(_lin_of(q))
            for coef, rhs in pe:
                q = Poly()
                for nme, cf in coef.items():
                    q = q + musub[nme] * cf
                q = q - scale * rhs
                eq.append(_lin_of(q))
        verts = enumerate_vertices(names, ineq, eq)
        if not verts:
            raise HarnessError('ambiguity set is empty')
        return names, sv, verts, (ineq, eq)

    def exp_prob(self, F):
        from .usets import EXP_SET_KINDS
        return any(c.is_atom() and c.expr.kind in EXP_SET_KINDS for c in self.o.amb[F]['prob'])

    def weights_poly(self, F):
        """The set of distributions as constraints over the vertex-spreading weights w[s,k] (Lemma J), for
        probability sets with exponential-cone atoms (KL divergence, entropy).  Returns (names, sv, G, H, T, aux):
        Poly lists G (g >= 0), H (h == 0), cone triples T and auxiliary names (see USet.relaxed_poly)."""
        o = self.o
        A = o.amb[F]
        sv = {}
        for s in range(o.ns):
            U = self.supports[(F, s)]
            if U.kind != 'poly':
                raise HarnessError('non-polyhedral support in the dro oracle')
            sv[s] = U.vertices()
            if not sv[s]:
                raise HarnessError('empty support')
        names = ['w%d_%d' % (s, k) for s in range(o.ns) for k in range(len(sv[s]))]
        G = [Poly.var(n) for n in names]
        H = [sum((Poly.var(n) for n in names), Poly()) - 1]
        psub = {}
        for s in range(o.ns):
            psub['p[%d]' % s] = sum((Poly.var('w%d_%d' % (s, k)) for k in range(len(sv[s]))), Poly())
        PU = USet(A['prob'], ['p[%d]' % s for s in range(o.ns)])
        g, h, T, aux = PU.relaxed_poly()
        G += [q.subs(psub) for q in g]
        H += [q.subs(psub) for q in h]
        T = [tuple(Poly.lift(q).subs(psub) for q in t) for t in T]
        for scens, cons in A['expt']:
            scale = sum((psub['p[%d]' % s] for s in scens), Poly())
            musub = {}
            for zn in o.znames:
                mu = Poly()
                for s in scens:
                    for k, v in enumerate(sv[s]):
                        mu = mu + Poly.var('w%d_%d' % (s, k)) * v.get(zn, Fraction(0))
                musub['E' + zn] = mu
            tmp = USet(cons, ['E' + zn for zn in o.znames])
            pi, pe = tmp.hrep()
            for coef, rhs in pi:
                G.append(scale * rhs - sum((musub[n] * cf for n, cf in coef.items()), Poly()))
            for coef, rhs in pe:
                H.append(scale * rhs - sum((musub[n] * cf for n, cf in coef.items()), Poly()))
        return names, sv, G, H, T, aux

    def prob_contains(self, F, w, tol=1e-7):
        """Numeric membership of the weight vector w (dict name -> float) in the TRUE set of distributions."""
        from .oracle import cons_eval
        o = self.o
        names, sv, G, H, T, aux = self._wp(F)
        if any(v < -tol for v in w.values()) or abs(sum(w.values()) - 1) > tol:
            return False
        pv = {'p[%d]' % s: sum(w['w%d_%d' % (s, k)] for k in range(len(sv[s]))) for s in range(o.ns)}
        for c in o.amb[F]['prob']:
            if cons_eval(c, pv) > tol:
                return False
        # expectation sets are linear in w: they are among G/H with only w names
        wn = set(names)
        for g in G:
            if g.vars() <= wn and g.evalf(w) < -tol:
                return False
        for h in H:
            if h.vars() <= wn and abs(h.evalf(w)) > tol:
                return False
        return True

    def _wp(self, F):
        if not hasattr(self, '_wpc'):
            self._wpc = {}
        if F not in self._wpc:
            self._wpc[F] = self.weights_poly(F)
        return self._wpc[F]

    def worst_distribution(self, F, vals):
        """argmax sum_w w[s,k]*vals[s,k] over the true set (numeric, SLSQP); used to confirm counterexamples."""
        from scipy.optimize import minimize
        from .oracle import cons_eval
        o = self.o
        names, sv, G, H, T, aux = self._wp(F)
        wn = set(names)
        c = np.array([vals[n] for n in names], dtype=float)

        def pv(x):
            w = dict(zip(names, x))
            return {'p[%d]' % s: sum(w['w%d_%d' % (s, k)] for k in range(len(sv[s]))) for s in range(o.ns)}
        cons = []
        for g in G:
            if g.vars() <= wn:
                cons.append(dict(type='ineq', fun=(lambda x, g=g: g.evalf(dict(zip(names, x))))))
        for h in H:
            if h.vars() <= wn:
                cons.append(dict(type='eq', fun=(lambda x, h=h: h.evalf(dict(zip(names, x))))))
        for cc in o.amb[F]['prob']:
            if cc.is_atom():
                cons.append(dict(type='ineq', fun=(lambda x, cc=cc: -cons_eval(cc, pv(x)))))
        best = None
        starts = [np.ones(len(names)) / len(names)]
        for cc in o.amb[F]['prob']:
            if cc.is_atom() and cc.expr.kind == 'kldiv':
                q = [float(frac(v)) for v in np.array(cc.expr.params, dtype=object).reshape(-1)]
                if len(q) == o.ns:
                    x0 = []
                    for s in range(o.ns):
                        x0 += [q[s] / len(sv[s])] * len(sv[s])
                    starts.append(np.array(x0))
        for x0 in starts:
            r = minimize(lambda x: -float(c @ x), x0, constraints=cons, method='SLSQP', options=dict(maxiter=300))
            w = {n: float(max(v, 0.0)) for n, v in zip(names, r.x)}
            tot = sum(w.values())
            w = {n: v / tot for n, v in w.items()}
            if not self.prob_contains(F, w, 1e-7):
                # pull towards the centre until inside (the set is convex and the start is inside)
                w0 = dict(zip(names, x0))
                lam = 1.0
                for _ in range(40):
                    lam *= 0.8
                    w2 = {n: lam * w[n] + (1 - lam) * w0[n] for n in names}
                    if self.prob_contains(F, w2, 1e-7):
                        w = w2
                        break
                else:
                    continue
            val = sum(w[n] * vals[n] for n in names)
            if best is None or val > best[0]:
                best = (val, w)
        return best

    # ---- semantic rows
    def inst(self, p, s):
        return Poly.lift(p).subs(self.o.subst_for(s))

    def rows(self):
        """dict(label, kind 'plain'|'E'|'det', cons, F)"""
        o = self.o
        out = []
        for i, (c, F) in enumerate(o.cons):
            F = F if F is not None else o.default
            if isinstance(c, OECons):
                out.append(dict(label='c%d' % i, kind='E', cons=c.cons, F=F))
            else:
                out.append(dict(label='c%d' % i, kind='plain', cons=c, F=F))
        if o.obj is not None:
            sign, e, F = o.obj
            t = Poly.var('t')
            if isinstance(e, OExp):
                inner = e.e
                expr = (inner * sign) if isinstance(inner, OAtom) else parr(inner).reshape(-1)[:1] * sign
                out.append(dict(label='obj', kind='E', cons=OCons(osub(expr, t), 'le'), F=F))
            else:
                expr = (e * sign) if isinstance(e, OAtom) else parr(e).reshape(-1)[:1] * sign
                out.append(dict(label='obj', kind='plain', cons=OCons(osub(expr, t), 'le'), F=F))
        return out


def _lin_of(q):
    if q.degree() > 1:
        raise HarnessError('non-linear weight constraint')
    coef = {}
    for m, c in q.t.items():
        if m:
            coef[m[0]] = c
    return coef, -q.constant()


def _sub_lin(coef, rhs, sub):
    q = Poly()
    for nm, c in coef.items():
        q = q + sub[nm] * c
    q = q - rhs
    return _lin_of(q)


def piece_polys(c):
    """A constraint `expr <= 0` as a list of alternatives: max-of-affine -> one poly per piece;
    returns (list of lists: for array entries each a list of pieces), sense."""
    if c.is_atom():
        a = c.expr
        if a.k <= 0:
            raise HarnessError('dro oracle: non-convex atom use')
        if a.kind == 'max':
            off = a.off.reshape(-1)[0]
            return [[parr(p).reshape(-1)[0] * a.k + off for p in a.arg]], c.sense
        args = list(a.arg.reshape(-1))
        offs = list(a.off.reshape(-1))
        if a.kind == 'abs':
            return [[e * a.k + o, e * (-a.k) + o] for e, o in zip(args, offs)], c.sense
        if a.kind == 'norminf':
            return [[e * (sg * a.k) + offs[0] for e in args for sg in (1, -1)]], c.sense
        if a.kind == 'norm1':
            g = []
            for signs in itertools.product((1, -1), repeat=len(args)):
                q = Poly()
                for sg, e in zip(signs, args):
                    q = q + e * (sg * a.k)
                g.append(q + offs[0])
            return [g], c.sense
        raise HarnessError('dro oracle: unsupported atom %s' % a.kind)
    return [[p] for p in c.polys()], c.sense


# =====================================================================================
#  semantic terms (adversary eliminated: support vertices, weight-polytope vertices)
# =====================================================================================
def _zmax(z3, ts):
    m = ts[0]
    for t in ts[1:]:
        m = z3.If(t >= m, t, m)
    return m


def dro_row_terms(cm, row, env, z3, cache):
    """List of (z3 term T, sense) such that the row holds iff every T <= 0 (== 0)."""
    o = cm.o
    c = row['cons']
    groups, sense = piece_polys(c)
    F = row['F']
    out = []
    uses_z = any(p.vars() & set(o.znames) for g in groups for p in g) or \
        any(d.mask for d in o.decs)
    if row['kind'] == 'plain':
        for g in groups:
            for s in range(o.ns):
                inst = [cm.inst(p, s) for p in g]
                if any(q.vars() & set(o.znames) for q in inst):
                    if F is None:
                        raise HarnessError('robust dro row without ambiguity set')
                    for v in cm.supports[(F, s)].vertices():
                        for q in inst:
                            out.append((env.p(q.subs(v)), sense))
                else:
                    for q in inst:
                        out.append((env.p(q), sense))
        return out
    # expectation row
    if F is None:
        raise HarnessError('expectation row without ambiguity set')
    if F not in cache:
        cache[F] = cm.weights(F)
    names, sv, wverts, _ = cache[F]
    for g in groups:
        # value of the integrand at every (scenario, support vertex)
        val = {}
        for s in range(o.ns):
            inst = [cm.inst(p, s) for p in g]
            for k, v in enumerate(sv[s]):
                ts = [env.p(q.subs(v)) for q in inst]
                val[(s, k)] = ts[0] if len(ts) == 1 else _zmax(z3, ts)
        for w in wverts:
            terms = []
            for s in range(o.ns):
                for k in range(len(sv[s])):
                    wk = w['w%d_%d' % (s, k)]
                    if wk != 0:
                        terms.append(z3.RealVal(str(wk)) * val[(s, k)])
            out.append((z3.Sum(terms) if terms else z3.RealVal(0), sense))
    return out


def dro_hold(cm, row, env, z3, cache):
    return [(t <= 0) if s == 'le' else (t == 0) for t, s in dro_row_terms(cm, row, env, z3, cache)]


def dro_viol(cm, row, env, z3, cache, eps=0):
    e = z3.RealVal(str(eps))
    return [(t > e) if s == 'le' else z3.Or(t > e, t < -e) for t, s in dro_row_terms(cm, row, env, z3, cache)]
