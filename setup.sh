#!/bin/sh
# Offline creation of the overlay venv: /venv's packages (numpy, scipy, rsome editable -> /repo,
# solvers) + z3-solver, cvc5, crosshair-tool, sympy from the local wheelhouse.
HERE="$(cd "$(dirname "$0")" && pwd)"
V="$HERE/.venv"
exec 9>"$HERE/.venv.lock"
flock 9
if [ -x "$V/bin/python" ] && "$V/bin/python" -c "import z3, crosshair, numpy, rsome" 2>/dev/null; then
  exit 0
fi
rm -rf "$V"
/venv/bin/python -m venv "$V" || exit 1
SP="$V/lib/python3.12/site-packages"
echo "import site; site.addsitedir('/venv/lib/python3.12/site-packages')" > "$SP/_overlay.pth"
PIP_NO_INDEX=1 "$V/bin/pip" install -q --no-index --find-links /opt/veriftools/wheels z3-solver cvc5 crosshair-tool sympy || exit 1
"$V/bin/python" -c "import z3, crosshair, numpy, rsome" || exit 1
echo "venv ready"
