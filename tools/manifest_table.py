# executed by mkmanifest.py: one check(...) call per claimed property
check('C05', TV,
      'For every enumerated operator instance (operator template x operand kinds x shapes x index expression) the '
      'real expression object is built and z3 decides that its value, read with exact rationals from '
      'Affine.linear/const resp. RoAffine.raffine/affine, equals NumPy\'s result on symbolic arrays for ALL values '
      'of all decision and random variables. Shapes are compared concretely. Bounded in shapes/compositions, '
      'unbounded in values.',
      'Trusted: NumPy as the reference array algebra; z3; exact float->rational conversion. Shapes/index '
      'expressions are enumerated (ranks 0-4, extents 1-3), not symbolic.',
      'SMT (QF_NRA polynomial identity) translation validation of real expression objects vs NumPy-on-symbolic-arrays',
      'DESIGN.md section 4 C05')

NOT_APPLICABLE['C19'] = ('bit-identity of two concrete runs and absence of side effects on caller arrays / global RNG '
                         'have no input dimension a solver can quantify over; the semantic half (re-formulation denotes '
                         'the same program) is decided under C09/C18')
