# executed by mkmanifest.py: one check(...) call per claimed property
check('C05', TV,
      'For every enumerated operator instance (operator template x operand kinds x shapes x index expression) the '
      'real expression object is built and z3 decides that its value, read with exact rationals from '
      'Affine.linear/const resp. RoAffine.raffine/affine, equals NumPy\'s result on symbolic arrays for ALL values '
      'of all decision and random variables. Shapes are compared concretely. Bounded in shapes/compositions, '
      'unbounded in values.',
      'Trusted: NumPy as the reference array algebra; z3; exact float->rational conversion. Shapes/index '
      'expressions are enumerated (ranks 0-4, extents 1-3), not symbolic.',
      'SMT (QF_NRA polynomial identity) translation validation of real expression objects vs NumPy-on-symbolic-arrays',
      'DESIGN.md section 4 C05')

NOT_APPLICABLE['C19'] = ('bit-identity of two concrete runs and absence of side effects on caller arrays / global RNG '
                         'have no input dimension a solver can quantify over; the semantic half (re-formulation denotes '
                         'the same program) is decided under C09/C18')

check('C01', TV,
      'For every model of a bounded ro family the real ro.Model.do_math() output is read as an exact-rational cone '
      'program P and z3 decides, for EVERY P-feasible point (not only the optimum a solver happens to return) and '
      'every realisation of the attached uncertainty set, that each robust row, each piece of maxof/minof objectives '
      'and the epigraph bound hold: the adversary z is eliminated exactly (polytope vertices / ellipsoid support '
      'function) so that the query is QF_LRA / small QF_NRA; a second layer decides over z alone that the vector '
      'returned by the real solve() is robustly feasible. Uncertainty sets with exponential-cone atoms (KL divergence, '
      'entropy, sums of exp/log) are decided by the cone-pairing relaxation: set and counterpart memberships are '
      'weakened to the pairing inequality <K_exp, K_exp*> >= 0 and the bilinear system is refuted by '
      'reformulation-linearisation (QF_LRA; QF_NRA fall-back).',
      'Trusted: oracle semantics (NumPy on exact polynomials), Lemma V and Lemma S (cross-validated by direct '
      'bilinear queries in dimension <= 2), the pairing inequality of the exponential cone, z3. Bounded model family '
      '(see evidence.bounds); general p-norm sets are outside; ball-intersect-polytope and exp-cone-set rows are '
      'stretch obligations (may be undecided; a model of a relaxation is never reported without a reproduced real point).',
      'SMT translation validation (QF_LRA/QF_NRA inclusion queries, block-sliced) of the compiled robust counterpart',
      'DESIGN.md section 4 C01')

check('C02', TV,
      'Exactness of the robust counterpart: for each block of the real compiled program (connected component of rows '
      'over non-interface columns) z3 decides the exists-forall query "a point of the semi-infinite feasible set S '
      '(adversary eliminated exactly) for which no value of the block\'s local columns satisfies the block" is unsat, '
      'i.e. proj(P) contains S; with C01 the two sets are equal in the user\'s variables incl. LDR coefficient '
      'columns. In addition the exact optimum of P and of "min t s.t. S" (z3 Optimize, rationals) are equal and equal '
      'to what solve() reports. SOC-type / mixed sets: no S-point beats the reported optimum by more than delta, decided in '
      'QF_LRA over a scenario relaxation S_K of S (every robust row instantiated at exact rational members of the set, '
      'membership confirmed by z3; points chosen by a cutting-plane loop), QF_NRA as fall-back.',
      'Trusted as C01. Set equality only for polyhedral sets; for ball/ellipsoid/mixed sets only the optimum of the '
      'declared objective is decided (stretch obligations may be undecided). Family sets are bounded/non-empty.',
      'SMT exists-forall LRA projection per block + exact LRA optimisation (z3 Optimize) + QF_LRA optimum sandwich over a scenario relaxation (QF_NRA fall-back)',
      'DESIGN.md section 4 C02')

check('C06', TV,
      'For deterministic models (every polynomial-representable atom x syntactic form: constraint, scaled, negated, '
      'objective, affine right-hand side, written from the right; maxof/minof; rsocone; integer variables) z3 decides '
      'that the real compiled program implies each user constraint and the objective epigraph at EVERY compiled-feasible '
      'point, with atoms given by their mathematical definition. Tower atoms (power, p-norm, geometric mean) are '
      'verified compositionally: IPCone.to_soc() is abstracted to its power-cone meaning in the compiled program '
      '(wiring lemma, QF_NRA) and that meaning is established for the real to_soc() output of every recorded weight '
      'vector (log-linear QF_LRA + boundary QF_NRA). Layer B: the real solve() point satisfies the user constraints '
      'and get() equals the directly evaluated objective.'
      ' Also through the conic model class used on its own (rsome.gcp.Model), built in one go and with a formulation after every st() call; logarithm members whose value changes sign on the box (a lost positive factor is unsound only there); exactly singular quad() matrices with a guard against non-finite coefficients in the compiled program.',
      'Trusted: oracle definitions of atoms; harness stub of IPCone.to_soc (listed; justified by the tower theorem '
      'obligations run in the same check); monotonicity of log; for exp atoms only congruence and positivity of exp are '
      'used (sound for unsat). KL divergence, LMI/logdet/rootdet are outside.',
      'SMT translation validation (QF_LRA/QF_NRA inclusion, block-sliced) + compositional power-cone abstraction',
      'DESIGN.md section 4 C06')

check('C07', TV,
      'Exactness of atom encodings: per block of the real compiled program the exists-forall query "a user-feasible '
      'point with no completion of the block\'s auxiliary columns" is unsat (LRA core; NRA blocks are stretch); the '
      'tower theorem is discharged in both directions for every integer weight vector up to the bound (exists-forall '
      'LRA in logarithms, all binary-expansion branches of split()); exact optimum of P == exact optimum of the user '
      'model (z3 Optimize) == solve(); cone programs: no user-feasible point beats the reported optimum by delta; '
      'small MILPs: exact LIRA optimum == value of the real MILP path. Exponential-cone programs: projection under the '
      'cone-term abstraction (stretch) and a numeric search for a user-feasible point (true exp/log) that beats the reported '
      'optimum, pinned into the real compiled program before it is reported. All members also through the dro front end.',
      'Trusted as C06 plus closedness of the power cone / tower (boundary covered by samples). NRA projection '
      'obligations may be undecided (reported). Tolerance-regime atoms (quad, scaled squares): optimum sandwich only.',
      'SMT exists-forall LRA/NRA projection + log-linear tower theorem + exact LRA/LIRA optimisation',
      'DESIGN.md section 4 C07')

check('C08', TV,
      'Both the real do_math() and do_math(primal=False) outputs are read as exact-rational programs P and D. z3 '
      'decides weak duality over ALL feasible pairs (exists x,y: P(x), D(y), c\'x+d\'y<0 is unsat; QF_LRA for LPs, '
      'QF_NRA for SOC), computes both optima exactly (z3 Optimize) and checks opt(D) = -opt(P) and that D is solvable '
      'whenever P is feasible and bounded. Every pair of the 16 per-variable bound patterns (free, >=0, <=0, finite '
      'lower/upper, both, fixed at 0 / non-zero, [0,u], [l,0], strictly negative / positive, two bound objects on one entry) '
      'is enumerated, plus seeded 3-variable members and every member of the ro, dro and deterministic atom families. Conic '
      'programs (second-order and exponential cones, also together): weak duality for all feasible pairs by the cone-pairing '
      'relaxation decided as a linear program (reformulation-linearisation, QF_LRA; QF_NRA fall-back), zero gap and dual '
      'solvability by witnesses (real ECOS solutions of both real formulas checked against both exact programs).',
      'Trusted: z3 (Optimize for exact LRA optima), pairing inequalities of the second-order and exponential cones. LMI dual '
      'blocks are outside. SOC/exp weak-duality obligations with several cones are stretch (may be undecided). ECOS is used '
      'to establish that a conic primal is bounded (precondition) and as a source of witnesses for existential claims, '
      'never as the oracle of a universal claim.',
      'SMT weak-duality inclusion (QF_LRA/QF_NRA) + exact LRA optimisation of primal and dual formulas',
      'DESIGN.md section 4 C08')

check('C11', TV,
      'Each generated program (LP, MILP with binaries/integers and user bounds cutting into or fixing [0,1], SOCP, '
      'infeasible and unbounded members) is solved on a fresh model through every installed interface that supports it; '
      'for each pair z3 decides the certificate against the exact-rational compiled program: a truly feasible point '
      '(integrality included) exists within tolerance of the returned vector; no feasible point is better than the '
      'reported objective; for programs z3 proves infeasible/unbounded the interface reports no solution and get() raises.'
      " Mixed-integer programs unbounded along an integer ray carry a z3 certificate (feasible point + integral improving recession direction); an interface returning an 'optimum' for them is a violation.",
      'Trusted: z3; the exact optimum of MILPs is computed by solver-guided enumeration of integer assignments. The '
      'interface code and C libraries run concretely (in a child process with a time limit); exp-cone programs are '
      'outside; tolerance 1e-6 (LP/MILP), 1e-4 (interior-point SOC). Exponential-cone models enter through soc_solve(): the '
      'program every SOC-capable interface receives is the real to_socp() output; the returned vector is checked against its '
      'rows, bounds and cone memberships by exact rational arithmetic (ground check: the 7-cone towers are undecided for nlsat).',
      'SMT certification (QF_LRA/QF_LIRA/QF_NRA) of every interface result against the compiled program',
      'DESIGN.md section 4 C11')

check('C14', TV,
      'Symbolic half: a symbolic dual solution (pi, upi, lpi) and primal point are injected as model.solution, the KKT '
      'conditions of the real compiled LP are assumed (stationarity, signs, complementary slackness as disjunctions), '
      'the real LinConstr.dual()/Bounds.dual() run unchanged on these symbolic arrays, and z3 decides for ALL KKT points '
      'that the user-level certificate holds: objective gradient = dual-weighted constraint and bound gradients, '
      'dual-weighted right-hand sides = objective value, signs by direction of optimisation, results shaped like their '
      'constraints. Concrete half: the (pi, upi, lpi) of each dual-capable interface (SciPy, Gurobi, ECOS) give a valid '
      'certificate whose value equals the exact optimum computed by z3. Objective fronts: min/max, rsome.lp, and the same objective stated with minmax()/maxmin() over a random variable that does not matter.'
      ' Constraints written as 2-D expressions must return duals in that shape. Build histories: the model is formulated or solved when only a prefix of the constraint objects exists; dual() must read the rows of its own constraint in the program compiled last.',
      'Trusted: the KKT convention of the interfaces (stated in evidence.assumptions); z3; the harness\'s own reading of '
      'the user model from the generator spec. Bounded: <= 4 variables, <= 4 constraint arrays, one upper/lower bound '
      'constraint per entry.',
      'symbolic solution injection into the real dual() code + QF_LRA over all KKT points; exact LRA optimum',
      'DESIGN.md section 4 C14')

check('C16', TV,
      'The text of the real lp_export() is parsed by an independent LP-format reader and the DataFrame of the real '
      'show() is converted back; z3 decides that each denotes exactly the formula that is solved: the feasible sets '
      '(linear rows, second-order-cone rows, bounds) have empty symmetric difference, the objectives are equal as linear '
      'forms, and General/Binary/Type data induce the same domains.'
      ' Binary columns are read under both conventions of LP readers (explicit Bounds entries intersected with [0,1] or kept); programs with exponential cones must be refused by the export. Every program is exported twice: its primal formula and its dual formula do_math(primal=False) (general objective vectors, free and sign-constrained multipliers).',
      'Trusted: the harness LP reader (LP-format defaults, float() for decimal strings), z3. Float formatting itself runs '
      'concretely on enumerated coefficient values (negative, zero, 1e-9, 1e9, 1/3, infinite bounds, empty rows).',
      'SMT equivalence (xor of feasible sets, QF_LRA/QF_NRA) between formula and parsed export',
      'DESIGN.md section 4 C16')

check('C10', TV,
      'Inductive proof over operation chains, executed on the real methods: an arbitrary state of a Convex-family '
      'object satisfying the invariant (k = sign*multiplier^e, offset, multiplier >= 0, sign 0 only with multiplier 0) is '
      'built with symbolic multiplier/offset, one real operation (__neg__/__mul__/__rmul__/__add__/__radd__/__sub__/'
      '__rsub__/__le__/__ge__/reflected/__eq__) is run concolically with symbolic scalar operands, every path is '
      'enumerated by dynamic symbolic execution and z3 discharges per path that the invariant is re-established for the '
      'mathematically correct (k\', a\'), that comparisons accept only convex uses, that the produced constraint record '
      'denotes the written constraint, and that strictly convex uses are not rejected - for Convex, PerspConvex, '
      'DecConvex, DecPerspConvex (all 18 atom type letters) and PiecewiseConvex/ExpPiecewiseConvex. Chains of any length '
      'follow by induction. Layer T runs real atoms x chains with real affine offsets x every comparison form and min/max '
      'objective in the ro and dro front ends: non-convex forms must raise before a program exists. Layer M: for 16 atoms x 9 '
      'chains x constraint / objective forms the real compiled program is validated against k*atom + affine (inclusion and '
      'exists-forall projection, the machinery of C06/C07; nonlinear projections are stretch obligations).',
      'The invariant layer is an inductive argument whose step is decided per path; the claim as a whole is translation '
      'validation over bounded families, not a proof. Bounded only in paths per operation (64, exhausted in every case). Trusted: the concolic scalar class, z3, the '
      'reading of a CvxConstr record (validated by C06/C07). Affine (non-scalar) offsets are covered concretely in layer '
      'T; bilinear products are a finite type matrix executed concretely.',
      'concolic (dynamic symbolic) execution of the real curvature calculus + SMT per path; inductive invariant',
      'DESIGN.md section 4 C10')

check('C12', TV,
      'Symbolic solution injection: model.solution carries an object array of symbolic entries, the real get() / '
      '__call__ code runs unchanged, and z3 decides for ALL solution values that variable and slice read-back returns the '
      'columns the object denotes in constraints, that affine and bi-affine expression calls equal NumPy on symbolic '
      'arrays at assigned (or omitted = zero) realisations, that Convex.__call__ equals the atom definition times '
      'multiplier plus offset on every concolic path (abs/max/sqrt branches explored exhaustively), and that dro '
      'per-scenario series carry the label of their scenario for every partition and order of adapt() calls; objective '
      'read-back follows the sense. Every query is evaluated twice on the same objects; a read-back that raises where NumPy indexing succeeds is a violation; realisations given through slices; bi-affine dro calls with adaptive affine parts; convex calls per scenario; power and perspective atoms.'
      ' Expectations inside or added to convex atoms (dro): refused, or the compiled program has the exact optimum of the same model with the expectation taken outside the atom (both compiled by RSOME, optima by z3). Products of decision rules with random variables are tried after every chain of scalings / negations / additions / slices and with adaptation declared through slices, pre-created slices and expressions built before adapt().'
      ' Views of bi-affine dro arrays (indexing, reshape, T), slices of slices and expression objects built before adapt() was declared are called with realisations as well.',
      'Trusted: harness stub scipy.sparse @ object arrays (dense); EXP/LOG uninterpreted and shared with the oracle; '
      'coefficient tables (float arrays with NaN) are read with a sentinel solution. N/G atoms (numpy.linalg.norm on '
      'objects) and DecConvex transcendental calls are outside.',
      'symbolic solution injection into the real read-back code + concolic path enumeration + SMT equality',
      'DESIGN.md section 4 C12')

check('C13', TV,
      'CrossHair exhausts the paths of the real comb_set / event_dict / flat for all partitions of up to 3 (4, restricted) '
      'scenarios ("Confirmed over all paths", twins refuted); for every partition reachable by adapt() sequences in '
      'every order and every dependency mask the per-scenario decision rule is read from the real rule_var() / '
      'DecRule.to_affine() with symbolic columns and z3 decides: undeclared components have identically zero '
      'coefficients, scenarios of one event share the rule, scenarios of different events and distinct declared '
      'coefficients are independent, declared dependencies can be non-zero; mixed partitions give the common refinement; '
      'illegal declarations raise. Also: random variables declared after adapt() or after the first use, decisions declared after the adaptive one with other partitions, shifted integer scenario labels given as labels or as Scen objects, slice objects created before adapt(), and a list of illegal declarations that must raise together with their legal neighbours that must not.'
      ' The read-back of the declared dependence (values per event, coefficient tables per scenario rule) is decided on the same partition family.',
      'Trusted: CrossHair 0.0.110 + z3; bounded to 2-4 scenarios and 3 random components. The illegal-declaration list '
      'and refinement labels are finite concrete probes (auxiliary, reported separately in evidence).',
      'CrossHair symbolic execution of pure-Python kernels + SMT over symbolic rule coefficients',
      'DESIGN.md section 4 C13')

check('C18', TV,
      'Carry-over: z3 decides that the real to_socp() output restricted to the original rows/columns has the same '
      'feasible set as the input without its exponential cones (types, objective, bounds identical) and the input '
      'formula is unchanged by the call (also second call / later solve). Block meaning: for every appended block of the '
      'real matrix (degrees 4-8, two cut settings, different cone positions) z3 discharges the stage lemmas split, cuts, '
      'the three rotated cones f*al>=y^2, g*al>=(y+al)^2, h*al>=g^2, the Taylor row and its degree-4 polynomial '
      'consequence v0*al^3 >= al^4*T4(y/al), every squaring stage, and completability of each stage. Accuracy: '
      '(1+delta_L)^(2^L) <= 1+1e-3 with exact rational enclosures of e, decided as ground rational arithmetic. Concrete '
      'layer: real soc_solve (ECOS and Gurobi) on a grid of exponents within 1e-3 of exp. Head-sign lemma: rows and bounds of the '
      'appended block alone imply head >= 0 for every appended cone (interfaces that state a cone as tail\'tail <= head^2 rely on it).',
      'Trusted/stated lemmas: composition of the squaring stages (monotone squaring), Taylor remainder, perspective split '
      'for the cut-off rows. The real SOC solver is used only in the concrete layer.',
      'SMT stage lemmas (QF_LRA/QF_NRA) on the real to_socp() matrix + ground rational accuracy bound',
      'DESIGN.md section 4 C18')

check('C03', TV,
      'For each dro model of the family the real dro.Model.do_math() output P is read with exact rationals and the '
      'event-wise decisions are identified through the real DecVar.get(). With Lemma J a distribution is a weight vector on '
      '(scenario, support vertex) pairs and the ambiguity set (probability set, per-scenario supports, perspective-scaled '
      'expectation sets on events) a polytope W whose vertices are enumerated exactly; z3 decides for ALL P-feasible points '
      'that no vertex distribution makes the expected objective exceed the epigraph variable or an E-constraint positive, '
      'and that plain constraints hold at every scenario and support vertex (QF_LRA with ite-max for piecewise integrands). '
      'Layer B: for the real solve() point the weights are symbolic (no enumeration of W). Probability sets with KL-divergence '
      'or entropy constraints: the weights stay symbolic, cone memberships are weakened to the pairing inequality and the '
      'bilinear system (weights x compiled columns) is refuted by reformulation-linearisation (QF_LRA). Further members: expectation equalities E(..) == c, sums of expectations, equalities of adaptive decisions with their own set, convex functions of affinely adaptive decisions (which RSOME must refuse or compile correctly), a random variable written outside E() next to an expectation (robust in either operand order). '
      'Supports / expectation sets with second-order-cone constraints (balls, second-moment liftings, norm-bounded means): the adversary in moment form (masses and first moments per scenario and piece, perspectives of the support constraints), '
      'coupled to the compiled block by Cauchy-Schwarz pairings under every permutation and reflection of the cone tails, refuted by reformulation-linearisation (QF_LRA, only unsat used; stretch obligations, real counterexamples by explicit discrete distributions).',
      'Trusted: Lemma J and Lemma V (stated), the pairing inequality of the exponential cone, z3, oracle reading of the '
      'ambiguity set, Lemma M (moment form, DESIGN.md 3.11). Exactness for conic supports is outside (C04 keeps polyhedral sets).',
      'SMT translation validation (QF_LRA inclusion) of the compiled DRO reformulation against vertex distributions',
      'DESIGN.md section 4 C03')

check('C04', TV,
      'Exactness of the DRO reformulation: per block of the real compiled program the exists-forall LRA query "a decision '
      'that satisfies every row for every vertex distribution / scenario / support vertex but admits no completion of the '
      'block\'s multiplier columns" is unsat; the exact optimum of P equals the exact optimum of the finite program over '
      'vertex distributions (z3 Optimize) and the value of the real solve(); special cases: singleton supports with fixed '
      'probabilities (sample average), single scenario without expectation information vs the compiled ro model.',
      'Trusted as C03. Blocks with more than 60 local columns are stretch obligations. Members with conic supports / expectation sets (balls, second-moment liftings, exponential-cone bounds on the mean) have no exists-forall decision procedure within reach: '
      'for them a numeric layer evaluates the worst case of every row as a conic LP over the moment set (Lemma M, ECOS) at the returned decisions and searches a feasible point whose worst-case objective beats the reported optimum (a checkable certificate of conservatism); reported separately in evidence (conic-better-point-search).',
      'SMT exists-forall LRA projection per block + exact LRA optimisation',
      'DESIGN.md section 4 C04')

check('C09', TV,
      'Histories (other sets defined before/between/after, sets attached late and in reverse order, primal and dual '
      'formulation and solve between st() calls, further declarations after a formulation, one expression object re-used '
      'under E(maxof) and in a plain constraint, interleaved ambiguity sets, repeated formulation) are replayed on the real '
      'API only; the program compiled after the history must satisfy the C01/C02 (ro) resp. C03/C04 (dro) obligations '
      'against the semantics of the declared model - inclusion for all compiled-feasible points and realisations / '
      'distributions, exists-forall projection per block - and have the same exact optimum as a fresh build. Decoy sets are tight and rotate through every constraint list of the shared support model (bounds, linear, abs/1-/inf-norm, 2-norm, p-norm, exp-type); further histories: integer variables declared after a formulation, one constraint object used with two forall() sets, ambiguity sets changed after a solve with nothing else declared.'
      ' Random variables declared after a set was compiled (ro: exact optimum against the build that declares them first; dro: history late_rvar_after_solve); one piecewise constraint object used with two sets; a random variable declared after a set with auxiliary columns and a set without; one Affine / RoAffine / decision-rule object indexed or summed in one constraint and reshaped / transposed in another (both orders against a fresh object per use); set descriptions without constraints after another set was compiled.',
      'Trusted as C01-C04. Equality of denoted sets, not of matrices, is the oracle (histories may reorder or add columns).',
      'SMT translation validation of the program compiled after each history + exact optimum vs fresh build',
      'DESIGN.md section 4 C09')

check('C15', TV,
      'Every member of the rewrite group (min f / -max -f, declaration order, a<=b / -b<=-a / b>=a, equality / two '
      'inequalities, bounds as Bounds / linear constraints / inf-norm, array / loops, positive rescaling, set as list / '
      'several arguments, ro / single-scenario dro, a random variable fixed at a non-zero value by an equality / two bound objects / two rows) is compiled by the real code and z3 computes the exact optimum of each '
      'compiled program over exact rationals; all variants of a base model must agree exactly, and the real solve() must '
      'report that value.',
      'Trusted: z3 Optimize (LRA). Base family is LP-representable (box / 1-norm sets, LDR); rewrites are composed in '
      'pairs in the thorough tier.',
      'exact LRA optimisation (z3) of every rewritten model\'s real compiled program; pairwise equality',
      'DESIGN.md section 4 C15')

check('C17', TV,
      'Two models (every ordered pair of ro/dro) are built with declarations, sets, formulation and solves interleaved in '
      'four patterns; z3 decides that each compiled program has the same feasible set, objective and exact optimum as the '
      'program of the same model built alone. Auxiliary (finite, exhaustive over model kinds): 14 misuse patterns - '
      'cross-model constraint / variable / random variable / set / objective set, second objective, non-scalar objective, '
      'reading unsolved / infeasible / unbounded models, ambiguity() after constraints - must raise.'
      " Solver options given to one solve (params=) must not change a later solve of another model: A, B with options, A again on every installed interface, exact optimum of A by z3, Gurobi's process-wide defaults compared before/after; type strings with letters other than C/B/I must raise.",
      'Trusted: z3. The misuse matrix is a concrete finite probe (reported separately in evidence).',
      'SMT equivalence (xor, QF_LRA) of interleaved vs alone compiled programs + exact optimum',
      'DESIGN.md section 4 C17')
