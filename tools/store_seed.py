#!/usr/bin/env python3
"""usage: tools/store_seed.py <id> <src-dir> <breaks> <caught_by,comma> <change> | <needs> | <note>   (text fields via stdin JSON)"""
import json, os, shutil, sys
ROOT = os.path.dirname(os.path.dirname(os.path.abspath(__file__)))
sid, src = sys.argv[1], sys.argv[2]
info = json.load(sys.stdin)
d = os.path.join(ROOT, 'seeded', sid)
os.makedirs(d, exist_ok=True)
for f in ('patch.diff', 'demo.py', 'NOTES.md'):
    if os.path.exists(os.path.join(src, f)):
        shutil.copy(os.path.join(src, f), os.path.join(d, f))
res = open('/tmp/conf/%s.result' % sid).read().split('\n')
kv = dict(l.split('=') for l in res if '=' in l)
pt = [l for l in res if 'passed' in l or 'failed' in l]
meta = dict(id=sid, breaks_property=info['breaks'], change=info['change'], needs_to_manifest=info['needs'],
            confirmed=dict(by='tools/confirm_seed.sh in a fresh scratch worktree of /repo HEAD',
                           demo_exit_with_change=int(kv['demo_with_change_exit']), demo_exit_without_change=int(kv['demo_without_change_exit']),
                           pytest=pt[0] if pt else '?'),
            detection=dict(caught_by=info['caught_by'], note=info['note'],
                           command='tools/try_seed.py seeded/%s/patch.diff %s' % (sid, ','.join(info['caught_by']))),
            origin=info.get('origin') or 'independent sub-agent (fourth round) given only the property text, a scratch worktree and the locations of the earlier changes to avoid')
json.dump(meta, open(os.path.join(d, 'meta.json'), 'w'), indent=1)
print('stored', d)
