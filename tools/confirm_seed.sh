#!/bin/sh
# usage: tools/confirm_seed.sh <id> <dir-with-patch.diff-and-demo.py>
# Independent confirmation in a fresh scratch worktree of /repo HEAD: demo fails with the change, passes without,
# and the pinned test suite passes with the change.  Result in /tmp/conf/<id>.result ; the worktree is removed.
ID="$1"; SRC="$2"; W=/tmp/conf/$ID
mkdir -p /tmp/conf; rm -rf "$W"; git -C /repo worktree prune
git -C /repo worktree add -q "$W" HEAD || exit 2
R=/tmp/conf/$ID.result; : > "$R"
cd "$W" || exit 2
if ! git apply "$SRC/patch.diff"; then echo "PATCH_DOES_NOT_APPLY" >> "$R"; cd /; git -C /repo worktree remove --force "$W"; exit 1; fi
cp "$SRC/demo.py" "$W/demo.py"
PYTHONPATH="$W" timeout 600 /venv/bin/python demo.py > /tmp/conf/$ID.demo_with.log 2>&1; echo "demo_with_change_exit=$?" >> "$R"
git apply -R "$SRC/patch.diff"
PYTHONPATH="$W" timeout 600 /venv/bin/python demo.py > /tmp/conf/$ID.demo_without.log 2>&1; echo "demo_without_change_exit=$?" >> "$R"
git apply "$SRC/patch.diff"
PYTHONPATH="$W" timeout 3000 /venv/bin/python -m pytest -q -p no:cacheprovider --timeout=900 tests > /tmp/conf/$ID.pytest.log 2>&1; echo "pytest_exit=$?" >> "$R"
tail -1 /tmp/conf/$ID.pytest.log >> "$R"
PYTHONPATH="$W" /venv/bin/python -c "import rsome" >> "$R" 2>&1
cd /; git -C /repo worktree remove --force "$W"
echo done >> "$R"
