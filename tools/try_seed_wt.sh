#!/bin/sh
# usage: tools/try_seed_wt.sh <worktree-with-change> <C01,C02,...> [quick|thorough]
# Run checks against a scratch worktree of /repo that carries a seeded change (PYTHONPATH), evidence redirected; /repo untouched.
W="$1"; IDS="$2"; TIER="${3:-quick}"
HERE="$(cd "$(dirname "$0")/.." && pwd)"
EV="$HERE/.scratch/sev/$(basename "$W")"; mkdir -p "$EV"
CAUGHT=""
for id in $(echo "$IDS" | tr ',' ' '); do
  out=$(PYTHONPATH="$W" RSV_REPO="$W" RSV_EVIDENCE_DIR="$EV" "$HERE/rsv-check" "$id" --tier "$TIER" 2>&1); rc=$?
  echo "$id exit $rc | $(echo "$out" | grep -E 'detail:|HARNESS|INCONCLUSIVE' | head -2 | cut -c1-230 | tr '\n' ' ')"
  [ $rc -eq 1 ] && CAUGHT="$CAUGHT $id"
done
echo "caught by:${CAUGHT:- NONE}"
