#!/usr/bin/env python3
"""Run every seeded change against the checks listed in its meta.json (target property + claimed cross-detections) in a
scratch worktree of /repo (PYTHONPATH), evidence redirected; writes seeded/MATRIX.md.  /repo itself is not touched.

usage: tools/seed_matrix.py [quick|thorough] [id-substring]"""
import glob, json, os, subprocess, sys, shutil
ROOT = os.path.dirname(os.path.dirname(os.path.abspath(__file__)))
tier = sys.argv[1] if len(sys.argv) > 1 else 'quick'
only = sys.argv[2] if len(sys.argv) > 2 else ''
W = '/tmp/seedwt'
ev = os.path.join(ROOT, '.scratch', 'matrix_evidence')
rows = []
for f in sorted(glob.glob(os.path.join(ROOT, 'seeded', '*', 'meta.json'))):
    meta = json.load(open(f))
    if only and only not in meta['id']:
        continue
    if meta.get('obsolete_after'):
        rows.append((meta['id'], 'obsolete after fix %s (the change no longer alters behaviour)' % meta['obsolete_after']['commit'], ''))
        continue
    d = os.path.dirname(f)
    subprocess.run(['git', '-C', '/repo', 'worktree', 'remove', '--force', W], capture_output=True)
    subprocess.run(['git', '-C', '/repo', 'worktree', 'prune'])
    subprocess.run(['git', '-C', '/repo', 'worktree', 'add', '-q', W, 'HEAD'], check=True)
    r = subprocess.run(['git', '-C', W, 'apply', os.path.join(d, 'patch.diff')], capture_output=True, text=True)
    if r.returncode:
        rows.append((meta['id'], 'PATCH DOES NOT APPLY', ''))
        continue
    props = sorted(set([meta['breaks_property']] + meta['detection']['caught_by']))
    res = {}
    for p in props:
        shutil.rmtree(ev, ignore_errors=True)
        os.makedirs(ev, exist_ok=True)
        env = dict(os.environ, RSV_EVIDENCE_DIR=ev, PYTHONPATH=W, RSV_REPO=W)
        try:
            q = subprocess.run([os.path.join(ROOT, 'rsv-check'), p, '--tier', tier], capture_output=True, text=True, env=env,
                               cwd=ROOT, timeout=1800)
            res[p] = q.returncode
        except subprocess.TimeoutExpired:
            res[p] = 'timeout'
        print(meta['id'], p, res[p], flush=True)
    rows.append((meta['id'], ', '.join('%s' % p for p, c in res.items() if c == 1) or 'NONE',
                 ', '.join('%s(exit %s)' % (p, c) for p, c in res.items() if c != 1)))
subprocess.run(['git', '-C', '/repo', 'worktree', 'remove', '--force', W], capture_output=True)
shutil.rmtree(ev, ignore_errors=True)
txt = '# Detection matrix (tier %s)\n\nEach seeded change applied in a scratch worktree; checks run: its target property and the cross-detections ' \
      'claimed in meta.json.\n\n| change | checks that exit 1 with a VIOLATION line | checks that stay silent / fail otherwise |\n|---|---|---|\n' % tier
txt += '\n'.join('| %s | %s | %s |' % r for r in rows) + '\n'
if not only:
    open(os.path.join(ROOT, 'seeded', 'MATRIX.md'), 'w').write(txt)
print(txt)
