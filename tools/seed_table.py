#!/usr/bin/env python3
"""Regenerate seeded/README.md from the meta.json files."""
import glob, json, os
ROOT = os.path.dirname(os.path.dirname(os.path.abspath(__file__)))
rows = []
for f in sorted(glob.glob(os.path.join(ROOT, 'seeded', '*', 'meta.json'))):
    m = json.load(open(f))
    rows.append('| %s | %s | %s | %s | %s |' % (m['id'], m['change'], m['needs_to_manifest'], ', '.join(m['detection']['caught_by']),
                                                m['detection']['note'] + (' OBSOLETE: ' + m['obsolete_after']['reason'] if m.get('obsolete_after') else '')))
txt = """# Seeded changes

Each directory holds `patch.diff` (applies to /repo HEAD), `demo.py` (exit 1 with the change, 0 without), the author's
`NOTES.md` and `meta.json`.  Every change was written by an independent sub-agent that saw only the property text and a
scratch worktree, compiles, passes the pinned test suite (confirmed again by `tools/confirm_seed.sh`), and is run against
the checks with `tools/try_seed.py <patch> <ids>` (evidence redirected, /repo restored afterwards).

| id | change | what it needs to manifest | caught by | note |
|----|--------|---------------------------|-----------|------|
""" + '\n'.join(rows) + '\n'
open(os.path.join(ROOT, 'seeded', 'README.md'), 'w').write(txt)
print('seeded/README.md: %d changes' % len(rows))
