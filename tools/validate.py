#!/usr/bin/env python3
# run with python3-vt (has jsonschema)
import json, glob, jsonschema, sys, os
ROOT = os.path.dirname(os.path.dirname(os.path.abspath(__file__)))
m = json.load(open('MANIFEST.json'))
jsonschema.validate(m, json.load(open('/root/.vp/MANIFEST.schema.json')))
es = json.load(open('/root/.vp/EVIDENCE.schema.json'))
bad = 0
for f in sorted(glob.glob('evidence/*.json')):
    try:
        jsonschema.validate(json.load(open(f)), es)
    except Exception as e:
        bad += 1
        print('INVALID', f, str(e)[:300])
# extra rule stated in the schema's descriptions: a proof-level record must have discharged == obligations
for _f in sorted(glob.glob(os.path.join(ROOT, 'evidence', '*.json'))):
    _d = json.load(open(_f))
    if _d.get('level') == 'proof' and _d['coverage'].get('discharged') != _d['coverage'].get('obligations'):
        print('INVALID (proof-level: discharged != obligations):', _f)
        bad += 1
print('manifest ok; evidence files: %d, invalid: %d' % (len(glob.glob('evidence/*.json')), bad))
sys.exit(1 if bad else 0)
