#!/usr/bin/env python3
# run with python3-vt (has jsonschema)
import json, glob, jsonschema, sys
m = json.load(open('MANIFEST.json'))
jsonschema.validate(m, json.load(open('/root/.vp/MANIFEST.schema.json')))
es = json.load(open('/root/.vp/EVIDENCE.schema.json'))
bad = 0
for f in sorted(glob.glob('evidence/*.json')):
    try:
        jsonschema.validate(json.load(open(f)), es)
    except Exception as e:
        bad += 1
        print('INVALID', f, str(e)[:300])
print('manifest ok; evidence files: %d, invalid: %d' % (len(glob.glob('evidence/*.json')), bad))
sys.exit(1 if bad else 0)
