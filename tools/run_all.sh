#!/bin/sh
# Run every registered quick (or $1=thorough) check on the current tree, regenerating evidence; stop on the first failure.
cd "$(dirname "$0")/.."
TIER="${1:-quick}"
FAIL=0
for id in $(python3 -c "import json;print(' '.join(c['property_id'] for c in json.load(open('MANIFEST.json'))['checks']))"); do
  out=$(./rsv-check "$id" --tier "$TIER" 2>&1); rc=$?
  echo "$out" | grep "^\[$id" | cut -c1-200
  if [ $rc -ne 0 ]; then echo "  -> $id exit $rc"; echo "$out" | grep -E "VIOLATION|HARNESS|INCONCLUSIVE|detail" | head -5 | cut -c1-250; FAIL=1; fi
done
python3-vt tools/validate.py || FAIL=1
exit $FAIL
