#!/usr/bin/env python3
"""Regenerate MANIFEST.json from the table below (kept next to the checks so they stay in sync)."""
import json
import os

ROOT = os.path.dirname(os.path.dirname(os.path.abspath(__file__)))

TV = 'translation_validation'

CHECKS = {}
NOT_APPLICABLE = {}


def check(pid, category, text, note, technique, design, engine='rsv'):
    CHECKS[pid] = dict(
        property_id=pid,
        quick_cmd='./rsv-check %s --tier quick' % pid,
        thorough_cmd='./rsv-check %s --tier thorough' % pid,
        evidence_file='evidence/%s.json' % pid,
        replay_cmd_template='./rsv-check replay {path}',
        engine=engine,
        level_claimed=dict(category=category, text=text, design_ref=design),
        level_note=note,
        technique=technique,
    )


exec(open(os.path.join(ROOT, 'tools', 'manifest_table.py')).read())

props = [json.loads(l)['id'] for l in open(os.path.join(ROOT, 'properties.jsonl'))]
for p in props:
    if p not in CHECKS and p not in NOT_APPLICABLE:
        NOT_APPLICABLE[p] = 'check not built yet (work in progress; see DESIGN.md section 4 for the planned encoding)'

manifest = dict(
    version=1,
    setup_cmd='./setup.sh',
    hooks=dict(guard='RSOME_VERIF', enable='no source hooks are needed: all instrumentation is harness-side '
               '(symbolic Solution objects, concolic scalars); RSOME_VERIF is reserved and unused',
               baseline_off_cmd='cd /repo && /venv/bin/python -m pytest -ra -q -p no:cacheprovider --timeout=900 '
                                '--continue-on-collection-errors',
               source_commits=[], add_only=True),
    engines=[
        dict(name='rsv-tv', path='rsv/', serves_properties=[p for p in props if p in CHECKS],
             kind_free_text='SMT translation validation of the real do_math() output against a NumPy-on-symbolic-'
                            'polynomials oracle (z3 5.1, diffed against z3 4.8.12)'),
    ],
    checks=[CHECKS[p] for p in props if p in CHECKS],
    notes='All checks: ./rsv-check <ID> --tier quick|thorough; exit 0/1/2 = held / reproduced violation / harness '
          'error or inconclusive core obligation. Encodings are regenerated from /repo on every run.',
    not_applicable=[dict(property_id=p, reason=r) for p, r in NOT_APPLICABLE.items()],
)
with open(os.path.join(ROOT, 'MANIFEST.json'), 'w') as f:
    json.dump(manifest, f, indent=1)
print('MANIFEST.json: %d checks, %d not applicable' % (len(manifest['checks']), len(manifest['not_applicable'])))
