#!/usr/bin/env python3
"""Apply a seeded change to /repo, run the given checks against it (evidence redirected), undo the change.

usage: tools/try_seed.py <patch.diff> <C01,C02,...|all> [quick|thorough]
Prints one line per check: exit code and the first VIOLATION / detail lines.  /repo is restored afterwards."""
import json
import os
import subprocess
import sys

ROOT = os.path.dirname(os.path.dirname(os.path.abspath(__file__)))
patch, props = sys.argv[1], sys.argv[2]
tier = sys.argv[3] if len(sys.argv) > 3 else 'quick'
if props == 'all':
    props = [c['property_id'] for c in json.load(open(os.path.join(ROOT, 'MANIFEST.json')))['checks']]
else:
    props = props.split(',')
st = subprocess.run(['git', '-C', '/repo', 'status', '--porcelain', '--untracked-files=no'], capture_output=True, text=True).stdout
if st.strip():
    sys.exit('refusing: /repo has uncommitted changes:\n' + st)
r = subprocess.run(['git', '-C', '/repo', 'apply', patch], capture_output=True, text=True)
if r.returncode:
    sys.exit('patch does not apply: ' + r.stderr)
ev = os.path.join(ROOT, '.scratch', 'seed_evidence')
os.makedirs(ev, exist_ok=True)
env = dict(os.environ, RSV_EVIDENCE_DIR=ev)
res = {}
try:
    for p in props:
        q = subprocess.run([os.path.join(ROOT, 'rsv-check'), p, '--tier', tier], capture_output=True, text=True, env=env, cwd=ROOT)
        lines = [l for l in (q.stdout + q.stderr).splitlines() if l.startswith('VIOLATION') or 'detail:' in l or 'HARNESS' in l
                 or 'INCONCLUSIVE' in l]
        res[p] = q.returncode
        print('%s exit %d %s' % (p, q.returncode, (' | ' + lines[0][:220]) if lines else ''))
        for l in lines[1:3]:
            print('      ' + l[:220])
finally:
    subprocess.run(['git', '-C', '/repo', 'checkout', '--', '.'])
print('caught by: %s' % ([p for p, c in res.items() if c == 1] or 'NONE'))
